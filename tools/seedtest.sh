#!/bin/bash
# tools/seedtest.sh <mutant dir> <check ids...>
# Confirms a seeded change (suite passes with it, demo fails with it and passes without it) in a scratch
# worktree of /repo's HEAD, then runs the given checks against that worktree (VERIF_TREE) and reports
# which of them raise a VIOLATION. Nothing is written to /repo; evidence of these runs goes to a scratch dir.
set -u
export GOFLAGS=-mod=mod GOPROXY=off GOSUMDB=off GOTOOLCHAIN=local
VH="$(cd "$(dirname "$0")/.." && pwd)"
M="$(cd "$1" && pwd)"; shift
# the scratch worktree has a fixed path per slot (SEED_SLOT, default 0): the Go build cache is keyed by source paths, and a
# fresh random path per run would add a full copy of every package to the cache each time (it grew past 100 GB that way)
W="/var/tmp/seedwt.slot${SEED_SLOT:-0}"; OUT="$(mktemp -d /var/tmp/seedout.XXXXXX)"
cleanup() { git -C /repo worktree remove --force "$W" >/dev/null 2>&1; rm -rf "$W" "$OUT"; }
trap cleanup EXIT
git -C /repo worktree remove --force "$W" >/dev/null 2>&1; rm -rf "$W"; git -C /repo worktree prune
git -C /repo worktree add -q --detach "$W" HEAD || exit 2
cd "$W"
if ! git apply --3way "$M/patch.diff" 2>"$OUT/apply.log" && ! git apply "$M/patch.diff" 2>>"$OUT/apply.log"; then echo "RESULT apply=FAILED"; cat "$OUT/apply.log"; exit 2; fi
git reset -q
suite=pass; go build ./... >"$OUT/suite.log" 2>&1 && go test -vet=off -count=1 ./... >>"$OUT/suite.log" 2>&1 || suite=FAIL
demo_with=skip; demo_without=skip
if [ -f "$M/demo_path.txt" ]; then
  # demo_path.txt: one path per line (relative to repo root); demo files sit next to it by base name
  pkgs=""
  while read -r dp; do [ -z "$dp" ] && continue; mkdir -p "$(dirname "$dp")"; b="$M/$(basename "$dp")"; [ -f "$b" ] || b="$b.txt"; cp "$b" "$dp"; pkgs="$pkgs ./$(dirname "$dp")/"; done < "$M/demo_path.txt"
  pkgs="$(echo $pkgs | tr ' ' '\n' | sort -u | tr '\n' ' ')"
  demo_with=fail-as-expected; go test -vet=off -count=1 $pkgs >"$OUT/demo_with.log" 2>&1 && demo_with=UNEXPECTED-PASS
  git checkout -q -- .   # library change off (untracked demo files stay); never git stash: refs/stash is shared by all worktrees
  demo_without=pass; go test -vet=off -count=1 $pkgs >"$OUT/demo_without.log" 2>&1 || demo_without=UNEXPECTED-FAIL
  # restore the patch, drop the demo files
  git checkout -q -- . ; git clean -fdq; git apply "$M/patch.diff" || git apply --3way "$M/patch.diff"; git reset -q
fi
echo "RESULT suite=$suite demo_with_change=$demo_with demo_without_change=$demo_without"
[ "$suite" = FAIL ] && tail -20 "$OUT/suite.log"
[ "$demo_with" = UNEXPECTED-PASS ] && tail -5 "$OUT/demo_with.log"
[ "$demo_without" = UNEXPECTED-FAIL ] && tail -20 "$OUT/demo_without.log"
cd "$VH"
for c in "$@"; do
  VERIF_TREE="$W" VERIF_OUT_DIR="$OUT" ./check "$c" quick > "$OUT/check-$c.log" 2>&1; rc=$?
  echo "CHECK $c exit=$rc $(grep -c '^VIOLATION' "$OUT/check-$c.log") violation line(s)"
  grep -E "violating key" "$OUT/check-$c.log" | head -4 | cut -c1-400
  [ $rc -ge 2 ] && tail -5 "$OUT/check-$c.log"
done
