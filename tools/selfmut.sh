#!/bin/bash
# tools/selfmut.sh <file> <sed expr> <check ids...>: my own quick mutation in a scratch worktree (suite + checks)
set -u
export GOFLAGS=-mod=mod GOPROXY=off GOSUMDB=off GOTOOLCHAIN=local
F="$1"; E="$2"; shift 2
W="$(mktemp -d /var/tmp/selfmut.XXXXXX)"; OUT="$(mktemp -d /var/tmp/selfout.XXXXXX)"
trap 'git -C /repo worktree remove --force "$W" >/dev/null 2>&1; rm -rf "$W" "$OUT"' EXIT
rmdir "$W"; git -C /repo worktree add -q --detach "$W" HEAD || exit 2
(cd "$W" && sed -i "$E" "$F" && git diff --stat | tail -1)
if [ -z "$(cd "$W" && git diff --name-only)" ]; then echo "sed changed nothing"; exit 2; fi
suite=pass; (cd "$W" && go build ./... && go test -vet=off -count=1 ./... ) >"$OUT/suite.log" 2>&1 || suite=FAIL
echo "suite=$suite"; [ $suite = FAIL ] && grep -E "^(---|FAIL|ok)" "$OUT/suite.log" | grep -v "^ok" | head -8
cd /verif
for c in "$@"; do
  VERIF_TREE="$W" VERIF_OUT_DIR="$OUT" ./check "$c" quick > "$OUT/check-$c.log" 2>&1; rc=$?
  echo "CHECK $c exit=$rc"; grep -E "violating key" "$OUT/check-$c.log" | head -3 | cut -c1-300; [ $rc -ge 2 ] && tail -5 "$OUT/check-$c.log"
done
