#!/bin/bash
# tools/seedmatrix.sh [parallelism] [id-glob]
# Re-confirms every stored seeded change against /repo's HEAD (suite passes with it, demo fails with it and
# passes without it) and re-runs the checks listed in its meta.json (detected_by) against it; writes
# seeded/MATRIX.md. A change whose patch no longer applies (because a later fix rewrote the same lines) is
# reported as such.
cd "$(dirname "$0")/.."
P="${1:-4}"; G="${2:-*}"
OUT=/var/tmp/seedmatrix; rm -rf "$OUT"; mkdir -p "$OUT"
ls -d seeded/$G/ | while read -r d; do
  id="$(basename "$d")"
  checks="$(python3 -c "import json,sys; print(' '.join(json.load(open('$d/meta.json')).get('detected_by',[])))")"
  echo "$id $checks"
done | xargs -P "$P" --process-slot-var=SEED_SLOT -L 1 bash -c 'id="$0"; shift 0; SEED_SLOT="m$SEED_SLOT" tools/seedtest.sh "seeded/$id" "$@" > "/var/tmp/seedmatrix/$id.log" 2>&1'
{
  echo "# Seeded changes re-run against /repo $(git -C /repo log --format=%h -1), machinery $(git log --format=%h -1)"
  echo
  echo "| change | confirmation | checks (exit, violation lines) |"
  echo "|---|---|---|"
  for f in "$OUT"/*.log; do
    id="$(basename "$f" .log)"
    r="$(grep -m1 '^RESULT' "$f" | sed 's/^RESULT //')"
    c="$(grep '^CHECK' "$f" | sed 's/^CHECK //' | tr '\n' ';')"
    echo "| $id | $r | $c |"
  done
} > seeded/MATRIX.md
grep -c "exit=1" seeded/MATRIX.md; grep -v "exit=1" seeded/MATRIX.md | tail -n +5
