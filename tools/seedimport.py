#!/usr/bin/env python3
# tools/seedimport.py <src dir> <seed id> <detected_by: comma list or 'none'> [note]
# copies a confirmed seeded change into /verif/seeded/<id>/ and completes meta.json
import json, os, shutil, sys
src, sid, det = sys.argv[1], sys.argv[2], sys.argv[3]
note = sys.argv[4] if len(sys.argv) > 4 else ""
dst = os.path.join('/verif/seeded', sid)
os.makedirs(dst, exist_ok=True)
for f in os.listdir(src):
    if f.endswith('.go') or f in ('patch.diff', 'demo_path.txt'):
        shutil.copy(os.path.join(src, f), os.path.join(dst, f if not f.endswith('.go') else f + '.txt'))
meta = {}
try:
    meta = json.load(open(os.path.join(src, 'meta.json')))
except Exception as e:
    meta = {"note": "agent meta.json unreadable: %s" % e}
meta["confirmed_by_me"] = {"how": "tools/seedtest.sh in a scratch worktree of /repo HEAD: full suite with the change = pass; demo with the change = fails; demo without the change = passes", "result": "confirmed"}
meta["detected_by"] = [] if det == 'none' else det.split(',')
meta["demo_files_note"] = "demo test files are stored with a .txt suffix so that they are not picked up by go tooling; demo_path.txt says where they go in the tree"
if note:
    meta["strengthening"] = note
json.dump(meta, open(os.path.join(dst, 'meta.json'), 'w'), indent=1, ensure_ascii=False)
print("imported", sid)
