#!/bin/bash
# Builds the harness once (offline) so that later ./check runs hit a warm GOCACHE
# (plain, instrumented/verif-tagged and -race variants).
set -e
cd "$(dirname "$0")"
export GOFLAGS=-mod=mod GOPROXY=off GOSUMDB=off GOTOOLCHAIN=local
B="$(mktemp -d /var/tmp/verif-setup.XXXXXX)"; trap 'rm -rf "$B"' EXIT
cp harness/go.mod "$B/go.mod"; cp /repo/go.sum "$B/go.sum"
(cd harness && go build -modfile="$B/go.mod" -o "$B/vcheck" ./cmd/vcheck && go build -modfile="$B/go.mod" -o "$B/instr" ./cmd/instr)
"$B/vcheck" list >/dev/null
"$B/instr" /repo "$B/itree" >/dev/null
sed "s#=> /repo#=> $B/itree#" harness/go.mod > "$B/go.sched.mod"; cp /repo/go.sum "$B/go.sched.sum"
(cd harness && go build -tags verif -modfile="$B/go.sched.mod" -o "$B/vsched" ./cmd/vsched)
cp "$B/go.mod" "$B/go.race.mod"; cp "$B/go.sum" "$B/go.race.sum"
(cd harness && go build -race -modfile="$B/go.race.mod" -o "$B/vrace" ./cmd/vrace)
echo setup ok
