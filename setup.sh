#!/bin/bash
# Builds the harness once (offline) so that later ./check runs hit a warm GOCACHE.
set -e
cd "$(dirname "$0")"
export GOFLAGS=-mod=mod GOPROXY=off GOSUMDB=off GOTOOLCHAIN=local
B="$(mktemp -d /var/tmp/verif-setup.XXXXXX)"; trap 'rm -rf "$B"' EXIT
cp harness/go.mod "$B/go.mod"; cp /repo/go.sum "$B/go.sum"
(cd harness && go build -modfile="$B/go.mod" -o "$B/vcheck" ./cmd/vcheck)
"$B/vcheck" list >/dev/null
echo setup ok
