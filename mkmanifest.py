#!/usr/bin/env python3
# Regenerates MANIFEST.json from the table below (dev helper; MANIFEST.json is the committed artefact).
import json, sys

TECH = "bounded exhaustive enumeration (explicit-state model checking of the real code against a Go reference model)"
CHECKS = {
 # id: (design section, technique, level text, level note)
 "C01": ("2/C01", TECH + ": all token strings / byte strings up to a length bound, all single edits of seed sources, all operator x operand pairs, all (function, arity) x receivers x argument tuples, all paths of the schema-covering family x functions, patch operations x paths x values x indexes; totality oracle with panic capture and a per-case hang watchdog",
         "every case of the finite spaces is executed on the real Compile / Evaluate / EvaluateAs* / patch entry points inside recover, in worker sub-processes with a 45 s no-progress watchdog, so a panic, a fatal runtime error or a non-terminating call is attributed to one case",
         "inputs outside the alphabets and pools are not covered; nil options / typed-nil elements / nil entries of the input slice are outside the domain as the property says"),
 "C02": ("2/C02", TECH + ": every name path, prefix and index spelling of the jsonformat tree of every resource of a schema-covering family (all 146 types, every field, each-choice covering)",
         "every schema position (message type x field x list/choice shape x depth) is realised in a generated resource; every path of its JSON tree is evaluated in four spellings on the real Evaluate and compared, by pointer identity and in document order (and `<path>.value` of every primitive with its JSON value), with the elements jsonformat rendered there; foreign and proto-only names must fail with ErrInvalidField",
         "resources nested deeper than the depth bound and values outside the generator pools are not covered; jsonformat and the proto descriptors are trusted"),
 "C03": ("2/C03", TECH + ": programs (every node kind, every table function) x inputs x environment aliasing/capacity shapes; every name path of the schema-covering family x continuations; before/after fingerprints",
         "every (program, input, environment shape) of the finite product is evaluated on the real code; inputs, backing arrays (incl. sentinel-filled spare capacity), slice headers and the compiled expression tree are compared before/after, and every FHIR element of a result must be an input's own node",
         "reflect/unsafe observe private state; programs beyond the list and resources deeper than the depth bound are not covered"),
 "C04": ("1.4, 2/C04", "stateless model checking of the implementation: preemption-bounded DFS over all interleavings at instrumented scheduling points under a controlled cooperative scheduler; explicit enumeration of Compile and Evaluate call histories and of process-wide call histories (every rotation of a 171-call alphabet, one fresh process each) on the real API; TZ/clock enumeration; plus a labelled free-running -race sample",
         "for 13 scenarios of 2-3 threads sharing compiled expressions and resources every schedule with <= 1-2 (quick) / 2-3 (thorough) preemptions at the instrumented points (function entries, loop iterations, package-variable writes of the CURRENT tree, re-instrumented on every run) is executed to completion and each thread's observation is compared with its isolated observation; every Compile history (<=3/4 calls over 11) and Evaluate history (<=2/3 over 48) is executed and compared with the empty-history outcome and the initial observable state; now()/today()/timeOfDay() under 12 override instants and 4 process time zones",
         "scheduling points are at function-entry/loop/package-variable granularity: unsynchronised accesses inside a basic block are only seen by the free-running -race pass (a sample, never the deciding step); more than 3 threads / 3 preemptions are not explored; the bound completed is reported per scenario; a schedule in which a resumed thread waits on a lock held by a parked thread (sync.Once / Mutex / Map in the code under test) is not feasible at this granularity: it is abandoned, counted (schedules_abandoned_blocked) and never a finding"),
 "C05": ("2/C05", TECH + ": all ordered pairs and triples of a typed value pool x 6 operators; all collection pairs up to a length bound",
         "every ordered pair/triple of the value pool and every collection pair within the bound is evaluated on the real Compile/Evaluate and compared with an independent comparator and with the relational laws on the implementation's own outputs",
         "values outside the pool are not covered; reference comparator (math/big, own date/time component model) is trusted"),
 "C06": ("2/C06", TECH + ": complete finite space of operand forms x operators x criteria positions",
         "the space of (value form x source form)^2 x operators is finite and enumerated completely in both tiers against the FHIRPath truth tables",
         "truth tables and the singleton rule are hand-written in the harness"),
 "C07": ("2/C07", TECH + ": every operator position and every (function, arity, position) of the function tables read from the tree under check",
         "complete enumeration of operator/function positions holding an empty collection supplied three ways",
         "per-signature argument table in the harness decides what a well-typed non-empty co-argument is"),
 "C08": ("2/C08", TECH + ": all ordered pairs of an Integer boundary grid and a Decimal pool x 6 operators + unary functions, vs math/big",
         "all pairs of the grids are evaluated through Compile/Evaluate and compared with exact rational arithmetic",
         "values outside the grids are not covered; math/big is trusted"),
 "C09": ("2/C09", TECH + ": start values x precisions x offsets x units x amounts x {+,-} enumerated as a grid of direct Add/Sub calls and through Evaluate, vs an independent proleptic-Gregorian day-count model",
         "every cell of the grid is executed on the real system.{Date,DateTime,Time}.{Add,Sub} (and every type/precision/unit/op combination through Compile/Evaluate) and compared with a calendar model that shares no code with the repository; monotonicity and (x+q)-q=x are checked on the implementation's own outputs",
         "years outside 2019-2022 only at listed edge days; the model (harness/lib/reftime.go, c09Ref) is trusted; documented latitude for UCUM spellings and finer-than-precision units"),
 "C18": ("2/C18", "explicit-state BFS over patch operation histories on the real object + bounded exhaustive single-operation sweep (every element x operation x spelling x value class x index), both against a structural reference model",
         "every element of every swept resource is the target of every operation in every spelling with every value class and index; every history of the 16-operation alphabet up to the depth bound is executed on the real patch package with states de-duplicated by canonical bytes; each transition is compared with the reference model's transition (equal FHIR JSON) and each failing operation must leave resource and value untouched",
         "the reference model works by schema position on a protobuf copy (C02 ties schema positions to the jsonformat tree); elements inside contained/bundled resources are not targeted; quick sweeps 24 of the 146 generated types"),
 "C19": ("2/C19", TECH + ": all 146 type names x id/version/base pools x reference forms; every single edit of seed strings x every parser; reference.Is over all triples of a reference pool",
         "every generated identity/reference string is formatted and parsed by every parser of the repository and compared component-wise; parse-format-parse stability for every accepted string; typed vs weak references built with google/fhir normalisation; equivalence laws over all triples",
         "id alphabet per FHIR R4; ids/versions/bases outside the pools and multi-byte edits are not covered"),
 "C10": ("2/C10", TECH + ": all collections up to a length bound over an 8-item alphabet x criteria x all positions n; all ordered collection pairs for the set functions",
         "every collection of the alphabet up to the bound is pushed through where/select/exists/all/take/skip/indexer/distinct and every ordered pair through exclude/intersect on the real code; results compared by pointer identity with a slice reference model and with the equations of the statement",
         "reference equality partition of the alphabet is hand-written; collections longer than the bound and other item types only via the path-derived sub-space"),
 "C11": ("2/C11", TECH + ": all expression trees up to an operator-count bound over every operator token of the 13 precedence levels; two renderings, all token-gap decorations, all trailing tokens",
         "every tree within the bound is rendered minimally and fully parenthesised and compiled by the real parser; the two compiled expression trees must be identical (reflective AST dump) and evaluate identically; every gap decoration and trailing token of every tree with <=2 operators is compiled as well",
         "the harness's precedence table is trusted; trees with more operator nodes than the bound are not covered"),
 "C17": ("2/C17", TECH + ": all option lists up to a length bound, in every order, over finite option alphabets x reference sites; reference fold of the contract",
         "every evaluate-option list (<=3/4 options) and compile-option list (<=2/3 options) over the alphabets is applied to the real Evaluate/Compile for every program / call site; outcomes (values by pointer identity, error sentinels via errors.Is, call counters and call logs of instrumented custom functions) are compared with a fold of the declared contract",
         "the contract fold is hand-written from the statement; acceptance of variadic custom functions is left open (totality only)"),
 "C12": ("2/C12", TECH + ": one subject per message descriptor of a schema-covering resource family and per System value form x every type specifier x 3 namespace forms, vs a hand-written R4 parent table",
         "every (subject, type specifier) pair of the finite product is evaluated with the real `is` and `as`; the declared type of each subject comes from its schema position, not from the repository",
         "R4 parent table is hand-written"),
 "C13": ("2/C13", TECH + ": items (value pool + string grammar) x 8 targets x {toT, convertsToT} with relational laws",
         "complete enumeration of the item pool and the string grammar against the laws of the statement and a hand-written conversion table",
         "conversion table and per-string validity parsers are hand-written in the harness"),
 "C14": ("2/C14", TECH + ": all strings up to a length bound over a mixed-width alphabet x all positions/lengths/patterns, vs a rune-slice reference",
         "every string of the alphabet up to the bound with every start/length/pattern is evaluated on the real code",
         "strings longer than the bound only within the periodic family; rune-slice reference trusted"),
 "C15": ("2/C15", TECH + ": all literal texts up to a length bound over an escape alphabet, temporal text products, proto precision enums, all 12x12 integer narrowing pairs",
         "each of the six finite sub-spaces is enumerated completely",
         "own escape decoder / temporal text parser and google/fhir jsonformat are trusted"),
 "C16": ("2/C16", TECH + ": complete space (spec names u table keys) x arity 0..4 x configs x compilers",
         "finite space enumerated completely in both tiers against the table under check and a hand-written specification signature table",
         "specification signature table hand-written in the harness"),
 "C20": ("2/C20", TECH + ": schema-indexed finite spaces: 146 resource types, 49 extension value types, all extension lists up to length 4 x mutators, extraction over the schema-covering resource family",
         "every resource type, every Extension.value[x] alternative (read from the proto descriptors, not from the repository's registry), every extension list up to the bound under every mutator, and every element of the covering resource family is pushed through the real wrappers / extractors and compared by pointer identity, with a list model and with the jsonformat tree",
         "resources nested deeper than the depth bound and values outside the generator pools are not covered; jsonformat is trusted"),
}
ALL = ["C%02d" % i for i in range(1, 21)]
checks = []
for cid in ALL:
    if cid not in CHECKS:
        continue
    sec, tech, text, note = CHECKS[cid]
    checks.append({
        "property_id": cid,
        "quick_cmd": "./check %s quick" % cid,
        "thorough_cmd": "./check %s thorough" % cid,
        "evidence_file": "evidence/%s.json" % cid,
        "replay_cmd_template": "./check %s --replay {path}" % cid,
        "engine": "bfs" if cid == "C18" else ("sched" if cid == "C04" else "explorer"),
        "level_claimed": {"category": "model_checking", "text": text, "design_ref": "DESIGN.md section " + sec},
        "level_note": note,
        "technique": tech,
    })
na = [{"property_id": c, "reason": "check under construction in this session (planned per DESIGN.md section 2); not claimed until it runs clean"} for c in ALL if c not in CHECKS]
m = {
 "version": 1,
 "setup_cmd": "./setup.sh",
 "hooks": {"guard": "verif", "enable": "no hooks are committed to /repo. ./check C04 instruments a scratch copy of the current working tree at check time (harness/cmd/instr inserts verifsched.Point/Access calls) and builds the schedule explorer against that copy with -tags verif; every other check imports the repository's packages directly through a replace directive", "baseline_off_cmd": "cd /repo && GOFLAGS=-mod=mod go test -vet=off -count=1 ./...", "source_commits": [], "add_only": True},
 "engines": [{"name": "bfs", "path": "harness/checks", "serves_properties": ["C18"], "kind_free_text": "explicit-state breadth-first search over operation histories of the real object; state = canonical deterministic bytes; successors by replaying the shortest path on a fresh copy; every transition compared with a reference model"}, {"name": "sched", "path": "harness/sched, harness/cmd/instr, harness/cmd/vsched", "serves_properties": ["C04"], "kind_free_text": "source instrumenter (scheduling points) + cooperative one-runnable-goroutine scheduler + preemption-bounded depth-first explorer with prefix replay and determinism gate; built with the guard tag 'verif' against an instrumented scratch copy of the current tree"}, {"name": "explorer", "path": "harness/core", "serves_properties": sorted(CHECKS), "kind_free_text": "index-enumerated finite case spaces, sharded over 16 worker sub-processes, every case executed on the real code; findings classified against known_findings.json and re-executed 5x before being reported"}],
 "checks": checks,
 "not_applicable": na,
 "notes": "fix: commits in /repo are listed under 'fixed' in known_findings.json",
}
json.dump(m, open("MANIFEST.json", "w"), indent=1)
print("checks:", [c["property_id"] for c in checks])
