// gentest: dev helper - every generated resource must marshal with jsonformat.
package main

import (
	"fmt"
	"os"
	"strconv"

	"github.com/verily-src/fhirpath-go/fhirpath/verifh/lib"
)

func main() {
	depth := 2
	if len(os.Args) > 1 {
		depth, _ = strconv.Atoi(os.Args[1])
	}
	bad, total, bytes := 0, 0, 0
	for _, n := range lib.ResourceTypeNames() {
		for v, r := range lib.Family(n, depth, 60) {
			total++
			_, b, err := lib.ResourceJSON(r)
			if err != nil {
				bad++
				if bad < 15 {
					fmt.Println("FAIL", n, v, err)
				}
				continue
			}
			bytes += len(b)
		}
	}
	fmt.Println("types", len(lib.ResourceTypeNames()), "instances", total, "bad", bad, "json bytes", bytes)
	if len(os.Args) > 2 {
		_, b, _ := lib.ResourceJSON(lib.GenResource(os.Args[2], 0, depth))
		fmt.Println(string(b))
	}
}
