// vcheck: coordinator / worker / replay entry point of the explorer.
package main

import (
	"fmt"
	"os"
	"strconv"
	"strings"
	"time"

	"github.com/verily-src/fhirpath-go/fhirpath/verifh/checks"
	"github.com/verily-src/fhirpath-go/fhirpath/verifh/core"
)

func usage() {
	fmt.Fprintln(os.Stderr, "usage: vcheck run <Cnn> quick|thorough | vcheck replay <file> | vcheck worker ... | vcheck list")
	os.Exit(2)
}

func main() {
	if len(os.Args) < 2 {
		usage()
	}
	self, _ := os.Executable()
	verifDir := os.Getenv("VERIF_DIR")
	if verifDir == "" {
		verifDir = "/verif"
	}
	seed, _ := strconv.Atoi(os.Getenv("VERIF_SEED"))
	nsh := 16
	if v, err := strconv.Atoi(os.Getenv("VERIF_SHARDS")); err == nil && v > 0 {
		nsh = v
	}
	switch os.Args[1] {
	case "tzdigest":
		for _, l := range checks.TZDigest() {
			fmt.Println(l)
		}
	case "c04rot":
		checks.C04RotMain(os.Args[2:])
	case "list":
		for _, id := range core.IDs() {
			fmt.Println(id)
		}
	case "run":
		if len(os.Args) < 4 {
			usage()
		}
		o := &core.Opts{ID: os.Args[2], Tier: os.Args[3], VerifDir: verifDir, Self: self, NShards: nsh, Seed: seed, DumpNovel: os.Getenv("VERIF_DUMP_NOVEL")}
		o.Deadline = 25 * time.Minute
		if o.Tier == "thorough" {
			o.Deadline = 3 * time.Hour
		}
		if v, err := time.ParseDuration(os.Getenv("VERIF_DEADLINE")); err == nil {
			o.Deadline = v
		}
		os.Exit(core.CoordinatorMain(o))
	case "replay":
		if len(os.Args) < 3 {
			usage()
		}
		os.Exit(core.ReplayMain(&core.Opts{VerifDir: verifDir, Self: self, ReplayFile: os.Args[2]}))
	case "worker":
		// worker <id> <tier> <shard> <nshards> <out> [--trace=f] [--skip=a:b,c:d] [--only=a:b] [--deadline=unix]
		if len(os.Args) < 7 {
			usage()
		}
		shard, _ := strconv.Atoi(os.Args[4])
		n, _ := strconv.Atoi(os.Args[5])
		trace, onlySub, onlyIdx := "", -1, -1
		var skips []string
		var deadline time.Time
		for _, a := range os.Args[7:] {
			switch {
			case strings.HasPrefix(a, "--trace="):
				trace = strings.TrimPrefix(a, "--trace=")
			case strings.HasPrefix(a, "--skip="):
				skips = strings.Split(strings.TrimPrefix(a, "--skip="), ",")
			case strings.HasPrefix(a, "--only="):
				fmt.Sscanf(strings.TrimPrefix(a, "--only="), "%d:%d", &onlySub, &onlyIdx)
			case strings.HasPrefix(a, "--upto="):
				var us, ui int
				fmt.Sscanf(strings.TrimPrefix(a, "--upto="), "%d:%d", &us, &ui)
				core.SetUpto(us, ui)
			case strings.HasPrefix(a, "--deadline="):
				u, _ := strconv.ParseInt(strings.TrimPrefix(a, "--deadline="), 10, 64)
				deadline = time.Unix(u, 0)
			}
		}
		os.Exit(core.WorkerMain(os.Args[2], os.Args[3], shard, n, os.Args[6], trace, skips, onlySub, onlyIdx, deadline))
	default:
		usage()
	}
}
