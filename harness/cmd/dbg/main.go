package main

import (
	"fmt"

	dtpb "github.com/google/fhir/go/proto/google/fhir/proto/r4/core/datatypes_go_proto"
	"github.com/verily-src/fhirpath-go/internal/element/reference"
	"github.com/verily-src/fhirpath-go/internal/fhir"
)

func main() {
	for _, u := range []string{"urn:uuid:00000000-0000-0000-0000-000001000001", "urn:uuid:5a17b7c2-e01c-4bc7-b973-31d4156b11d7", "urn:oid:1.2.000001000002"} {
		ref := &dtpb.Reference{Type: fhir.URI("Patient"), Reference: &dtpb.Reference_Uri{Uri: fhir.String(u)}}
		l, err := reference.LiteralInfoOf(ref)
		t, ok := l.Type()
		fmt.Println(u, "Of:", t, ok, err)
		l2, err := reference.LiteralInfoFromURI(u)
		t2, ok2 := l2.Type()
		fmt.Println("   FromURI:", t2, ok2, err)
		l3, err := reference.LiteralInfoOf(reference.Weak("Patient", u))
		fmt.Println("   weak:", l3, err)
	}
}
