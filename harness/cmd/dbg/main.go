package main

import (
	"fmt"

	"github.com/verily-src/fhirpath-go/fhirpath/verifh/core"
	"github.com/verily-src/fhirpath-go/fhirpath/verifh/lib"
)

func main() {
	for _, src := range []string{"@2020-01-01 + 110000 days", "@2020-01-01 + 20000 weeks", "@2020-01-01T00:00:00Z + 110000 days", "@2020-01-01T00:00:00Z + 3000000 hours", "@2020-01-01T00:00:00Z + 200000000 minutes", "@2020-01-01T00:00:00Z + 2147483647 seconds", "@2020-01-01T00:00:00Z + 9999999999 seconds", "@2020-01-01T00:00:00.000Z + 9999999999999999 milliseconds", "@2020-01-01 + 9000 years", "@2020-01-01 + 2147483647 years", "@2020-01-01 + 99999999999 days", "@T10:00 + 3000000 hours", "@T10:00 + 9999999999999 seconds", "@2020-01-01 - 3000 years", "@2020-01-01T00:00:00Z - 3000000 hours"} {
		r := lib.Run(src, nil, nil)
		fmt.Println(src, "=>", core.Short(r.String(), 160))
	}
}
