package main

import (
	"fmt"

	"github.com/verily-src/fhirpath-go/fhirpath/patch"
	"github.com/verily-src/fhirpath-go/fhirpath/verifh/lib"
	"github.com/verily-src/fhirpath-go/internal/fhir"
	"google.golang.org/protobuf/proto"
)

func main() {
	try := func(name string, res fhir.Resource, f func() error) {
		before := proto.Clone(res)
		err := f()
		fmt.Printf("%-60s err=%v changed=%v\n", name, err, !proto.Equal(before, res))
	}
	p := lib.PatientWithContained()
	try("Delete Patient.contained[0].id", p, func() error { return patch.Delete(p, "Patient.contained[0].id") })
	p = lib.PatientWithContained()
	try("Replace Patient.contained[0].status", p, func() error { return patch.Replace(p, "Patient.contained[0].status", fhir.Code("final")) })
	p = lib.PatientWithContained()
	try("Add Patient.contained[0] note", p, func() error {
		return patch.Add(p, "Patient.contained[0]", "language", fhir.Code("en"), &patch.Options{})
	})
	p = lib.PatientWithContained()
	try("Delete Patient.contained[0]", p, func() error { return patch.Delete(p, "Patient.contained[0]") })
	b := lib.Bundle()
	try("Delete Bundle.entry[0].resource.id", b, func() error { return patch.Delete(b, "Bundle.entry[0].resource.id") })
	b = lib.Bundle()
	try("Replace Bundle.entry[0].resource.active", b, func() error { return patch.Replace(b, "Bundle.entry[0].resource.active", fhir.Boolean(false)) })
	b = lib.Bundle()
	try("Delete Bundle.entry[0].resource", b, func() error { return patch.Delete(b, "Bundle.entry[0].resource") })
	b = lib.Bundle()
	try("Delete Bundle.entry[0].resource.name[0]", b, func() error { return patch.Delete(b, "Bundle.entry[0].resource.name[0]") })
}
