package main

import (
	"fmt"
	"strings"

	apb "github.com/google/fhir/go/proto/google/fhir/proto/annotations_go_proto"
	"github.com/verily-src/fhirpath-go/fhirpath/verifh/lib"
	"google.golang.org/protobuf/proto"
	"google.golang.org/protobuf/reflect/protoreflect"
)

func main() {
	seen := map[protoreflect.FullName]bool{}
	var walk func(md protoreflect.MessageDescriptor)
	n, bad := 0, 0
	walk = func(md protoreflect.MessageDescriptor) {
		if seen[md.FullName()] {
			return
		}
		seen[md.FullName()] = true
		if f := md.Fields().ByName("value"); f != nil && (f.Kind() == protoreflect.EnumKind) {
			n++
			base := proto.GetExtension(md.Options(), apb.E_FhirProfileBase)
			if !strings.HasSuffix(string(md.Name()), "Code") {
				bad++
				fmt.Println("enum-valued, not *Code:", md.FullName(), base)
			}
		}
		if f := md.Fields().ByName("value"); f != nil && f.Kind() == protoreflect.StringKind && strings.HasSuffix(string(md.Name()), "CodeType") {
			fmt.Println("string CodeType:", md.FullName())
		}
		for i := 0; i < md.Fields().Len(); i++ {
			if m := md.Fields().Get(i).Message(); m != nil {
				walk(m)
			}
		}
	}
	for _, tn := range lib.ResourceTypeNames() {
		walk(lib.NewResource(tn).ProtoReflect().Descriptor())
	}
	fmt.Println(n, bad)
}
