package main

import (
	"fmt"
	"strings"

	"github.com/verily-src/fhirpath-go/fhirpath/verifh/core"
	"github.com/verily-src/fhirpath-go/fhirpath/verifh/lib"
)

func main() {
	big := "1" + strings.Repeat("0", 400) + ".0"
	for _, src := range []string{"(1 '').abs()", "(1 '') + (1 '')", big + ".sqrt()", big + ".log(2)", big + ".ln()", big + ".exp()", big + ".power(2)", "2.power(" + big + ")", big + ".round(2)", "16.log(" + big + ")", big + ".truncate()", "(1 '').toString()", "(1 '') = (1 '')", "(1 '') < (2 '')", "1 '' * 2"} {
		r := lib.Run(src, nil, nil)
		s := src
		if len(s) > 40 {
			s = s[:20] + "..." + s[len(s)-15:]
		}
		fmt.Println(s, "=>", core.Short(r.String(), 160))
	}
}
