package main

import (
	"fmt"

	"github.com/verily-src/fhirpath-go/fhirpath/verifh/lib"
	"github.com/verily-src/fhirpath-go/internal/fhir"
	"google.golang.org/protobuf/proto"
)

func main() {
	res := proto.Clone(lib.GenResource("Account", 0, 2)).(fhir.Resource)
	for _, src := range []string{"'http://example.org/a'", "Account.extension.url.toString()", "Account.extension.url = 'http://example.org/a'", "Account.extension[0].url = 'http://example.org/a'", "Account.extension[0].url.value", "Account.extension.count()"} {
		r := lib.Run(src, []fhir.Resource{res}, nil)
		fmt.Println(src, "=>", r.String())
	}
	_, b, _ := lib.ResourceJSON(res)
	fmt.Println(string(b)[:600])
}
