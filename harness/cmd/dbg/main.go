package main

import (
	"fmt"

	bcrpb "github.com/google/fhir/go/proto/google/fhir/proto/r4/core/resources/bundle_and_contained_resource_go_proto"
	"github.com/verily-src/fhirpath-go/fhirpath/patch"
	"github.com/verily-src/fhirpath-go/fhirpath/verifh/core"
	"github.com/verily-src/fhirpath-go/fhirpath/verifh/lib"
	"github.com/verily-src/fhirpath-go/internal/fhir"
)

func main() {
	b := &bcrpb.Bundle{Entry: []*bcrpb.Bundle_Entry{{Resource: &bcrpb.ContainedResource{}}, {}}}
	for _, src := range []string{"Bundle.entry.resource", "Bundle.entry.resource.id", "Bundle.descendants()", "Bundle.entry.resource is Patient", "Bundle.entry.children()"} {
		r := lib.Run(src, []fhir.Resource{b}, nil)
		fmt.Println(src, "=>", core.Short(r.String(), 200))
	}
	pi := core.Try(func() { fmt.Println(patch.Delete(b, "Bundle.entry[0].resource.id")) })
	fmt.Println("patch:", pi)
}
