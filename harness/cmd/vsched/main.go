//go:build verif

// vsched: schedule explorer of C04 (built against the instrumented tree only).
//
//	vsched <scenario> quick|thorough      prints a JSON result
package main

import (
	"encoding/json"
	"fmt"
	"os"

	"github.com/verily-src/fhirpath-go/fhirpath/verifh/sched/explore"
	"github.com/verily-src/fhirpath-go/fhirpath/verifh/sched/scen"
)

func main() {
	if len(os.Args) < 3 {
		fmt.Fprintln(os.Stderr, "usage: vsched <scenario> quick|thorough")
		os.Exit(2)
	}
	sc := scen.ByName(os.Args[1])
	if sc == nil {
		fmt.Fprintln(os.Stderr, "unknown scenario", os.Args[1])
		os.Exit(2)
	}
	bound, maxExec := 2, int64(130000)
	if os.Args[2] == "thorough" {
		bound, maxExec = 3, 3000000
	}
	res := explore.Explore(sc, bound, maxExec)
	b, _ := json.Marshal(res)
	fmt.Println(string(b))
}
