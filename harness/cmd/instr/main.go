// instr copies a fhirpath-go tree and inserts scheduling points for the C04
// schedule explorer: verifsched.Point at the entry of every function and
// function literal and at the top of every loop body, verifsched.Access
// before every statement that mentions a package-level variable of its own
// package (tagged read / write). Only the standard library is used.
//
//	instr <source tree> <destination tree>
//
// The shim package internal/verifsched and the site table are generated into
// the destination; nothing is written to the source tree.
package main

import (
	"bytes"
	"fmt"
	"go/ast"
	"go/parser"
	"go/printer"
	"go/token"
	"os"
	"path/filepath"
	"sort"
	"strconv"
	"strings"
)

const shimImport = "github.com/verily-src/fhirpath-go/internal/verifsched"

type site struct {
	id    int
	file  string
	line  int
	kind  string // entry | loop | read | write
	what  string // function or variable name
}

var sites []site

func newSite(fset *token.FileSet, rel string, pos token.Pos, kind, what string) int {
	id := len(sites)
	sites = append(sites, site{id, rel, fset.Position(pos).Line, kind, what})
	return id
}

func call(fn string, args ...ast.Expr) ast.Stmt {
	return &ast.ExprStmt{X: &ast.CallExpr{Fun: &ast.SelectorExpr{X: ast.NewIdent("verifsched"), Sel: ast.NewIdent(fn)}, Args: args}}
}

func lit(n int) ast.Expr { return &ast.BasicLit{Kind: token.INT, Value: strconv.Itoa(n)} }

// rootIdent peels selectors, indexes, stars and parens off an lvalue
func rootIdent(e ast.Expr) *ast.Ident {
	for {
		switch x := e.(type) {
		case *ast.Ident:
			return x
		case *ast.SelectorExpr:
			e = x.X
		case *ast.IndexExpr:
			e = x.X
		case *ast.StarExpr:
			e = x.X
		case *ast.ParenExpr:
			e = x.X
		case *ast.SliceExpr:
			e = x.X
		default:
			return nil
		}
	}
}

type instrumenter struct {
	fset    *token.FileSet
	rel     string
	pkgVars map[string]bool
	used    bool
}

// accessOf classifies a statement: which package variable it mentions and whether it writes it
func (in *instrumenter) accessOf(s ast.Stmt) (name string, write, found bool) {
	switch st := s.(type) {
	case *ast.AssignStmt:
		for _, l := range st.Lhs {
			if id := rootIdent(l); id != nil && in.pkgVars[id.Name] && st.Tok != token.DEFINE {
				return id.Name, true, true
			}
		}
	case *ast.IncDecStmt:
		if id := rootIdent(st.X); id != nil && in.pkgVars[id.Name] {
			return id.Name, true, true
		}
	case *ast.ExprStmt:
		if c, ok := st.X.(*ast.CallExpr); ok {
			if f, ok := c.Fun.(*ast.Ident); ok && f.Name == "delete" && len(c.Args) > 0 {
				if id := rootIdent(c.Args[0]); id != nil && in.pkgVars[id.Name] {
					return id.Name, true, true
				}
			}
		}
	}
	// any mention = read; nested blocks are handled when their own statements are visited
	var hit string
	ast.Inspect(s, func(n ast.Node) bool {
		switch x := n.(type) {
		case *ast.BlockStmt, *ast.FuncLit:
			return false
		case *ast.Ident:
			if hit == "" && in.pkgVars[x.Name] && x.Obj == nil {
				hit = x.Name
			}
		}
		return true
	})
	if hit != "" {
		return hit, false, true
	}
	return "", false, false
}

func (in *instrumenter) block(b *ast.BlockStmt, first ast.Stmt) {
	if b == nil {
		return
	}
	var out []ast.Stmt
	if first != nil {
		out = append(out, first)
	}
	for _, s := range b.List {
		if name, write, ok := in.accessOf(s); ok {
			kind := "read"
			if write {
				kind = "write"
			}
			id := newSite(in.fset, in.rel, s.Pos(), kind, name)
			w := "false"
			if write {
				w = "true"
			}
			out = append(out, call("Access", lit(id), ast.NewIdent(w)))
			in.used = true
		}
		in.stmt(s)
		out = append(out, s)
	}
	b.List = out
}

func (in *instrumenter) stmt(s ast.Stmt) {
	switch st := s.(type) {
	case *ast.BlockStmt:
		in.block(st, nil)
	case *ast.IfStmt:
		in.exprs(st.Init, st.Cond)
		in.block(st.Body, nil)
		if st.Else != nil {
			in.stmt(st.Else)
		}
	case *ast.ForStmt:
		in.exprs(st.Init, st.Cond, st.Post)
		in.used = true
		in.block(st.Body, call("Point", lit(newSite(in.fset, in.rel, st.Pos(), "loop", "for"))))
	case *ast.RangeStmt:
		in.exprs(st.X)
		in.used = true
		in.block(st.Body, call("Point", lit(newSite(in.fset, in.rel, st.Pos(), "loop", "range"))))
	case *ast.SwitchStmt:
		in.exprs(st.Init, st.Tag)
		for _, c := range st.Body.List {
			cc := c.(*ast.CaseClause)
			b := &ast.BlockStmt{List: cc.Body}
			in.block(b, nil)
			cc.Body = b.List
		}
	case *ast.TypeSwitchStmt:
		for _, c := range st.Body.List {
			cc := c.(*ast.CaseClause)
			b := &ast.BlockStmt{List: cc.Body}
			in.block(b, nil)
			cc.Body = b.List
		}
	case *ast.SelectStmt:
		for _, c := range st.Body.List {
			cc := c.(*ast.CommClause)
			b := &ast.BlockStmt{List: cc.Body}
			in.block(b, nil)
			cc.Body = b.List
		}
	case *ast.LabeledStmt:
		in.stmt(st.Stmt)
	default:
		in.exprs(s)
	}
}

// exprs instruments the function literals inside nodes
func (in *instrumenter) exprs(nodes ...ast.Node) {
	for _, n := range nodes {
		if n == nil || (fmt.Sprintf("%v", n) == "<nil>") {
			continue
		}
		ast.Inspect(n, func(x ast.Node) bool {
			if fl, ok := x.(*ast.FuncLit); ok {
				in.used = true
				in.block(fl.Body, call("Point", lit(newSite(in.fset, in.rel, fl.Pos(), "entry", "func literal"))))
				return false
			}
			return true
		})
	}
}

func instrumentFile(src, dst, rel string, pkgVars map[string]bool) error {
	fset := token.NewFileSet()
	f, err := parser.ParseFile(fset, src, nil, parser.ParseComments)
	if err != nil {
		return err
	}
	in := &instrumenter{fset: fset, rel: rel, pkgVars: pkgVars}
	for _, d := range f.Decls {
		switch fd := d.(type) {
		case *ast.FuncDecl:
			if fd.Body == nil {
				continue
			}
			name := fd.Name.Name
			if fd.Recv != nil && len(fd.Recv.List) > 0 {
				var b bytes.Buffer
				printer.Fprint(&b, fset, fd.Recv.List[0].Type)
				name = b.String() + "." + name
			}
			in.used = true
			in.block(fd.Body, call("Point", lit(newSite(fset, rel, fd.Pos(), "entry", name))))
		case *ast.GenDecl:
			if fd.Tok == token.VAR {
				for _, sp := range fd.Specs {
					for _, v := range sp.(*ast.ValueSpec).Values {
						in.exprs(v)
					}
				}
			}
		}
	}
	if in.used {
		spec := &ast.ImportSpec{Path: &ast.BasicLit{Kind: token.STRING, Value: strconv.Quote(shimImport)}}
		added := false
		for _, d := range f.Decls {
			if gd, ok := d.(*ast.GenDecl); ok && gd.Tok == token.IMPORT {
				gd.Specs = append(gd.Specs, spec)
				if len(gd.Specs) > 1 && !gd.Lparen.IsValid() {
					gd.Lparen = gd.Pos()
				}
				added = true
				break
			}
		}
		if !added {
			f.Decls = append([]ast.Decl{&ast.GenDecl{Tok: token.IMPORT, Specs: []ast.Spec{spec}}}, f.Decls...)
		}
		f.Imports = append(f.Imports, spec)
	}
	var out bytes.Buffer
	// comments are dropped from instrumented files: inserted statements have no positions and the
	// printer would otherwise interleave free-floating comments wrongly; build tags are re-added
	f.Comments = nil
	if err := (&printer.Config{Mode: printer.UseSpaces | printer.TabIndent, Tabwidth: 8}).Fprint(&out, fset, f); err != nil {
		return err
	}
	return os.WriteFile(dst, out.Bytes(), 0o644)
}

func collectPkgVars(dir string) map[string]bool {
	vars := map[string]bool{}
	ents, _ := os.ReadDir(dir)
	for _, e := range ents {
		if e.IsDir() || !strings.HasSuffix(e.Name(), ".go") || strings.HasSuffix(e.Name(), "_test.go") {
			continue
		}
		fset := token.NewFileSet()
		f, err := parser.ParseFile(fset, filepath.Join(dir, e.Name()), nil, 0)
		if err != nil {
			continue
		}
		for _, d := range f.Decls {
			if gd, ok := d.(*ast.GenDecl); ok && gd.Tok == token.VAR {
				for _, sp := range gd.Specs {
					for _, n := range sp.(*ast.ValueSpec).Names {
						if n.Name != "_" {
							vars[n.Name] = true
						}
					}
				}
			}
		}
	}
	return vars
}

func main() {
	if len(os.Args) != 3 {
		fmt.Fprintln(os.Stderr, "usage: instr <src tree> <dst tree>")
		os.Exit(2)
	}
	src, dst := os.Args[1], os.Args[2]
	skipInstr := func(rel string) bool {
		return strings.HasPrefix(rel, "fhirpath/internal/grammar/") || strings.HasPrefix(rel, "internal/fhirtest/") || strings.HasPrefix(rel, "internal/stablerand/") ||
			strings.HasPrefix(rel, "fhirpath/fhirpathtest/") || strings.HasPrefix(rel, "fhirpath/internal/expr/exprtest/") || strings.HasPrefix(rel, "internal/protofields/dummies")
	}
	pkgVarCache := map[string]map[string]bool{}
	nfiles := 0
	err := filepath.Walk(src, func(p string, info os.FileInfo, err error) error {
		if err != nil {
			return err
		}
		rel, _ := filepath.Rel(src, p)
		if rel == ".git" || strings.HasPrefix(rel, ".git/") {
			if info.IsDir() {
				return filepath.SkipDir
			}
			return nil
		}
		out := filepath.Join(dst, rel)
		if info.IsDir() {
			return os.MkdirAll(out, 0o755)
		}
		isGo := strings.HasSuffix(rel, ".go")
		if strings.HasSuffix(rel, "_test.go") {
			return nil // tests are not part of the instrumented build
		}
		if isGo && (strings.HasPrefix(rel, "fhirpath/") || strings.HasPrefix(rel, "internal/")) && !skipInstr(rel) {
			dir := filepath.Dir(p)
			if pkgVarCache[dir] == nil {
				pkgVarCache[dir] = collectPkgVars(dir)
			}
			nfiles++
			return instrumentFile(p, out, rel, pkgVarCache[dir])
		}
		b, err := os.ReadFile(p)
		if err != nil {
			return err
		}
		return os.WriteFile(out, b, 0o644)
	})
	if err != nil {
		fmt.Fprintln(os.Stderr, "instr:", err)
		os.Exit(1)
	}
	// the shim and the site table
	shimDir := filepath.Join(dst, "internal", "verifsched")
	os.MkdirAll(shimDir, 0o755)
	shim := `// Code generated by /verif/harness/cmd/instr. DO NOT EDIT.

// Package verifsched is the scheduling-point shim of the C04 schedule explorer.
// Outside an exploration both calls are a nil check.
package verifsched

// Hooks receives the scheduling points of the instrumented tree.
type Hooks interface {
	Point(site int)
	Access(site int, write bool)
}

var hook Hooks

// SetHook installs (or, with nil, removes) the explorer. Only called while no instrumented code runs.
func SetHook(h Hooks) { hook = h }

func Point(site int) {
	if h := hook; h != nil {
		h.Point(site)
	}
}

func Access(site int, write bool) {
	if h := hook; h != nil {
		h.Access(site, write)
	}
}

// Site describes one instrumented location.
type Site struct {
	File string
	Line int
	Kind string // entry | loop | read | write
	What string
}
`
	os.WriteFile(filepath.Join(shimDir, "sched.go"), []byte(shim), 0o644)
	var sb strings.Builder
	sb.WriteString("// Code generated by /verif/harness/cmd/instr. DO NOT EDIT.\n\npackage verifsched\n\n// Sites is indexed by site id.\nvar Sites = []Site{\n")
	sort.Slice(sites, func(i, j int) bool { return sites[i].id < sites[j].id })
	for _, s := range sites {
		fmt.Fprintf(&sb, "\t{%q, %d, %q, %q},\n", s.file, s.line, s.kind, s.what)
	}
	sb.WriteString("}\n")
	os.WriteFile(filepath.Join(shimDir, "sites_gen.go"), []byte(sb.String()), 0o644)
	fmt.Printf("instrumented %d files, %d sites\n", nfiles, len(sites))
}
