// vrace: free-running pass of the C04 scenario bodies under the Go race
// detector (built with -race against the plain tree). A SAMPLE of OS
// schedules: it can add violations, it never decides the property.
//
//	vrace quick|thorough     driver: re-executes itself as worker per GOMAXPROCS, prints a JSON result
//	vrace work <iters>       worker: runs the bodies concurrently; the race detector reports on stderr
package main

import (
	"encoding/json"
	"fmt"
	"os"
	"os/exec"
	"strconv"
	"strings"
	"sync"

	"github.com/verily-src/fhirpath-go/fhirpath/verifh/sched/scen"
)

type finding struct {
	Key     string         `json:"key"`
	Witness map[string]any `json:"witness"`
}

func work(iters int) int {
	bad := 0
	for _, sc := range scen.All() {
		// isolated observations
		n := len(sc.Setup().Threads)
		isolated := make([]string, n)
		for t := 0; t < n; t++ {
			isolated[t] = sc.Setup().Threads[t]()
		}
		inst := sc.Setup()
		var wg sync.WaitGroup
		var mu sync.Mutex
		start := make(chan struct{})
		const copies = 16 // goroutines per thread body
		for t := 0; t < n; t++ {
			for c := 0; c < copies; c++ {
				wg.Add(1)
				go func(t int) {
					defer wg.Done()
					<-start
					for i := 0; i < iters; i++ {
						if got := inst.Threads[t](); got != isolated[t] {
							mu.Lock()
							if bad < 5 {
								fmt.Printf("MISMATCH scenario=%s thread=%d got=%q isolated=%q\n", sc.Name, t, got, isolated[t])
							}
							bad++
							mu.Unlock()
						}
					}
				}(t)
			}
		}
		close(start)
		wg.Wait()
		if d := inst.Intact(); d != "" {
			fmt.Printf("MISMATCH scenario=%s %s\n", sc.Name, d)
			bad++
		}
		fmt.Printf("RAN scenario=%s goroutines=%d iterations=%d\n", sc.Name, n*copies, iters)
	}
	return bad
}

func main() {
	if len(os.Args) >= 3 && os.Args[1] == "work" {
		iters, _ := strconv.Atoi(os.Args[2])
		if work(iters) > 0 {
			os.Exit(3)
		}
		return
	}
	iters := 20
	if len(os.Args) >= 2 && os.Args[1] == "thorough" {
		iters = 200
	}
	self, _ := os.Executable()
	var findings []finding
	var runs int64
	for _, procs := range []string{"1", "4", "16"} {
		cmd := exec.Command(self, "work", strconv.Itoa(iters))
		cmd.Env = append(os.Environ(), "GOMAXPROCS="+procs, "GORACE=halt_on_error=0 exitcode=66")
		var stderr, stdout strings.Builder
		cmd.Stderr, cmd.Stdout = &stderr, &stdout
		err := cmd.Run()
		for _, l := range strings.Split(stdout.String(), "\n") {
			if strings.HasPrefix(l, "RAN ") {
				runs += int64(iters) * 32
			}
			if strings.HasPrefix(l, "MISMATCH ") {
				findings = append(findings, finding{"observation-differs-from-isolated-under-free-running-goroutines", map[string]any{"GOMAXPROCS": procs, "line": l}})
			}
		}
		if strings.Contains(stderr.String(), "WARNING: DATA RACE") {
			// the first report, with the repository frames only
			rep := stderr.String()
			if i := strings.Index(rep, "WARNING: DATA RACE"); i >= 0 {
				rep = rep[i:]
			}
			if len(rep) > 2500 {
				rep = rep[:2500]
			}
			loc := "?"
			for _, l := range strings.Split(rep, "\n") {
				if strings.Contains(l, "github.com/verily-src/fhirpath-go/") && !strings.Contains(l, "/verifh/") {
					loc = strings.TrimSpace(l)
					if j := strings.Index(loc, "("); j > 0 {
						loc = loc[:j]
					}
					break
				}
			}
			findings = append(findings, finding{"data-race|" + strings.TrimPrefix(loc, "github.com/verily-src/fhirpath-go/"), map[string]any{"GOMAXPROCS": procs, "report": rep}})
		} else if err != nil && !strings.Contains(stdout.String(), "MISMATCH") {
			findings = append(findings, finding{"race-worker-failed", map[string]any{"GOMAXPROCS": procs, "err": err.Error(), "stderr": stderr.String()[:min(2000, len(stderr.String()))]}})
		}
	}
	// de-duplicate by key
	seen := map[string]bool{}
	var out []finding
	for _, f := range findings {
		if !seen[f.Key] {
			seen[f.Key] = true
			out = append(out, f)
		}
	}
	b, _ := json.Marshal(map[string]any{"scenario": "race-pass", "executions": runs, "findings": out, "exhaustive": true,
		"note": fmt.Sprintf("free-running -race pass: %d scenarios x 16 goroutines per thread body x %d iterations x GOMAXPROCS {1,4,16}; a sample of OS schedules", len(scen.All()), iters)})
	fmt.Println(string(b))
}
