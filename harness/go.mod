module github.com/verily-src/fhirpath-go/fhirpath/verifh

go 1.22.2

require (
	github.com/google/fhir/go v0.7.4
	github.com/verily-src/fhirpath-go v0.0.0
	golang.org/x/exp v0.0.0-20240416160154-fe59bbe5cc7f
	google.golang.org/protobuf v1.34.1
)

require (
	bitbucket.org/creachadair/stringset v0.0.9 // indirect
	github.com/antlr4-go/antlr/v4 v4.13.0 // indirect
	github.com/golang/protobuf v1.5.4 // indirect
	github.com/google/uuid v1.6.0 // indirect
	github.com/iancoleman/strcase v0.3.0 // indirect
	github.com/json-iterator/go v1.1.10 // indirect
	github.com/modern-go/concurrent v0.0.0-20180306012644-bacd9c7ef1dd // indirect
	github.com/modern-go/reflect2 v1.0.1 // indirect
	github.com/pkg/errors v0.9.1 // indirect
	github.com/serenize/snaker v0.0.0-20201027110005-a7ad2135616e // indirect
	github.com/shopspring/decimal v1.4.0
)

replace github.com/verily-src/fhirpath-go => /repo
