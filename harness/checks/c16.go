package checks

import (
	"fmt"
	"github.com/verily-src/fhirpath-go/fhirpath/system"
	"github.com/verily-src/fhirpath-go/fhirpath/verifh/ftab"
	"sort"
	"strings"
	"unicode"

	"github.com/verily-src/fhirpath-go/fhirpath"
	"github.com/verily-src/fhirpath-go/fhirpath/compopts"
	"github.com/verily-src/fhirpath-go/fhirpath/patch"
	"github.com/verily-src/fhirpath-go/fhirpath/verifh/core"
	"github.com/verily-src/fhirpath-go/fhirpath/verifh/lib"
	"github.com/verily-src/fhirpath-go/internal/fhir"
)

// specSig is the FHIRPath N1 signature table, written from the specification
// (https://hl7.org/fhirpath/N1/), independent of the repository's table.
type specSig struct {
	min, max int
	recv     string   // a suitable receiver expression
	args     []string // well-typed arguments up to max arity
}

var n1 = map[string]specSig{
	"empty": {0, 0, "Patient.name", nil}, "exists": {0, 1, "Patient.name", []string{"use = 'official'"}},
	"all": {1, 1, "Patient.name", []string{"use.exists()"}}, "allTrue": {0, 0, "(true)", nil}, "anyTrue": {0, 0, "(true)", nil},
	"allFalse": {0, 0, "(false)", nil}, "anyFalse": {0, 0, "(false)", nil},
	"subsetOf": {1, 1, "Patient.name.given", []string{"%context.name.given"}}, "supersetOf": {1, 1, "Patient.name.given", []string{"%context.name.given"}},
	"count": {0, 0, "Patient.name", nil}, "distinct": {0, 0, "Patient.name.given", nil}, "isDistinct": {0, 0, "Patient.name.given", nil},
	"where": {1, 1, "Patient.name", []string{"use = 'official'"}}, "select": {1, 1, "Patient.name", []string{"given"}},
	"repeat": {1, 1, "Patient.name", []string{"given"}}, "ofType": {1, 1, "Patient.name", []string{"HumanName"}},
	"single": {0, 0, "Patient.gender", nil}, "first": {0, 0, "Patient.name", nil}, "last": {0, 0, "Patient.name", nil}, "tail": {0, 0, "Patient.name", nil},
	"skip": {1, 1, "Patient.name", []string{"1"}}, "take": {1, 1, "Patient.name", []string{"1"}},
	"intersect": {1, 1, "Patient.name.given", []string{"'Ann'"}}, "exclude": {1, 1, "Patient.name.given", []string{"'Ann'"}},
	"union": {1, 1, "Patient.name.given", []string{"'Ann'"}}, "combine": {1, 1, "Patient.name.given", []string{"'Ann'"}},
	"iif":       {2, 3, "Patient", []string{"true", "1", "2"}},
	"toBoolean": {0, 0, "'true'", nil}, "convertsToBoolean": {0, 0, "'true'", nil}, "toInteger": {0, 0, "'1'", nil}, "convertsToInteger": {0, 0, "'1'", nil},
	"toDate": {0, 0, "'2020-01-01'", nil}, "convertsToDate": {0, 0, "'2020-01-01'", nil}, "toDateTime": {0, 0, "'2020-01-01T10:00:00Z'", nil}, "convertsToDateTime": {0, 0, "'2020-01-01T10:00:00Z'", nil},
	"toDecimal": {0, 0, "'1.5'", nil}, "convertsToDecimal": {0, 0, "'1.5'", nil},
	"toQuantity": {0, 1, "5", []string{"'mg'"}}, "convertsToQuantity": {0, 1, "5", []string{"'mg'"}},
	"toString": {0, 0, "1", nil}, "convertsToString": {0, 0, "1", nil}, "toTime": {0, 0, "'10:00:00'", nil}, "convertsToTime": {0, 0, "'10:00:00'", nil},
	"indexOf": {1, 1, "'abcdef'", []string{"'cd'"}}, "substring": {1, 2, "'abcdef'", []string{"1", "2"}}, "startsWith": {1, 1, "'abcdef'", []string{"'ab'"}},
	"endsWith": {1, 1, "'abcdef'", []string{"'ef'"}}, "contains": {1, 1, "'abcdef'", []string{"'cd'"}}, "upper": {0, 0, "'abc'", nil}, "lower": {0, 0, "'ABC'", nil},
	"replace": {2, 2, "'abcdef'", []string{"'cd'", "'x'"}}, "matches": {1, 1, "'abcdef'", []string{"'a.c'"}}, "replaceMatches": {2, 2, "'abcdef'", []string{"'a.c'", "'x'"}},
	"length": {0, 0, "'abc'", nil}, "toChars": {0, 0, "'abc'", nil},
	"abs": {0, 0, "(-5)", nil}, "ceiling": {0, 0, "1.5", nil}, "exp": {0, 0, "1.0", nil}, "floor": {0, 0, "1.5", nil}, "ln": {0, 0, "2.0", nil},
	"log": {1, 1, "8.0", []string{"2.0"}}, "power": {1, 1, "2", []string{"3"}}, "round": {0, 1, "1.567", []string{"2"}}, "sqrt": {0, 0, "4.0", nil}, "truncate": {0, 0, "1.5", nil},
	"children": {0, 0, "Patient.name", nil}, "descendants": {0, 0, "Patient.name", nil},
	"trace": {1, 2, "Patient.name", []string{"'t'", "given"}}, "now": {0, 0, "Patient", nil}, "timeOfDay": {0, 0, "Patient", nil}, "today": {0, 0, "Patient", nil},
	"not": {0, 0, "(true)", nil},
}

// documented extensions to N1 that the repository may register.
var documentedExt = map[string]specSig{
	"extension": {1, 1, "Patient", []string{"'http://u'"}}, // FHIR R4 additional function
	"join":      {0, 1, "Patient.name.given", []string{"','"}},
}

func upperFirst(s string) string {
	r := []rune(s)
	r[0] = unicode.ToUpper(r[0])
	return string(r)
}

func callSrc(recv, name string, args []string) string {
	return recv + "." + name + "(" + strings.Join(args, ", ") + ")"
}

func fillArgs(sig specSig, n int) []string {
	var a []string
	for i := 0; i < n; i++ {
		if i < len(sig.args) {
			a = append(a, sig.args[i])
		} else {
			a = append(a, "1")
		}
	}
	return a
}

// snapshot of the default function table taken at process start, before any Compile call
var c16BaseKeys = func() map[string]bool {
	m := map[string]bool{}
	for k := range ftab.Table(false) {
		m[k] = true
	}
	return m
}()
var c16BaseSnapshot = tableSnapshot(ftab.Table(false))

func tableSnapshot(t map[string]ftab.Entry) string { return ftab.Snapshot(t) }

func init() {
	type cfg struct {
		name  string
		copts func() []fhirpath.CompileOption
		table func() map[string]ftab.Entry
	}
	cfgs := []cfg{
		{"default", func() []fhirpath.CompileOption { return nil }, func() map[string]ftab.Entry { return ftab.Table(false) }},
		{"experimental", func() []fhirpath.CompileOption { return []fhirpath.CompileOption{compopts.WithExperimentalFuncs()} },
			func() map[string]ftab.Entry { return ftab.Table(true) }},
		// Permissive relaxes element names, not function names: the table is the default one
		{"permissive", func() []fhirpath.CompileOption { return []fhirpath.CompileOption{compopts.Permissive()} }, func() map[string]ftab.Entry { return ftab.Table(false) }},
	}
	names := func() []string {
		set := map[string]bool{}
		for k := range n1 {
			set[k] = true
		}
		for k := range documentedExt {
			set[k] = true
		}
		for k := range ftab.Table(true) {
			set[k] = true
		}
		// near-miss spellings that must not resolve
		for _, k := range []string{"Where", "toquantity", "convertToDateTime", "is", "as", "nosuch",
			// other casings and separators of real names: no configuration folds them onto the table's spelling
			"Exists", "EXISTS", "Iif", "ToString", "to_string", "all_true", "AllTrue", "Count", "first_", "starts_with", "StartsWith", "to-string", "Empty", "Not", "children_"} {
			set[k] = true
		}
		var out []string
		for k := range set {
			out = append(out, k)
		}
		sort.Strings(out)
		return out
	}
	const placeholder = ftab.Placeholder

	core.Register(&core.Check{
		ID:          "C16",
		Rule:        "complete enumeration: every name of (FHIRPath N1 list U repo base+experimental tables U near-miss spellings) x argument count 0..4 x {default, WithExperimentalFuncs} x {fhirpath.Compile, patch.Compile}; every call is also compiled in 8 syntactic positions (operands, indexer, argument, criterion; same acceptance) and with each argument replaced by a nested call that takes arguments (same acceptance, same result); accepted calls are evaluated with specification-typed arguments again on 17 receivers of every System type and element kind, and with the empty collection as receiver and in each argument position (no arity complaint); a not-implemented function must fail explicitly also as operand of every operator kind, as receiver, argument and criterion (16 contexts); binding of every table key is read with runtime.FuncForPC; a case is non-trivial when its (name, arity, config, compiler, outcome) is distinct",
		Assumptions: []string{"the N1 signature table in checks/c16.go was transcribed from the specification", "documented extensions: extension() (FHIR R4), join() (experimental)"},
		Subs: func(tier string) []core.Sub {
			ns := names()
			return []core.Sub{
				{Name: "accept", N: len(ns), Note: "name x arity 0..4 x 2 configs x 2 compilers", Run: func(i int, r *core.Rec) {
					name := ns[i]
					sig, inSpec := n1[name]
					if !inSpec {
						sig, inSpec = documentedExt[name]
					}
					if sig.recv == "" {
						sig.recv = "Patient.name"
					}
					for _, c := range cfgs {
						tbl := c.table()
						fn, inTable := tbl[name]
						implemented := inTable && fn.Impl != placeholder
						for n := 0; n <= 4; n++ {
							src := callSrc(sig.recv, name, fillArgs(sig, n))
							res := lib.Compile(src, c.copts()...)
							r.Eval()
							var perr error
							ppi := core.Try(func() { _, perr = patch.Compile(src, c.copts()...) })
							r.Eval()
							accepted := res.CompileErr == nil && res.Panic == nil
							r.State(fmt.Sprintf("inTable=%v|inSpec=%v|impl=%v|arity=%d|%s", inTable, inSpec, implemented, n, c.name))
							r.Outcome(fmt.Sprintf("%s|%d|%v", name, n, accepted))
							r.Nontrivial(name, fmt.Sprint(n), c.name, fmt.Sprint(accepted))
							if r.WantSample() {
								r.Sample(core.W{"src": src, "config": c.name, "accepted": accepted})
							}
							if res.Panic != nil {
								r.Fail("compile-panic|"+name+"|"+res.Panic.Key(), core.W{"src": src, "panic": res.Panic.Raw})
								continue
							}
							if ppi != nil {
								r.Fail("patch-compile-panic|"+name+"|"+ppi.Key(), core.W{"src": src, "panic": ppi.Raw})
							} else if (perr == nil) != accepted {
								r.Fail(fmt.Sprintf("compilers-disagree|%s|arity=%d", name, n), core.W{"src": src, "fhirpath.Compile": res.String(), "patch.Compile": fmt.Sprint(perr)})
							}
							// (a) internal consistency of visitor and table
							wantTbl := inTable && n >= fn.Min && n <= fn.Max
							if accepted != wantTbl {
								r.Fail(fmt.Sprintf("table-consistency|%s|arity=%d|accepted=%v", name, n, accepted), core.W{"src": src, "config": c.name, "table_min": fn.Min, "table_max": fn.Max, "in_table": inTable, "got": res.String()})
							}
							// (b) against the specification signature
							if inSpec && implemented {
								wantSpec := n >= sig.min && n <= sig.max
								if accepted != wantSpec {
									r.Fail(fmt.Sprintf("spec-arity|%s|arity=%d|accepted=%v|spec=%d..%d", name, n, accepted, sig.min, sig.max), core.W{"src": src, "config": c.name, "got": res.String()})
								}
							}
							if !inTable && accepted {
								r.Fail("accepted-unknown-name|"+name, core.W{"src": src})
							}
							// ... and not on where the call stands: right operand, indexer, argument of another call
							for _, pos := range []struct{ name, pre, post string }{
								{"right-operand-of-=", "1 = ", ""}, {"right-operand-of-&", "'x' & ", ""}, {"right-operand-of-and", "true and ", ".exists()"}, {"left-operand", "", " = 1"},
								{"indexer", "Patient.name[(", ").count()]"}, {"argument", "iif(true, ", ", 1)"}, {"criterion", "Patient.where((", ").exists())"}, {"parenthesised", "(", ")"},
								// acceptance of a call does not depend on how many calls the expression already holds
								{"after-20-sibling-calls", strings.Repeat("'a'.substring(0).length() + ", 20), ""}, {"after-a-chain-of-20-calls", "'abcdefghijklmnopqrstuvwxyz'" + strings.Repeat(".substring(0)", 20) + ".length() + ", ""},
								{"inside-20-nested-calls", strings.Repeat("iif(true, ", 20), strings.Repeat(", 0)", 20)},
							} {
								inner := src
								if pos.name == "criterion" || pos.name == "argument" {
									inner = strings.Replace(src, "Patient.", "%context.", 1)
								}
								src4 := pos.pre + inner + pos.post
								res4 := lib.Compile(src4, c.copts()...)
								r.Eval()
								r.State("position|" + pos.name)
								r.Nontrivial(src4, c.name, res4.Class())
								if res4.Panic != nil {
									r.Fail("call-position|"+pos.name+"|"+res4.Panic.Key(), core.W{"src": src4})
									continue
								}
								if (res4.CompileErr == nil) != accepted {
									r.Fail(fmt.Sprintf("call-position|%s|acceptance-differs-from-plain-call|%s|arity=%d|plain=%v", pos.name, name, n, accepted), core.W{"plain": src, "plain_outcome": res.String(), "embedded": src4, "embedded_outcome": res4.String(), "config": c.name})
								}
							}
							// acceptance depends on the argument COUNT only: the same call with one argument replaced by a
							// nested call that itself takes arguments (iif(true, a, a) = a) is accepted exactly when the plain call is
							for pos := 0; pos < n; pos++ {
								args2 := fillArgs(sig, n)
								args2[pos] = "iif(true, " + args2[pos] + ", " + args2[pos] + ")"
								src2 := callSrc(sig.recv, name, args2)
								res2 := lib.Compile(src2, c.copts()...)
								r.Eval()
								r.State(fmt.Sprintf("nested-arg|%d|arity=%d", pos, n))
								r.Nontrivial(src2, c.name, res2.Class())
								if res2.Panic != nil {
									r.Fail("nested-argument|"+name+"|"+res2.Panic.Key(), core.W{"src": src2})
									continue
								}
								acc2 := res2.CompileErr == nil
								if acc2 != accepted {
									r.Fail(fmt.Sprintf("nested-argument|acceptance-differs-from-plain-call|%s|arity=%d|plain=%v", name, n, accepted), core.W{"plain": src, "plain_outcome": res.String(), "nested": src2, "nested_outcome": res2.String(), "config": c.name})
									continue
								}
								if accepted && implemented {
									e1 := lib.EvalOpts(res, []fhir.Resource{lib.Patient()}, lib.EnvOpts(nil)...)
									e2 := lib.EvalOpts(res2, []fhir.Resource{lib.Patient()}, lib.EnvOpts(nil)...)
									r.Eval()
									if e1.Panic == nil && e2.Panic == nil && (e1.Err == nil) == (e2.Err == nil) && e1.Err == nil && e1.String() != e2.String() {
										r.Fail(fmt.Sprintf("nested-argument|result-differs-from-plain-call|%s|arity=%d", name, n), core.W{"plain": src, "plain_result": core.Short(e1.String(), 200), "nested": src2, "nested_result": core.Short(e2.String(), 200)})
									} else if (e1.Err == nil) != (e2.Err == nil) {
										r.Fail(fmt.Sprintf("nested-argument|error-differs-from-plain-call|%s|arity=%d", name, n), core.W{"plain": src, "plain_result": core.Short(e1.String(), 200), "nested": src2, "nested_result": core.Short(e2.String(), 200)})
									}
								}
							}
							if !accepted {
								continue
							}
							// (c) evaluation of an accepted, well-typed call never complains about arity
							ev := lib.EvalOpts(res, []fhir.Resource{lib.Patient()}, lib.EnvOpts(nil)...)
							r.Eval()
							r.Outcome(name + "|eval|" + ev.Class())
							if ev.Panic != nil {
								r.Fail("eval-panic|"+name+"|"+ev.Panic.Key(), core.W{"src": src, "panic": ev.Panic.Raw})
							} else if ev.Err != nil && (ftab.IsArityError(ev.Err) || strings.Contains(strings.ToLower(ev.Err.Error()), "arity") || strings.Contains(ev.Err.Error(), "arguments, expected")) {
								if inSpec && n >= sig.min && n <= sig.max || !inSpec {
									r.Fail(fmt.Sprintf("arity-complaint-at-eval|%s|arity=%d", name, n), core.W{"src": src, "config": c.name, "err": ev.Err.Error()})
								}
							}
							// the same accepted call on receivers of every System type and on elements: whatever else
							// happens (a type error, empty), the argument count is accepted, so no arity complaint
							if implemented {
								for _, recv3 := range []string{"true", "false", "1", "0", "1.5", "'a'", "'1'", "@2020", "@2020-01-01T10:00:00Z", "@T10:00", "(1 'mg')", "(1 '1')", "Patient.active", "Patient.birthDate", "Patient.name.first()", "Patient.multipleBirth", "Patient"} {
									src3 := callSrc(recv3, name, fillArgs(sig, n))
									ev3 := lib.Run(src3, []fhir.Resource{lib.Patient()}, nil, c.copts()...)
									r.Eval()
									r.State(fmt.Sprintf("receiver-kind|arity=%d", n))
									r.Nontrivial(src3, c.name, ev3.Class())
									if ev3.CompileErr != nil || ev3.Panic != nil {
										continue
									}
									if ev3.Err != nil && (ftab.IsArityError(ev3.Err) || strings.Contains(strings.ToLower(ev3.Err.Error()), "arity") || strings.Contains(ev3.Err.Error(), "arguments, expected")) {
										if inSpec && n >= sig.min && n <= sig.max || !inSpec {
											// a multi-item receiver is reported through the same sentinel ("input has length N"): not an argument-count complaint
											if !strings.Contains(ev3.Err.Error(), "input has length") {
												r.Fail(fmt.Sprintf("arity-complaint-at-eval|%s|arity=%d|receiver=%s", name, n, recv3), core.W{"src": src3, "config": c.name, "err": ev3.Err.Error()})
											}
										}
									}
								}
							}
							// the same accepted call with the empty collection as receiver or in one argument
							// position has the same argument count: no arity complaint either
							if implemented {
								args := fillArgs(sig, n)
								for pos := -1; pos < n; pos++ {
									recv2, args2 := sig.recv, append([]string{}, args...)
									if pos < 0 {
										recv2 = "{}"
									} else {
										args2[pos] = "{}"
									}
									src2 := callSrc(recv2, name, args2)
									ev2 := lib.Run(src2, []fhir.Resource{lib.Patient()}, nil, c.copts()...)
									r.Eval()
									r.State(fmt.Sprintf("empty-at|%d|arity=%d", pos, n))
									r.Nontrivial(src2, c.name, ev2.Class())
									if ev2.CompileErr != nil || ev2.Panic != nil {
										continue // acceptance depends on the count only (checked above); panics are C01/C07's subject
									}
									if ev2.Err != nil && (ftab.IsArityError(ev2.Err) || strings.Contains(strings.ToLower(ev2.Err.Error()), "arity") || strings.Contains(ev2.Err.Error(), "arguments, expected")) {
										if inSpec && n >= sig.min && n <= sig.max || !inSpec {
											r.Fail(fmt.Sprintf("arity-complaint-at-eval|%s|arity=%d|empty-at=%d", name, n, pos), core.W{"src": src2, "config": c.name, "err": ev2.Err.Error()})
										}
									}
								}
							}
							// unimplemented placeholder: explicit not-implemented error, never a result
							if inTable && !implemented {
								if ev.Err == nil || !strings.Contains(ev.Err.Error(), "not yet implemented") && !strings.Contains(ev.Err.Error(), "not implemented") {
									r.Fail("unimplemented-returns-result|"+name, core.W{"src": src, "got": ev.String()})
								}
								// ... wherever the call stands: as operand of every operator kind, as receiver, as argument, inside a criterion
								for _, cx := range []struct{ name, pre, post string }{
									{"concat-right", "'x' & ", ""}, {"concat-left", "", " & 'x'"}, {"plus", "1 + ", ""}, {"equals", "", " = 1"}, {"not-equals", "1 != ", ""}, {"less", "", " < 1"},
									{"receiver-exists", "(", ").exists()"}, {"receiver-count", "(", ").count()"}, {"receiver-empty", "(", ").empty()"}, {"indexer", "(", ")[0]"}, {"is", "(", ") is Integer"},
									{"select-arg", "'x'.select(", ")"}, {"where-arg", "Patient.where((", ").exists())"}, {"iif-branch", "iif(true, ", ", 1)"}, {"iif-criterion", "iif((", ").exists(), 1, 2)"}, {"polarity", "-(", ")"},
								} {
									src3 := cx.pre + src + cx.post
									if cx.name == "where-arg" || cx.name == "select-arg" {
										// inside an argument a leading type name is a member step: root the receiver at %context
										src3 = cx.pre + strings.Replace(src, "Patient.", "%context.", 1) + cx.post
									}
									ev3 := lib.Run(src3, []fhir.Resource{lib.Patient()}, nil, c.copts()...)
									r.Eval()
									r.State("unimplemented-in|" + cx.name)
									r.Nontrivial(src3, c.name, ev3.Class())
									if ev3.Panic != nil {
										r.Fail("unimplemented-in-context|"+cx.name+"|"+ev3.Panic.Key(), core.W{"src": src3})
									} else if ev3.CompileErr == nil && (ev3.Err == nil || !strings.Contains(ev3.Err.Error(), "not yet implemented") && !strings.Contains(ev3.Err.Error(), "not implemented")) {
										r.Fail("unimplemented-returns-result|in="+cx.name+"|"+name, core.W{"src": src3, "got": ev3.String()})
									}
								}
							}
						}
					}
				}},
				{Name: "custom-functions", N: 4 * 2, Note: "functions entered into the table by AddFunction with 0..3 declared parameters x argument count 0..4 x 7 call positions x 2 configs: accepted exactly at the declared count, accepted calls evaluate without an arity complaint and reach the function with the arguments", Run: func(i int, r *core.Rec) {
					np, c := i%4, cfgs[i/4]
					var got []string
					rec := func(args ...any) (system.Collection, error) {
						got = append(got, fmt.Sprint(args...))
						return system.Collection{system.Integer(int32(len(args)))}, nil
					}
					var fn any
					switch np {
					case 0:
						fn = func(in system.Collection) (system.Collection, error) { return rec() }
					case 1:
						fn = func(in system.Collection, a system.Integer) (system.Collection, error) { return rec(a) }
					case 2:
						fn = func(in system.Collection, a, b system.Integer) (system.Collection, error) { return rec(a, b) }
					case 3:
						fn = func(in system.Collection, a, b, d system.Integer) (system.Collection, error) { return rec(a, b, d) }
					}
					for argc := 0; argc <= 4; argc++ {
						call := "cf(" + strings.Join([]string{"1", "2", "3", "4"}[:argc], ", ") + ")"
						for _, pos := range []struct{ name, src string }{
							{"alone", call}, {"on-path", "Patient.name." + call}, {"left-operand", call + " = 9"}, {"right-operand", "9 = " + call},
							{"indexer", "Patient.name.given[" + call + "]"}, {"criterion", "Patient.name.where(" + call + " = 9)"}, {"argument", "Patient.name.given.take(" + call + ")"},
						} {
							got = nil
							opts := append(c.copts(), compopts.AddFunction("cf", fn))
							res := lib.Compile(pos.src, opts...)
							r.Eval()
							r.State(fmt.Sprintf("custom|params=%d|argc=%d|%s", np, argc, pos.name))
							r.Nontrivial("custom", c.name, fmt.Sprint(np, argc), pos.name, res.Class())
							w := core.W{"declared_parameters": np, "src": pos.src, "config": c.name, "compile": res.Class()}
							if res.Panic != nil {
								r.Fail("custom-function|"+res.Panic.Key(), w)
								continue
							}
							accepted := res.CompileErr == nil
							if accepted != (argc == np) {
								r.Fail(fmt.Sprintf("custom-function|acceptance|params=%d|argc=%d|%s|accepted=%v", np, argc, pos.name, accepted), w)
							}
							if !accepted {
								continue
							}
							ev := lib.EvalOpts(res, []fhir.Resource{lib.Patient()})
							r.Eval()
							w["evaluate"] = core.Short(ev.String(), 160)
							if ev.Panic != nil {
								r.Fail("custom-function|"+ev.Panic.Key(), w)
							} else if ev.Err != nil && ftab.IsArityError(ev.Err) {
								r.Fail(fmt.Sprintf("custom-function|arity-complaint-at-evaluation|params=%d|argc=%d|%s", np, argc, pos.name), w)
							} else if argc == np && ev.Err == nil && len(got) == 0 {
								r.Fail(fmt.Sprintf("custom-function|never-called|params=%d|%s", np, pos.name), w)
							}
						}
					}
				}},
				{Name: "binding", N: 2, Note: "every table key x config: implementation name, key is a spec name or documented extension; the default table is the same before and after compiling with every option set", Run: func(i int, r *core.Rec) {
					c := cfgs[i]
					// the default table must not depend on the history of Compile calls: compile with every
					// config (experimental last and first), then compare with the snapshot taken at process start
					for _, h := range [][]int{{0, 1, 0}, {1, 0}} {
						for _, ci := range h {
							lib.Compile("Patient.name.given.join(',')", cfgs[ci].copts()...)
							core.Try(func() { patch.Compile("Patient.name.given.join(',')", cfgs[ci].copts()...) })
							r.Eval()
						}
						now := tableSnapshot(ftab.Table(false))
						if now != c16BaseSnapshot {
							r.Fail("default-table-changed-by-compile-history", core.W{"at_process_start": c16BaseSnapshot, "now": now})
						}
						probe := lib.Compile("Patient.name.given.join(',')")
						if _, inBase := c16BaseKeys["join"]; !inBase && probe.CompileErr == nil {
							r.Fail("experimental-function-accepted-by-default-config-after-history", core.W{"src": probe.Src, "history": fmt.Sprint(h)})
						}
					}
					tbl := c.table()
					// every function the library declares as experimental is reachable with the experimental functions switched on:
					// under its name, with its bounds and its implementation - unless an IMPLEMENTED default function has the name
					// (a not-implemented placeholder of the default table does not count as one)
					if raw := ftab.ExperimentalRaw(); raw != nil && c.name == "experimental" {
						for name, e := range raw {
							got, in := tbl[name]
							r.State("experimental-reachable")
							r.Nontrivial("experimental-raw", name, fmt.Sprint(in))
							if in && got == e {
								continue
							}
							if base, inBase := ftab.Table(false)[name]; inBase && base.Impl != placeholder {
								continue
							}
							r.Fail("experimental-function-not-reachable|"+name, core.W{"name": name, "declared": fmt.Sprintf("%s/%d..%d", e.Impl, e.Min, e.Max), "in_the_table_with_experimental_functions": fmt.Sprintf("%v %s/%d..%d", in, got.Impl, got.Min, got.Max)})
						}
					}
					var keys []string
					for k := range tbl {
						keys = append(keys, k)
					}
					sort.Strings(keys)
					for _, k := range keys {
						fn := tbl[k]
						r.Eval()
						impln := fn.Impl
						r.State("binding|" + c.name)
						r.Nontrivial(k, impln)
						r.Sample(core.W{"key": k, "impl": impln, "min": fn.Min, "max": fn.Max})
						want := "fhirpath/internal/funcs/impl." + upperFirst(k)
						if impln == "" {
							r.State("binding|implementation-name-not-observable (" + ftab.Mode + ")")
						} else if impln != want && impln != placeholder {
							r.Fail("binding|"+k+"|bound-to="+impln, core.W{"key": k, "bound_to": impln, "want": want})
						}
						_, s1 := n1[k]
						_, s2 := documentedExt[k]
						if !s1 && !s2 {
							r.Fail("not-a-spec-name|"+k, core.W{"key": k, "bound_to": impln})
						}
						if fn.Min > fn.Max || fn.Min < 0 {
							r.Fail("bad-arity-bounds|"+k, core.W{"min": fn.Min, "max": fn.Max})
						}
					}
					// every implemented spec function must be reachable under its spec name
					implNames := map[string]string{}
					for k, fn := range tbl {
						implNames[fn.Impl] = k
					}
					for impln, k := range implNames {
						if impln == placeholder || !strings.HasPrefix(impln, "fhirpath/internal/funcs/impl.") {
							continue
						}
						specName := strings.TrimPrefix(impln, "fhirpath/internal/funcs/impl.")
						specName = strings.ToLower(specName[:1]) + specName[1:]
						if _, ok := n1[specName]; ok {
							if _, ok := tbl[specName]; !ok {
								r.Fail("implemented-but-unreachable|"+specName, core.W{"impl": impln, "registered_as": k})
							}
						}
					}
				}},
			}
		},
	})
}
