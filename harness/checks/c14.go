package checks

import (
	"encoding/base64"
	"fmt"
	ppb "github.com/google/fhir/go/proto/google/fhir/proto/r4/core/resources/patient_go_proto"
	"google.golang.org/protobuf/reflect/protoreflect"
	"google.golang.org/protobuf/reflect/protoregistry"
	"math"
	"sort"
	"strings"
	"unicode"
	"unicode/utf16"
	"unicode/utf8"

	dtpb "github.com/google/fhir/go/proto/google/fhir/proto/r4/core/datatypes_go_proto"
	"github.com/verily-src/fhirpath-go/fhirpath/system"
	"github.com/verily-src/fhirpath-go/fhirpath/verifh/core"
	"github.com/verily-src/fhirpath-go/fhirpath/verifh/lib"
	"github.com/verily-src/fhirpath-go/internal/fhir"
)

// ---- C14: string functions over characters, against a rune-slice reference.

var c14Sigma = []rune{'a', 'b', 'é', '€', '😀', '́'}

// c14Strings enumerates all strings of length 0..maxLen over Sigma, simplest first.
func c14Strings(maxLen int) []string {
	out := []string{""}
	prev := []string{""}
	for n := 1; n <= maxLen; n++ {
		var cur []string
		for _, p := range prev {
			for _, c := range c14Sigma {
				cur = append(cur, p+string(c))
			}
		}
		out = append(out, cur...)
		prev = cur
	}
	return out
}

var c14LitStrings []string

// c14LiteralStrings: all strings of length 0..2 over the alphabet plus white-space code points that are not ASCII blanks
func c14LiteralStrings() []string {
	if c14LitStrings == nil {
		sigma := append(append([]rune{}, c14Sigma...), '\u00a0', '\u0085', '\u2028', '\u3000', '\t')
		c14LitStrings = []string{""}
		for _, a := range sigma {
			c14LitStrings = append(c14LitStrings, string(a))
			for _, b := range sigma {
				c14LitStrings = append(c14LitStrings, string(a)+string(b))
			}
		}
	}
	return c14LitStrings
}

// periodic strings of length 6..12 with period <= 2
func c14Periodic() []string {
	var out []string
	seen := map[string]bool{}
	for _, a := range c14Sigma {
		for _, b := range c14Sigma {
			for n := 6; n <= 12; n++ {
				rs := make([]rune, n)
				for i := range rs {
					if i%2 == 0 {
						rs[i] = a
					} else {
						rs[i] = b
					}
				}
				if s := string(rs); !seen[s] {
					seen[s] = true
					out = append(out, s)
				}
			}
		}
	}
	return out
}

func strClass(s string) string {
	if s == "" {
		return "empty"
	}
	for _, c := range s {
		if c > 127 {
			return "nonascii"
		}
	}
	return "ascii"
}

func posClass(p, n int64) string {
	switch {
	case p == math.MinInt32:
		return "minint"
	case p == math.MaxInt32:
		return "maxint"
	case p < 0:
		return "neg"
	case p == 0:
		return "zero"
	case p < n:
		return "inside"
	case p == n:
		return "atend"
	}
	return "beyond"
}

func runeIndex(s, t []rune) int {
	for i := 0; i+len(t) <= len(s); i++ {
		ok := true
		for j := range t {
			if s[i+j] != t[j] {
				ok = false
				break
			}
		}
		if ok {
			return i
		}
	}
	return -1
}

func runeReplace(s, p, sub []rune) []rune {
	var out []rune
	if len(p) == 0 {
		out = append(out, sub...)
		for _, c := range s {
			out = append(out, c)
			out = append(out, sub...)
		}
		return out
	}
	for i := 0; i < len(s); {
		if i+len(p) <= len(s) && runeIndex(s[i:i+len(p)], p) == 0 {
			out = append(out, sub...)
			i += len(p)
		} else {
			out = append(out, s[i])
			i++
		}
	}
	return out
}

// strOut extracts a result: kind in {string, int, bool, empty, multi, error, panic, other}
type sOut struct {
	kind string
	s    string
	i    int64
	b    bool
	n    int
	res  lib.Res
}

func c14Out(res lib.Res) sOut {
	o := sOut{res: res}
	switch {
	case res.Panic != nil:
		o.kind = "panic"
	case res.CompileErr != nil:
		o.kind = "compile-error"
	case res.Err != nil:
		o.kind = "error"
	case len(res.Coll) == 0:
		o.kind = "empty"
	case len(res.Coll) > 1:
		o.kind, o.n = "multi", len(res.Coll)
	default:
		switch v := res.Coll[0].(type) {
		case system.String:
			o.kind, o.s = "string", string(v)
		case system.Integer:
			o.kind, o.i = "int", int64(v)
		case system.Boolean:
			o.kind, o.b = "bool", bool(v)
		default:
			o.kind = "other"
		}
	}
	return o
}

func (o sOut) disc() string {
	if o.kind == "panic" {
		return o.res.Panic.Key()
	}
	return o.kind
}

type c14Exprs struct {
	length, toChars, upper, lower, sub1, sub2, indexOf, contains, starts, ends, replace, concatLaw, startsLaw lib.Res
}

func c14Compile() *c14Exprs {
	return &c14Exprs{
		length: lib.Compile("%s.length()"), toChars: lib.Compile("%s.toChars()"), upper: lib.Compile("%s.upper()"), lower: lib.Compile("%s.lower()"),
		sub1: lib.Compile("%s.substring(%i)"), sub2: lib.Compile("%s.substring(%i, %n)"),
		indexOf: lib.Compile("%s.indexOf(%t)"), contains: lib.Compile("%s.contains(%t)"), starts: lib.Compile("%s.startsWith(%t)"), ends: lib.Compile("%s.endsWith(%t)"),
		replace:   lib.Compile("%s.replace(%t, %u)"),
		concatLaw: lib.Compile("%s.substring(0, %i) & %s.substring(%i)"),
		startsLaw: lib.Compile("%s.substring(%i).startsWith(%t)"),
	}
}

// c14One runs the whole battery for one receiver value (recv is the value bound to %s) whose string content is s.
func c14One(r *core.Rec, ex *c14Exprs, recv any, recvKind, s string, patterns []string, full bool) {
	rs := []rune(s)
	n := int64(len(rs))
	cls := recvKind + "." + strClass(s)
	ev := func(e lib.Res, env map[string]any) sOut {
		env["s"] = recv
		o := c14Out(lib.EvalOpts(e, nil, lib.EnvOpts(env)...))
		r.Eval()
		if o.kind == "string" && !utf8.ValidString(o.s) {
			o.kind = "invalid-utf8"
		}
		return o
	}
	fail := func(fn, argc, d string, w core.W) {
		w["s"] = s
		w["receiver"] = recvKind
		r.Fail(fmt.Sprintf("%s|%s|%s|%s", fn, cls, argc, d), w)
	}
	r.State("recv|" + cls)
	// length
	ol := ev(ex.length, map[string]any{})
	if !(ol.kind == "int" && ol.i == n) {
		fail("length", "-", "got="+ol.disc()+"|value!=ref", core.W{"got": ol.res.String(), "want": n})
	}
	// toChars
	oc := ev(ex.toChars, map[string]any{})
	okc := true
	switch {
	case n == 0:
		okc = oc.kind == "empty" || (oc.kind == "string" && oc.s == "") // '' has no characters; latitude: [''] is not accepted
		okc = oc.kind == "empty"
	case n == 1:
		okc = oc.kind == "string" && oc.s == s
	default:
		okc = oc.kind == "multi" && oc.n == int(n)
		if okc {
			for k, it := range oc.res.Coll {
				if v, ok := it.(system.String); !ok || string(v) != string(rs[k]) {
					okc = false
				}
			}
		}
	}
	if !okc {
		fail("toChars", "-", "got="+oc.disc()+"|value!=ref", core.W{"got": oc.res.String(), "want_count": n})
	}
	// law: toChars().count() = length()
	if ol.kind == "int" && (oc.kind == "multi" || oc.kind == "string" || oc.kind == "empty") {
		cnt := int64(len(oc.res.Coll))
		if cnt != ol.i {
			fail("law:toChars.count=length", "-", "mismatch", core.W{"toChars_count": cnt, "length": ol.i})
		}
	}
	// upper / lower
	for _, c := range []struct {
		fn string
		e  lib.Res
		f  func(rune) rune
	}{{"upper", ex.upper, unicode.ToUpper}, {"lower", ex.lower, unicode.ToLower}} {
		want := make([]rune, len(rs))
		for k, ch := range rs {
			want[k] = c.f(ch)
		}
		o := ev(c.e, map[string]any{})
		if !(o.kind == "string" && o.s == string(want)) {
			fail(c.fn, "-", "got="+o.disc()+"|value!=ref", core.W{"got": o.res.String(), "want": string(want)})
		}
	}
	// substring(start) and substring(start, len)
	starts := []int64{math.MinInt32, math.MaxInt32}
	for p := int64(-2); p <= n+2; p++ {
		starts = append(starts, p)
	}
	lens := []int64{math.MaxInt32}
	for l := int64(-1); l <= n+2; l++ {
		lens = append(lens, l)
	}
	for _, st := range starts {
		inRange := st >= 0 && st < n
		o := ev(ex.sub1, map[string]any{"i": system.Integer(st)})
		r.State("substring1|" + posClass(st, n))
		if inRange {
			want := string(rs[st:])
			if !(o.kind == "string" && o.s == want) {
				fail("substring", "start="+posClass(st, n), "got="+o.disc()+"|want=value", core.W{"start": st, "got": o.res.String(), "want": want})
			}
		} else if o.kind != "empty" {
			fail("substring", "start="+posClass(st, n), "got="+o.disc()+"|want=empty", core.W{"start": st, "got": o.res.String(), "want": "[]"})
		}
		if !full && (st < -1 || st > n+1) && st != math.MinInt32 && st != math.MaxInt32 {
			continue
		}
		for _, ln := range lens {
			o := ev(ex.sub2, map[string]any{"i": system.Integer(st), "n": system.Integer(ln)})
			lc := "len=" + posClass(ln, n-maxI(st, 0))
			if ln == 0 {
				lc = "len=zero"
			}
			r.State("substring2|" + posClass(st, n) + "|" + lc)
			argc := "start=" + posClass(st, n) + "," + lc
			if !inRange {
				if o.kind != "empty" {
					fail("substring", argc, "got="+o.disc()+"|want=empty", core.W{"start": st, "len": ln, "got": o.res.String(), "want": "[]"})
				}
				continue
			}
			if ln <= 0 {
				// the specification is silent on non-positive lengths: '' or empty are both accepted
				if !(o.kind == "empty" || (o.kind == "string" && o.s == "")) {
					fail("substring", argc, "got="+o.disc()+"|want=empty-or-''", core.W{"start": st, "len": ln, "got": o.res.String()})
				}
				continue
			}
			end := st + ln
			if end > n {
				end = n
			}
			want := string(rs[st:end])
			if !(o.kind == "string" && o.s == want) {
				fail("substring", argc, "got="+o.disc()+"|want=value", core.W{"start": st, "len": ln, "got": o.res.String(), "want": want})
			}
		}
	}
	// law: substring(0,k) & substring(k) = s
	for k := int64(0); k <= n; k++ {
		o := ev(ex.concatLaw, map[string]any{"i": system.Integer(k)})
		if !(o.kind == "string" && o.s == s) {
			fail("law:substring(0,k)&substring(k)=s", "k="+posClass(k, n), "got="+o.disc(), core.W{"k": k, "got": o.res.String(), "want": s})
		}
	}
	// search functions
	pats := append([]string{}, patterns...)
	seen := map[string]bool{}
	for _, p := range pats {
		seen[p] = true
	}
	for a := 0; a <= len(rs); a++ {
		for b := a; b <= len(rs); b++ {
			if p := string(rs[a:b]); !seen[p] {
				seen[p] = true
				pats = append(pats, p)
			}
		}
	}
	for _, t := range pats {
		tr := []rune(t)
		idx := runeIndex(rs, tr)
		pc := "pattern=" + strClass(t)
		if idx >= 0 {
			pc += ".found"
		} else {
			pc += ".absent"
		}
		env := func() map[string]any { return map[string]any{"t": system.String(t)} }
		oi := ev(ex.indexOf, env())
		if !(oi.kind == "int" && oi.i == int64(idx)) {
			fail("indexOf", pc, "got="+oi.disc()+"|value!=ref", core.W{"pattern": t, "got": oi.res.String(), "want": idx})
		}
		oct := ev(ex.contains, env())
		if !(oct.kind == "bool" && oct.b == (idx >= 0)) {
			fail("contains", pc, "got="+oct.disc()+"|value!=ref", core.W{"pattern": t, "got": oct.res.String(), "want": idx >= 0})
		}
		ws := len(tr) <= len(rs) && runeIndex(rs[:len(tr)], tr) == 0
		os := ev(ex.starts, env())
		if !(os.kind == "bool" && os.b == ws) {
			fail("startsWith", pc, "got="+os.disc()+"|value!=ref", core.W{"pattern": t, "got": os.res.String(), "want": ws})
		}
		we := len(tr) <= len(rs) && runeIndex(rs[len(rs)-len(tr):], tr) == 0
		oe := ev(ex.ends, env())
		if !(oe.kind == "bool" && oe.b == we) {
			fail("endsWith", pc, "got="+oe.disc()+"|value!=ref", core.W{"pattern": t, "got": oe.res.String(), "want": we})
		}
		// laws on the implementation's outputs
		if oi.kind == "int" && oct.kind == "bool" && (oi.i >= 0) != oct.b {
			fail("law:contains-iff-indexOf>=0", pc, "mismatch", core.W{"pattern": t, "indexOf": oi.i, "contains": oct.b})
		}
		if oi.kind == "int" && oi.i >= 0 && !(oi.i == n && n == 0) {
			e2 := env()
			e2["i"] = system.Integer(oi.i)
			ol := ev(ex.startsLaw, e2)
			// substring(i) is empty when i = length (only possible for the empty pattern at the end): startsWith on empty gives empty
			if !(ol.kind == "bool" && ol.b) && !(oi.i >= n && ol.kind == "empty") {
				fail("law:indexOf=i=>substring(i).startsWith(t)", pc, "got="+ol.disc(), core.W{"pattern": t, "indexOf": oi.i, "got": ol.res.String()})
			}
		}
	}
	// replace
	for _, t := range patterns {
		for _, u := range []string{"", "x", "é"} {
			want := string(runeReplace(rs, []rune(t), []rune(u)))
			o := ev(ex.replace, map[string]any{"t": system.String(t), "u": system.String(u)})
			if !(o.kind == "string" && o.s == want) {
				pc := "pattern=" + strClass(t)
				fail("replace", pc, "got="+o.disc()+"|value!=ref", core.W{"pattern": t, "substitution": u, "got": o.res.String(), "want": want})
			}
		}
	}
}

// c14LongCases: strings whose lengths straddle the sizes at which an implementation could switch algorithm or buffer
// (15..17, 31..33, 63..65, 127..129, 255..257, 1023..1025, 4095..4097 characters) in six textures: ASCII only, one
// non-ASCII character first / in the middle / last, every character non-ASCII, a character beyond the BMP last.
type c14Long struct {
	name string
	rs   []rune
}

func c14LongCases(tier string) []c14Long {
	lens := []int{15, 16, 17, 31, 32, 33, 63, 64, 65, 127, 128, 129, 255, 256, 257, 1023, 1024, 1025}
	if tier == "thorough" {
		lens = append(lens, 2047, 2048, 2049, 4095, 4096, 4097, 65535, 65536, 65537)
	}
	var out []c14Long
	for _, n := range lens {
		for _, tx := range []string{"ascii", "nonascii-first", "nonascii-mid", "nonascii-last", "all-nonascii", "astral-last"} {
			rs := make([]rune, n)
			for k := range rs {
				rs[k] = rune('a' + k%3) // a b c a b c ...: patterns recur, so a search has to look at every position
				if tx == "all-nonascii" {
					rs[k] = []rune{'é', '€', 'ü'}[k%3]
				}
			}
			switch tx {
			case "nonascii-first":
				rs[0] = 'é'
			case "nonascii-mid":
				rs[n/2] = '€'
			case "nonascii-last":
				rs[n-1] = 'é'
			case "astral-last":
				rs[n-1] = '😀'
			}
			out = append(out, c14Long{fmt.Sprintf("len=%d.%s", n, tx), rs})
		}
	}
	return out
}

func c14LongOne(r *core.Rec, ex *c14Exprs, lc c14Long) {
	rs := lc.rs
	s := string(rs)
	n := int64(len(rs))
	recv := system.String(s)
	ev := func(e lib.Res, env map[string]any) sOut {
		env["s"] = recv
		o := c14Out(lib.EvalOpts(e, nil, lib.EnvOpts(env)...))
		r.Eval()
		if o.kind == "string" && !utf8.ValidString(o.s) {
			o.kind = "invalid-utf8"
		}
		return o
	}
	fail := func(fn, argc, d string, w core.W) {
		w["s_len"] = n
		w["texture"] = lc.name
		r.Fail(fmt.Sprintf("%s|long.%s|%s|%s", fn, lc.name[strings.Index(lc.name, ".")+1:], argc, d), w)
	}
	r.State("recv|long." + lc.name)
	if o := ev(ex.length, map[string]any{}); !(o.kind == "int" && o.i == n) {
		fail("length", "-", "got="+o.disc()+"|value!=ref", core.W{"got": o.res.String(), "want": n})
	}
	oc := ev(ex.toChars, map[string]any{})
	okc := oc.kind == "multi" && oc.n == int(n)
	if okc {
		for k, it := range oc.res.Coll {
			if v, ok := it.(system.String); !ok || string(v) != string(rs[k]) {
				okc = false
			}
		}
	}
	if !okc {
		fail("toChars", "-", "got="+oc.disc()+"|value!=ref", core.W{"got_count": len(oc.res.Coll), "want_count": n})
	}
	for _, c := range []struct {
		fn string
		e  lib.Res
		f  func(rune) rune
	}{{"upper", ex.upper, unicode.ToUpper}, {"lower", ex.lower, unicode.ToLower}} {
		want := make([]rune, len(rs))
		for k, ch := range rs {
			want[k] = c.f(ch)
		}
		if o := ev(c.e, map[string]any{}); !(o.kind == "string" && o.s == string(want)) {
			fail(c.fn, "-", "got="+o.disc()+"|value!=ref", core.W{"got_len": len([]rune(o.s))})
		}
	}
	pos := []int64{0, 1, n/2 - 1, n / 2, n/2 + 1, n - 2, n - 1, n, n + 1}
	for _, st := range pos {
		inRange := st >= 0 && st < n
		o := ev(ex.sub1, map[string]any{"i": system.Integer(st)})
		if inRange && !(o.kind == "string" && o.s == string(rs[st:])) || !inRange && o.kind != "empty" {
			fail("substring", "start="+posClass(st, n), "got="+o.disc()+"|value!=ref", core.W{"start": st, "got_len": len([]rune(o.s))})
		}
		if !inRange {
			continue
		}
		for _, ln := range []int64{1, 2, n/2 - 1, n / 2, n - st - 1, n - st, n - st + 1, n, math.MaxInt32} {
			if ln <= 0 {
				continue
			}
			end := st + ln
			if end > n {
				end = n
			}
			o := ev(ex.sub2, map[string]any{"i": system.Integer(st), "n": system.Integer(ln)})
			if !(o.kind == "string" && o.s == string(rs[st:end])) {
				fail("substring", "start="+posClass(st, n)+",len="+posClass(ln, n-st), "got="+o.disc()+"|value!=ref", core.W{"start": st, "len": ln, "got_len": len([]rune(o.s))})
			}
		}
		if o := ev(ex.concatLaw, map[string]any{"i": system.Integer(st)}); !(o.kind == "string" && o.s == s) {
			fail("law:substring(0,k)&substring(k)=s", "k="+posClass(st, n), "got="+o.disc(), core.W{"k": st})
		}
	}
	// patterns: the ends, the middle, the whole string, the string with one more character, a run that occurs only once
	// (the last two characters followed by nothing), an absent character, the recurring unit
	pats := [][]rune{rs[:1], rs[n-1:], rs[n-2:], rs[n/2-1 : n/2+2], rs, append(append([]rune{}, rs...), 'x'), []rune("Z"), []rune("abc"), []rune("ca"), rs[1:], rs[:n-1], []rune("é"), []rune("😀"), {}}
	for pi, tr := range pats {
		t := string(tr)
		idx := runeIndex(rs, tr)
		pc := fmt.Sprintf("pattern#%d", pi)
		env := func() map[string]any { return map[string]any{"t": system.String(t)} }
		oi := ev(ex.indexOf, env())
		if !(oi.kind == "int" && oi.i == int64(idx)) {
			fail("indexOf", pc, "got="+oi.disc()+"|value!=ref", core.W{"pattern_len": len(tr), "got": oi.res.String(), "want": idx})
		}
		if o := ev(ex.contains, env()); !(o.kind == "bool" && o.b == (idx >= 0)) {
			fail("contains", pc, "got="+o.disc()+"|value!=ref", core.W{"pattern_len": len(tr), "got": o.res.String(), "want": idx >= 0})
		}
		ws := len(tr) <= len(rs) && runeIndex(rs[:len(tr)], tr) == 0
		if o := ev(ex.starts, env()); !(o.kind == "bool" && o.b == ws) {
			fail("startsWith", pc, "got="+o.disc()+"|value!=ref", core.W{"pattern_len": len(tr), "got": o.res.String(), "want": ws})
		}
		we := len(tr) <= len(rs) && runeIndex(rs[len(rs)-len(tr):], tr) == 0
		if o := ev(ex.ends, env()); !(o.kind == "bool" && o.b == we) {
			fail("endsWith", pc, "got="+o.disc()+"|value!=ref", core.W{"pattern_len": len(tr), "got": o.res.String(), "want": we})
		}
		if len(tr) > 0 && len(tr) < 4 {
			for _, u := range []string{"", "é", "xyz"} {
				want := string(runeReplace(rs, tr, []rune(u)))
				if o := ev(ex.replace, map[string]any{"t": system.String(t), "u": system.String(u)}); !(o.kind == "string" && o.s == want) {
					fail("replace", pc, "got="+o.disc()+"|value!=ref", core.W{"pattern": t, "substitution": u, "got_len": len([]rune(o.s)), "want_len": len([]rune(want))})
				}
			}
		}
	}
}

func maxI(a, b int64) int64 {
	if a > b {
		return a
	}
	return b
}

var c14Wrappers []protoreflect.MessageType

// c14CodeWrappers: the registered R4 code elements whose value is an enum (codes bound to a value set), in name order
func c14CodeWrappers() []protoreflect.MessageType {
	if c14Wrappers == nil {
		protoregistry.GlobalTypes.RangeMessages(func(mt protoreflect.MessageType) bool {
			md := mt.Descriptor()
			if strings.HasPrefix(string(md.FullName()), "google.fhir.r4.core.") && lib.IsPrimitiveMsg(md) {
				if vf := md.Fields().ByName("value"); vf != nil && vf.Kind() == protoreflect.EnumKind {
					c14Wrappers = append(c14Wrappers, mt)
				}
			}
			return true
		})
		sort.Slice(c14Wrappers, func(i, j int) bool {
			return c14Wrappers[i].Descriptor().FullName() < c14Wrappers[j].Descriptor().FullName()
		})
	}
	return c14Wrappers
}

func init() {
	core.Register(&core.Check{
		ID:          "C14",
		Rule:        "all strings of length 0..4 (quick) / 0..5 (thorough) over {a,b,é,€,😀,U+0301} plus periodic strings of length 6..12; for each: length, toChars, upper, lower, substring for all start in [-2,len+2] u {MinInt32,MaxInt32} x all len in [-1,len+2] u {MaxInt32}, indexOf/contains/startsWith/endsWith for every substring and every pattern of length <=2, replace with 3 substitutions; String variables, literals and FHIR string/code/uri/markdown/id receivers; compared with a rune-slice reference and the four consequences on the implementation's own outputs; distinct by construction",
		Assumptions: []string{"a character is a Unicode code point (a combining mark is its own character)", "substring with a non-positive length: '' and empty are both accepted (the specification is silent)", "upper/lower use per-code-point simple case mapping"},
		Subs: func(tier string) []core.Sub {
			maxLen := 5
			if tier == "thorough" {
				maxLen = 6
			}
			strs := c14Strings(maxLen)
			per := c14Periodic()
			pat2 := c14Strings(2)
			short := c14Strings(2)
			return []core.Sub{
				{Name: "sigma-strings", N: len(strs), Note: fmt.Sprintf("all %d strings of length 0..%d as String variables", len(strs), maxLen), Run: func(i int, r *core.Rec) {
					ex := c14Compile()
					before := r.Evals
					c14One(r, ex, system.String(strs[i]), "String", strs[i], pat2, len([]rune(strs[i])) <= 3)
					r.NontrivialByConstruction(r.Evals - before)
					if r.WantSample() {
						r.Sample(core.W{"s": strs[i], "executions": r.Evals - before})
					}
				}},
				{Name: "periodic-long", N: len(per), Note: "period<=2 strings of length 6..12", Run: func(i int, r *core.Rec) {
					ex := c14Compile()
					before := r.Evals
					c14One(r, ex, system.String(per[i]), "String", per[i], pat2[:13], false)
					r.NontrivialByConstruction(r.Evals - before)
				}},
				{Name: "fhir-receivers", N: len(short), Note: "strings of length 0..2 as FHIR string, code, uri, markdown, id elements", Run: func(i int, r *core.Rec) {
					ex := c14Compile()
					s := short[i]
					before := r.Evals
					for _, rc := range []struct {
						kind string
						v    any
					}{{"fhir.string", fhir.String(s)}, {"fhir.code", fhir.Code(s)}, {"fhir.uri", fhir.URI(s)}, {"fhir.markdown", fhir.Markdown(s)}, {"fhir.id", &dtpb.Id{Value: s}},
						{"fhir.url", &dtpb.Url{Value: s}}, {"fhir.canonical", &dtpb.Canonical{Value: s}}, {"fhir.oid", &dtpb.Oid{Value: s}}, {"fhir.uuid", &dtpb.Uuid{Value: s}}, {"fhir.xhtml", &dtpb.Xhtml{Value: s}}} {
						c14One(r, ex, rc.v, rc.kind, s, pat2[:13], false)
					}
					// a base64Binary element is the String of its base64 text: the bytes are those of the same short string
					// (valid UTF-8) and of its prefix cut inside a multi-byte character (not valid UTF-8)
					for _, raw := range [][]byte{[]byte(s), append([]byte{0xff, 0xfe}, []byte(s)...)} {
						b64 := base64.StdEncoding.EncodeToString(raw)
						c14One(r, ex, &dtpb.Base64Binary{Value: raw}, "fhir.base64Binary", b64, []string{"", "/", "=", "A", "w=", "==", "5B", b64}, false)
					}
					r.NontrivialByConstruction(r.Evals - before)
				}},
				{Name: "navigated-receivers", N: len(short), Note: "strings of length 0..2 as the family name and as the first and last of three given names of a Patient, reached by navigation: length, toChars, upper, equality, and one result per element of the repeated one", Run: func(i int, r *core.Rec) {
					s := short[i]
					rs := []rune(s)
					n := int64(len(rs))
					p := &ppb.Patient{Name: []*dtpb.HumanName{{Family: fhir.String(s), Given: []*dtpb.String{fhir.String(s), fhir.String("x"), fhir.String(s)}}}}
					in := []fhir.Resource{p}
					for _, c := range []struct {
						fn, src string
						want    any
					}{
						{"length", "Patient.name.family.length()", n}, {"toChars", "Patient.name.family.toChars().count()", n}, {"upper", "Patient.name.family.upper() = %raw.upper()", true}, {"equal", "Patient.name.family = %raw", true},
						{"count", "Patient.name.given.count()", int64(3)}, {"select-length", "Patient.name.given.select(length()).count()", int64(3)}, {"select-length-first", "Patient.name.given.select(length()).first()", n},
						{"select-length-last", "Patient.name.given.select(length()).last()", n}, {"indexed", "Patient.name.given[2].length()", n}, {"law", "Patient.name.family.toChars().count() = Patient.name.family.length()", true},
						{"startsWith", "Patient.name.given[1].startsWith(%context.name.family) = 'x'.startsWith(%raw)", true}, {"concat", "(Patient.name.family & 'y').length()", n + 1},
					} {
						o := c14Out(lib.Run(c.src, in, map[string]any{"raw": system.String(s)}))
						r.Eval()
						r.State("recv|navigated." + strClass(s))
						r.Nontrivial(c.src, s, o.kind)
						bad := false
						switch w := c.want.(type) {
						case int64:
							bad = !(o.kind == "int" && o.i == w)
						case bool:
							bad = !(len(o.res.Coll) == 1 && o.res.Coll[0] == system.Boolean(w))
						}
						if bad {
							r.Fail(fmt.Sprintf("%s|navigated.%s|-|got=%s|value!=ref", c.fn, strClass(s), o.disc()), core.W{"s": s, "src": c.src, "got": o.res.String(), "want": c.want})
						}
					}
				}},
				{Name: "bound-code-receivers", N: len(c14CodeWrappers()), Note: "every code element bound to a value set (339 wrapper types) x every code of its value set as receiver: the string is the FHIR code; length, toChars, upper, lower, indexOf / substring / startsWith / endsWith at the ends, equality with the code", Run: func(i int, r *core.Rec) {
					mt := c14CodeWrappers()[i]
					vf := mt.Descriptor().Fields().ByName("value")
					vals := vf.Enum().Values()
					for k := 0; k < vals.Len(); k++ {
						ev := vals.Get(k)
						if ev.Number() == 0 {
							continue
						}
						m := mt.New()
						m.Set(vf, protoreflect.ValueOfEnum(ev.Number()))
						code := c18CodeOf(ev)
						rs := []rune(code)
						n := len(rs)
						if n == 0 || strings.Contains(code, "'") {
							continue
						}
						env := map[string]any{"s": m.Interface(), "code": system.String(code)}
						for _, c := range []struct {
							fn, src string
							want    any
						}{
							{"length", "%s.length()", int64(n)}, {"toChars", "%s.toChars().count()", int64(n)}, {"upper", "%s.upper()", strings.ToUpper(code)}, {"lower", "%s.lower()", strings.ToLower(code)},
							{"indexOf", "%s.indexOf(%code.substring(" + fmt.Sprint(n-1) + ")) <= " + fmt.Sprint(n-1), true}, {"substring", fmt.Sprintf("%%s.substring(%d)", n-1), string(rs[n-1:])}, {"substring-past-end", fmt.Sprintf("%%s.substring(%d)", n), ""},
							{"startsWith", "%s.startsWith(%code.substring(0, 2))", true}, {"endsWith", "%s.endsWith(%code.substring(" + fmt.Sprint(max(n-2, 0)) + "))", true}, {"contains", "%s.contains(%code)", true},
							{"equal", "%s = %code", true}, {"concat-law", "%s.substring(0, " + fmt.Sprint(n/2) + ") & %s.substring(" + fmt.Sprint(n/2) + ") = %code", true}, {"replace", "%s.replace(%code, 'x')", "x"},
						} {
							o := c14Out(lib.Run(c.src, nil, env))
							r.Eval()
							bad := false
							switch w := c.want.(type) {
							case int64:
								bad = !(o.kind == "int" && o.i == w)
							case bool:
								bad = !(len(o.res.Coll) == 1 && o.res.Coll[0] == system.Boolean(w))
							case string:
								if w == "" {
									bad = !(o.kind == "empty" || o.kind == "string" && o.s == "")
								} else {
									bad = !(o.kind == "string" && o.s == w)
								}
							}
							if bad {
								r.Fail(fmt.Sprintf("%s|fhir.code.bound|-|got=%s|value!=ref", c.fn, o.disc()), core.W{"type": string(mt.Descriptor().FullName()), "code": code, "src": c.src, "got": o.res.String(), "want": c.want})
							}
						}
						r.State("recv|fhir.code.bound")
					}
					r.NontrivialByConstruction(int64(vals.Len()) * 13)
				}},
				{Name: "long-strings", N: len(c14LongCases(tier)), Note: "strings of 15..1025 (thorough: ..65537) characters around powers of two x 6 textures (ASCII, one non-ASCII character first / middle / last, all non-ASCII, a character beyond the BMP last): length, toChars, upper, lower, substring at 9 starts x 9 lengths, the concatenation law, search functions for 14 patterns (ends, middle, whole, whole+1, absent, recurring), replace", Run: func(i int, r *core.Rec) {
					ex := c14Compile()
					before := r.Evals
					c14LongOne(r, ex, c14LongCases(tier)[i])
					r.NontrivialByConstruction(r.Evals - before)
				}},
				{Name: "literal-receivers", N: len(c14LiteralStrings()), Note: "strings of length 0..2 over the alphabet extended by the white-space code points U+00A0, U+0085, U+2028, U+3000 and a tab, written as string literals (raw and escaped): what stands between the quotes is the string", Run: func(i int, r *core.Rec) {
					s := c14LiteralStrings()[i]
					rs := []rune(s)
					// the same string written raw and with every character as a \u escape (UTF-16 code units: a character
					// beyond the BMP is an escaped surrogate pair)
					esc := ""
					for _, ch := range rs {
						for _, u := range utf16.Encode([]rune{ch}) {
							esc += fmt.Sprintf("\\u%04X", u)
						}
					}
					type litCase struct {
						fn, src string
						want    any
					}
					var cases []litCase
					for _, lit := range []string{s, esc} {
						cases = append(cases,
							litCase{"length", "'" + lit + "'.length()", int64(len(rs))},
							litCase{"upper", "'" + lit + "'.upper()", nil},
							litCase{"indexOf", "'" + lit + "x'.indexOf('x')", int64(len(rs))},
							litCase{"substring", "'x" + lit + "'.substring(1)", s},
							litCase{"toChars", "'" + lit + "'.toChars().count()", int64(len(rs))},
							litCase{"equal", "('" + lit + "' = %raw)", true})
					}
					for _, c := range cases {
						o := c14Out(lib.Run(c.src, nil, map[string]any{"raw": system.String(s)}))
						r.Eval()
						r.Nontrivial(c.src, o.kind)
						bad := false
						switch w := c.want.(type) {
						case bool:
							bad = !(len(o.res.Coll) == 1 && o.res.Coll[0] == system.Boolean(w))
						case int64:
							bad = !(o.kind == "int" && o.i == w)
						case string:
							if w == "" {
								bad = o.kind != "empty"
							} else {
								bad = !(o.kind == "string" && o.s == w)
							}
						}
						if bad {
							r.Fail(fmt.Sprintf("%s|literal.%s|-|got=%s|value!=ref", c.fn, strClass(s), o.disc()), core.W{"src": c.src, "got": o.res.String(), "want": c.want})
						}
					}
				}},
			}
		},
	})
}
