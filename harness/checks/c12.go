package checks

import (
	"fmt"
	bcrpb "github.com/google/fhir/go/proto/google/fhir/proto/r4/core/resources/bundle_and_contained_resource_go_proto"
	opb "github.com/google/fhir/go/proto/google/fhir/proto/r4/core/resources/observation_go_proto"
	ppb "github.com/google/fhir/go/proto/google/fhir/proto/r4/core/resources/patient_go_proto"
	"github.com/verily-src/fhirpath-go/fhirpath/compopts"
	"google.golang.org/protobuf/proto"
	"google.golang.org/protobuf/types/known/anypb"
	"sort"
	"strings"

	dtpb "github.com/google/fhir/go/proto/google/fhir/proto/r4/core/datatypes_go_proto"
	"github.com/verily-src/fhirpath-go/fhirpath"
	"github.com/verily-src/fhirpath-go/fhirpath/evalopts"
	"github.com/verily-src/fhirpath-go/fhirpath/system"
	"github.com/verily-src/fhirpath-go/fhirpath/verifh/core"
	"github.com/verily-src/fhirpath-go/fhirpath/verifh/lib"
	"github.com/verily-src/fhirpath-go/internal/fhir"
	"google.golang.org/protobuf/reflect/protoreflect"
)

// ---- C12: `is` and `as` agree with the FHIR and System type hierarchies.

var c12Primitives = map[string]string{"Base64Binary": "base64Binary", "Boolean": "boolean", "Canonical": "canonical", "Code": "code", "Date": "date", "DateTime": "dateTime",
	"Decimal": "decimal", "Id": "id", "Instant": "instant", "Integer": "integer", "Markdown": "markdown", "Oid": "oid", "PositiveInt": "positiveInt", "String": "string",
	"Time": "time", "UnsignedInt": "unsignedInt", "Uri": "uri", "Url": "url", "Uuid": "uuid"}

var c12SystemNames = []string{"Boolean", "String", "Integer", "Decimal", "Date", "DateTime", "Time", "Quantity"}

// hand-written R4 parent table (the part that is not "datatype -> Element" / "resource -> DomainResource")
var c12Parent = map[string]string{
	"code": "string", "markdown": "string", "id": "string", "unsignedInt": "integer", "positiveInt": "integer",
	"url": "uri", "canonical": "uri", "uuid": "uri", "oid": "uri",
	"Age": "Quantity", "Count": "Quantity", "Distance": "Quantity", "Duration": "Quantity", "MoneyQuantity": "Quantity", "SimpleQuantity": "Quantity",
	"Timing": "BackboneElement", "Dosage": "BackboneElement", "ElementDefinition": "BackboneElement",
	"MarketingStatus": "BackboneElement", "Population": "BackboneElement", "ProdCharacteristic": "BackboneElement", "ProductShelfLife": "BackboneElement", "SubstanceAmount": "BackboneElement",
	"BackboneElement": "Element", "Bundle": "Resource", "Binary": "Resource", "Parameters": "Resource", "DomainResource": "Resource",
}

type c12Types struct {
	resources map[string]bool
	datatypes map[string]bool // complex datatype names
	all       []string        // every type name used as T
}

var c12T *c12Types

func c12TypeUniverse() *c12Types {
	if c12T != nil {
		return c12T
	}
	t := &c12Types{resources: map[string]bool{}, datatypes: map[string]bool{}}
	for _, n := range lib.ResourceTypeNames() {
		t.resources[n] = true
	}
	// complex datatypes: top-level messages of the datatypes proto file that are neither primitives nor code wrappers
	fdesc := (&dtpb.HumanName{}).ProtoReflect().Descriptor().ParentFile()
	for i := 0; i < fdesc.Messages().Len(); i++ {
		md := fdesc.Messages().Get(i)
		n := string(md.Name())
		if lib.IsPrimitiveMsg(md) || n == "ReferenceId" || strings.HasSuffix(n, "Code") {
			continue
		}
		t.datatypes[n] = true
	}
	set := map[string]bool{"Element": true, "BackboneElement": true, "Resource": true, "DomainResource": true}
	for n := range t.resources {
		set[n] = true
	}
	for n := range t.datatypes {
		set[n] = true
	}
	for up, low := range c12Primitives {
		set[up], set[low] = true, true
	}
	for _, n := range c12SystemNames {
		set[n] = true
	}
	for n := range set {
		t.all = append(t.all, n)
	}
	sort.Strings(t.all)
	c12T = t
	return t
}

// declared FHIR type of a message, from the schema only
func c12Declared(md protoreflect.MessageDescriptor) (string, bool) {
	t := c12TypeUniverse()
	n := string(md.Name())
	parentMsg, nested := md.Parent().(protoreflect.MessageDescriptor)
	if lib.IsPrimitiveMsg(md) {
		if n == "ReferenceId" || n == "Xhtml" {
			return "", false
		}
		if nested || strings.HasSuffix(n, "Code") && n != "Code" {
			if strings.HasSuffix(n, "Code") {
				return "code", true
			}
			return "", false
		}
		if low, ok := c12Primitives[n]; ok {
			return low, true
		}
		return "", false
	}
	if t.resources[n] && !nested {
		return n, true
	}
	if nested {
		if md.Oneofs().ByName("choice") != nil && md.Fields().Len() == md.Oneofs().ByName("choice").Fields().Len() {
			return "", false // choice wrapper
		}
		root := parentMsg
		for {
			p, ok := root.Parent().(protoreflect.MessageDescriptor)
			if !ok {
				break
			}
			root = p
		}
		if t.resources[string(root.Name())] {
			return "BackboneElement", true
		}
		return "Element", true
	}
	if t.datatypes[n] {
		return n, true
	}
	return "", false
}

// ancestors returns the chain declared type, parent, ... in the FHIR namespace
func c12Chain(name string) []string {
	t := c12TypeUniverse()
	chain := []string{name}
	cur := name
	for {
		var p string
		switch {
		case cur == "Element" || cur == "Resource":
			return chain
		case c12Parent[cur] != "":
			p = c12Parent[cur]
		case t.resources[cur]:
			p = "DomainResource"
		default:
			p = "Element"
		}
		chain = append(chain, p)
		cur = p
	}
}

// resolve a type specifier the way the statement says: unqualified = FHIR first, then System
func c12Resolve(ns, name string) (resolvedNS string, ok bool) {
	t := c12TypeUniverse()
	isFHIR := t.resources[name] || t.datatypes[name] || name == "Element" || name == "BackboneElement" || name == "Resource" || name == "DomainResource"
	for _, low := range c12Primitives {
		if name == low {
			isFHIR = true
		}
	}
	isSys := false
	for _, s := range c12SystemNames {
		if name == s {
			isSys = true
		}
	}
	switch ns {
	case "FHIR":
		return "FHIR", isFHIR
	case "System":
		return "System", isSys
	case "":
		if isFHIR {
			return "FHIR", true
		}
		if isSys {
			return "System", true
		}
	}
	return "", false
}

type c12Expr struct {
	is, as lib.Res
}

func init() {
	exprCache := map[string]*c12Expr{}
	getExpr := func(ns, name string) *c12Expr {
		spec := name
		if ns != "" {
			spec = ns + "." + name
		}
		if e, ok := exprCache[spec]; ok {
			return e
		}
		e := &c12Expr{is: lib.Compile("%x is " + spec), as: lib.Compile("%x as " + spec)}
		exprCache[spec] = e
		return e
	}
	// one value of the subject under test
	type subject struct {
		desc     string
		v        any    // value bound to %x
		declNS   string // FHIR | System
		decl     string
		identity any // what `as` must return (the node itself / the chosen value of a choice wrapper)
		class    string
	}
	judge := func(r *core.Rec, s subject, names []string) {
		var chain []string
		if s.declNS == "FHIR" {
			chain = c12Chain(s.decl)
		} else {
			chain = []string{s.decl}
		}
		for _, name := range names {
			for _, ns := range []string{"", "FHIR", "System"} {
				rns, valid := c12Resolve(ns, name)
				e := getExpr(ns, name)
				r.State(fmt.Sprintf("%s|ns=%s|valid=%v", s.class, ns, valid))
				spec := name
				if ns != "" {
					spec = ns + "." + name
				}
				w := func(got string) core.W {
					return core.W{"x": s.desc, "declared": s.declNS + "." + s.decl, "type_specifier": spec, "got": got}
				}
				if e.is.Panic != nil || e.as.Panic != nil {
					r.Fail("compile|"+spec+"|panic", w(e.is.String()))
					continue
				}
				if !valid {
					if e.is.CompileErr == nil || e.as.CompileErr == nil {
						r.Fail("compile|invalid-type-specifier-accepted|ns="+ns+"|"+c12NameClass(name), w("compiled"))
					}
					continue
				}
				if e.is.CompileErr != nil || e.as.CompileErr != nil {
					r.Fail("compile|valid-type-specifier-rejected|ns="+ns+"|"+c12NameClass(name), w(e.is.String()))
					continue
				}
				want := false
				if rns == s.declNS {
					for _, c := range chain {
						want = want || c == name
					}
				}
				opts := []fhirpath.EvaluateOption{evalopts.EnvVariable("x", s.v)}
				is := lib.EvalOpts(e.is, nil, opts...)
				as := lib.EvalOpts(e.as, nil, opts...)
				r.Eval()
				r.Eval()
				r.Outcome(fmt.Sprintf("is=%s|as=%s", is.Class(), as.Class()))
				r.Nontrivial(s.desc, spec, is.String())
				if r.WantSample() {
					r.Sample(core.W{"x": s.desc, "declared": s.decl, "src": "%x is " + spec, "got": is.String()})
				}
				rel := "unrelated"
				if want {
					rel = "self"
					if name != s.decl {
						rel = "ancestor:" + name
					}
				}
				if b, ok := c10Boolean(is); !ok || (b == "true") != want {
					d := is.Class()
					if is.Panic != nil {
						d = is.Panic.Key()
					} else if ok {
						d = "is=" + b
					}
					r.Fail(strings.Join([]string{"is", s.class, "declared=" + c12DeclClass(s.declNS, s.decl), rel, d}, "|"), w(is.String()))
				}
				if as.Panic != nil || as.Err != nil {
					r.Fail(strings.Join([]string{"as", s.class, "declared=" + c12DeclClass(s.declNS, s.decl), rel, as.Class()}, "|"), w(as.String()))
					continue
				}
				if want {
					if !(len(as.Coll) == 1 && c10Same(as.Coll[0], s.identity)) {
						r.Fail(strings.Join([]string{"as", s.class, "declared=" + c12DeclClass(s.declNS, s.decl), rel, "not-x-itself"}, "|"), w(as.String()))
					}
				} else if len(as.Coll) != 0 {
					r.Fail(strings.Join([]string{"as", s.class, "declared=" + c12DeclClass(s.declNS, s.decl), rel, "not-empty"}, "|"), w(as.String()))
				}
			}
		}
	}
	related := func(decl string) []string {
		set := map[string]bool{}
		for _, c := range c12Chain(decl) {
			set[c] = true
		}
		for _, n := range []string{"Patient", "Observation", "Bundle", "Quantity", "Age", "HumanName", "Timing", "Dosage", "string", "code", "id", "markdown", "integer", "positiveInt", "unsignedInt", "uri", "url", "canonical", "oid", "uuid",
			"boolean", "decimal", "date", "dateTime", "instant", "time", "base64Binary", "Element", "BackboneElement", "Resource", "DomainResource", "String", "Integer", "Boolean", "Decimal", "Date", "DateTime", "Time", "Code", "Uri", "Reference", "Extension"} {
			set[n] = true
		}
		var out []string
		for n := range set {
			out = append(out, n)
		}
		sort.Strings(out)
		return out
	}

	core.Register(&core.Check{
		ID:          "C12",
		Rule:        "subjects: for every resource of the schema-covering family, one element per distinct message descriptor reached (declared FHIR type derived from the schema position: primitive -> lowerCamel name, *Code wrappers -> code, nested component of a resource -> BackboneElement, of a datatype -> Element, choice wrappers looked through) plus raw choice wrappers, plus System values from literals, arithmetic and functions; type specifiers: every resource name, every complex datatype name, the 19 primitive names in lower- and upper-case spelling, Element, BackboneElement, Resource, DomainResource and the System names, each unqualified and with FHIR. / System. (quick: the full set for resource roots and System values, the ancestor chain plus 42 fixed names for inner elements; thorough: the full set for every descriptor); x is T compared with a hand-written R4 parent table, x as T must be x itself or empty; malformed specifiers must be rejected by Compile; non-trivial = distinct (subject, specifier, outcome)",
		Assumptions: []string{"R4 parent table in checks/c12.go (primitive specialisations, Quantity specialisations, BackboneElement-derived datatypes, Bundle/Binary/Parameters under Resource)"},
		Subs: func(tier string) []core.Sub {
			names := lib.ResourceTypeNames()
			universe := c12TypeUniverse()
			depth, maxVar := 2, 3
			if tier == "thorough" {
				maxVar = 12
			}
			return []core.Sub{
				{Name: "system-values", N: 1, Note: "System values from literals, arithmetic and functions x the full type-name set", Run: func(i int, r *core.Rec) {
					progs := []struct{ src, decl string }{
						{"1", "Integer"}, {"1 + 1", "Integer"}, {"'abc'.length()", "Integer"}, {"1.5", "Decimal"}, {"3 / 2", "Decimal"}, {"'a'", "String"}, {"'a' & 'b'", "String"}, {"1.toString()", "String"},
						{"true", "Boolean"}, {"1 = 1", "Boolean"}, {"{}.exists()", "Boolean"}, {"@2020-01-01", "Date"}, {"@2020-01-01T10:00:00Z", "DateTime"}, {"@2020T", "DateTime"}, {"@T10:00", "Time"},
						{"1 'mg'", "Quantity"}, {"3 days", "Quantity"}, {"@2020-01-01 + 1 day", "Date"}, {"today()", "Date"}, {"now()", "DateTime"}, {"timeOfDay()", "Time"},
					}
					for _, p := range progs {
						v := lib.Run(p.src, nil, nil)
						r.Eval()
						if !v.OK() || len(v.Coll) != 1 {
							r.Fail("system-value|does-not-evaluate", core.W{"src": p.src, "got": v.String()})
							continue
						}
						if _, ok := v.Coll[0].(system.Any); !ok {
							r.Fail("system-value|not-a-system-value", core.W{"src": p.src, "got": v.String()})
							continue
						}
						judge(r, subject{desc: p.src, v: v.Coll[0], declNS: "System", decl: p.decl, identity: v.Coll[0], class: "system-value"}, universe.all)
					}
					// values computed FROM FHIR elements are System values, whatever the element's value is (zero, the empty
					// string, false: the values an identity shortcut would hand back unconverted)
					cenv := func() map[string]any {
						return map[string]any{"fi0": fhir.Integer(0), "fi3": fhir.Integer(3), "fd0": &dtpb.Decimal{Value: "0.00"}, "fd25": &dtpb.Decimal{Value: "2.5"}, "fq0": &dtpb.Quantity{Value: &dtpb.Decimal{Value: "0"}, Code: fhir.Code("mg")},
							"fs": fhir.String(""), "fs1": fhir.String("a"), "fb0": fhir.Boolean(false), "fu0": &dtpb.UnsignedInt{Value: 0}, "fp1": &dtpb.PositiveInt{Value: 1}}
					}
					for _, p := range []struct{ src, decl string }{
						{"-%fi0", "Integer"}, {"-%fi3", "Integer"}, {"-%fd0", "Decimal"}, {"-%fd25", "Decimal"}, {"-%fq0", "Quantity"}, {"-%fu0", "Integer"}, {"-(-%fi0)", "Integer"},
						{"%fi0 + 0", "Integer"}, {"%fi0 * 1", "Integer"}, {"%fi3 - 0", "Integer"}, {"%fp1 * 1", "Integer"}, {"%fd0 + 0", "Decimal"}, {"%fd25 * 1", "Decimal"}, {"%fi3 / 1", "Decimal"}, {"%fi0 div 1", "Integer"}, {"%fi0 mod 1", "Integer"},
						{"%fi0.abs()", "Integer"}, {"%fd0.abs()", "Decimal"}, {"%fi3.abs()", "Integer"}, {"%fd25.round()", "Decimal"}, {"%fd0.truncate()", "Integer"}, {"%fd25.floor()", "Integer"}, {"%fd25.ceiling()", "Integer"},
						{"%fs & ''", "String"}, {"%fs1 & ''", "String"}, {"%fs1.upper()", "String"}, {"%fs1.substring(0)", "String"}, {"%fs1.replace('z', 'y')", "String"}, {"%fi0.toString()", "String"},
						{"%fb0.not()", "Boolean"}, {"%fb0 or false", "Boolean"}, {"%fb0 and true", "Boolean"}, {"%fi0.toInteger()", "Integer"}, {"%fd0.toDecimal()", "Decimal"}, {"%fs1.toString()", "String"}, {"%fb0.toBoolean()", "Boolean"},
					} {
						v := lib.Run(p.src, nil, cenv())
						r.Eval()
						if !v.OK() || len(v.Coll) != 1 {
							r.Fail("computed-from-element|does-not-evaluate", core.W{"src": p.src, "got": v.String()})
							continue
						}
						if _, ok := v.Coll[0].(system.Any); !ok {
							r.Fail("computed-from-element|not-a-system-value", core.W{"src": p.src, "got": v.String()})
							continue
						}
						judge(r, subject{desc: p.src, v: v.Coll[0], declNS: "System", decl: p.decl, identity: v.Coll[0], class: "computed-from-element"}, universe.all)
					}
					// this sub-space runs first in a fresh worker process: FHIR elements whose type name also exists in
					// the System namespace (Quantity and its specialisations) are judged right after the System values,
					// so that state shared between the namespaces (seeded change C12-m1) shows in this order too
					qty := &dtpb.Quantity{Value: &dtpb.Decimal{Value: "5"}, Code: fhir.Code("mg")}
					age := &dtpb.Age{Value: &dtpb.Decimal{Value: "5"}, Code: fhir.Code("a")}
					judge(r, subject{desc: "FHIR Quantity element after System values", v: qty, declNS: "FHIR", decl: "Quantity", identity: qty, class: "element-after-system"}, universe.all)
					judge(r, subject{desc: "FHIR Age element after System values", v: age, declNS: "FHIR", decl: "Age", identity: age, class: "element-after-system"}, universe.all)
					for _, p := range progs[15:17] {
						v := lib.Run(p.src, nil, nil)
						if v.OK() && len(v.Coll) == 1 {
							judge(r, subject{desc: p.src + " (again, after the FHIR Quantity)", v: v.Coll[0], declNS: "System", decl: p.decl, identity: v.Coll[0], class: "system-value"}, universe.all)
						}
					}
				}},
				{Name: "elements", N: len(names), Note: "146 types x covering instances: one subject per distinct message descriptor", Run: func(i int, r *core.Rec) {
					tn := names[i]
					seen := map[protoreflect.FullName]bool{}
					for vi, resm := range lib.Family(tn, depth, maxVar) {
						res := resm.(fhir.Resource)
						tree, _, err := lib.ResourceJSON(res)
						if err != nil {
							continue
						}
						// contained resources are reached through navigation only (they are packed): each is of its resource type
						if cf := res.ProtoReflect().Descriptor().Fields().ByName("contained"); cf != nil && cf.IsList() {
							cl := res.ProtoReflect().Get(cf).List()
							for k := 0; k < cl.Len(); k++ {
								a, okA := cl.Get(k).Message().Interface().(*anypb.Any)
								cr := &bcrpb.ContainedResource{}
								if !okA || a.UnmarshalTo(cr) != nil {
									continue
								}
								of := cr.ProtoReflect().WhichOneof(cr.ProtoReflect().Descriptor().Oneofs().ByName("oneof_resource"))
								if of == nil {
									continue
								}
								inner := string(of.Message().Name())
								path := fmt.Sprintf("%s.contained[%d]", tn, k)
								isDomain := inner != "Binary" && inner != "Bundle" && inner != "Parameters"
								for _, tc := range []struct {
									src, want string
								}{
									{path + " is " + inner, "[Boolean:true]"}, {path + " is FHIR." + inner, "[Boolean:true]"}, {path + " is Resource", "[Boolean:true]"},
									{path + " is DomainResource", fmt.Sprintf("[Boolean:%v]", isDomain)}, {path + " is Element", "[Boolean:false]"}, {path + " is BackboneElement", "[Boolean:false]"},
									{"(" + path + " as " + inner + ").count()", "[Integer:1]"}, {"(" + path + " as Resource).count()", "[Integer:1]"}, {tn + ".contained.where($this is " + inner + ").count() > 0", "[Boolean:true]"},
									{path + ".children().where($this is " + inner + ").count()", "[Integer:0]"}, {tn + ".children().where($this is " + inner + ").count() > 0", fmt.Sprintf("[Boolean:%v]", true)},
								} {
									// the same resource with the entry's type URL under another host (only the part after the last '/' names the type)
									if alt, okc := proto.Clone(res).(fhir.Resource); okc {
										al := alt.ProtoReflect().Get(cf).List()
										if aa, okA := al.Get(k).Message().Interface().(*anypb.Any); okA {
											aa.TypeUrl = "type.example.org/" + aa.TypeUrl[strings.LastIndex(aa.TypeUrl, "/")+1:]
											g2 := lib.Run(tc.src, []fhir.Resource{alt}, nil)
											r.Eval()
											if g2.String() != tc.want {
												r.Fail("contained-resource|other-type-url-host|"+strings.SplitN(strings.TrimPrefix(tc.src, "("), " ", 3)[1]+"|"+g2.Class(), core.W{"src": tc.src, "got": core.Short(g2.String(), 200), "want": tc.want, "contained_type": inner, "type_url": aa.TypeUrl})
											}
										}
									}
									got := lib.Run(tc.src, []fhir.Resource{res}, nil)
									r.Eval()
									r.State("contained-resource|" + inner)
									r.Nontrivial(tn, fmt.Sprint(vi), tc.src, got.String())
									if got.String() != tc.want {
										d := got.Class()
										if got.Panic != nil {
											d = got.Panic.Key()
										}
										r.Fail("contained-resource|"+strings.SplitN(strings.TrimPrefix(tc.src, "("), " ", 3)[1]+"|"+d, core.W{"src": tc.src, "got": core.Short(got.String(), 200), "want": tc.want, "contained_type": inner})
									}
								}
							}
						}
						b := &c02Builder{}
						root := b.build(tree, res.ProtoReflect(), false)
						var walk func(n *c02Node, path string, isRoot bool)
						walk = func(n *c02Node, path string, isRoot bool) {
							if n.msg != nil && !n.copied && n.md != nil && !seen[n.md.FullName()] {
								if decl, ok := c12Declared(n.md); ok {
									seen[n.md.FullName()] = true
									tnames := related(decl)
									if isRoot || tier == "thorough" || tier == "quick" { // the full name set costs about a second
										tnames = universe.all
									}
									judge(r, subject{desc: fmt.Sprintf("%s (variant %d) %s", tn, vi, path), v: n.msg, declNS: "FHIR", decl: decl, identity: n.msg, class: "element"}, tnames)
								}
							}
							for _, nm := range n.names {
								for k, c := range n.kids[nm] {
									walk(c, fmt.Sprintf("%s.%s[%d]", path, nm, k), false)
								}
							}
						}
						walk(root, tn, true)
						// raw choice wrappers: the type is that of the chosen value, `as` yields the chosen value
						var wrappers func(m protoreflect.Message, path string)
						wrappers = func(m protoreflect.Message, path string) {
							m.Range(func(fd protoreflect.FieldDescriptor, v protoreflect.Value) bool {
								if fd.Message() == nil || fd.IsList() || fd.IsMap() {
									return true
								}
								c := v.Message()
								if od := c.Descriptor().Oneofs().ByName("choice"); od != nil && c.Descriptor().Fields().Len() == od.Fields().Len() {
									key := c.Descriptor().FullName() + "/wrapper"
									if alt := c.WhichOneof(od); alt != nil && !seen[key] {
										chosen := c.Get(alt).Message()
										if decl, ok := c12Declared(chosen.Descriptor()); ok {
											seen[key] = true
											judge(r, subject{desc: fmt.Sprintf("%s (variant %d) %s.%s [choice wrapper]", tn, vi, path, fd.JSONName()), v: c.Interface(), declNS: "FHIR", decl: decl, identity: chosen.Interface(), class: "choice-wrapper"}, related(decl))
										}
									}
								}
								return true
							})
						}
						wrappers(res.ProtoReflect(), tn)
					}
				}},
				{Name: "choice-alternatives", N: 1, Note: "every alternative of Extension.value[x] (50), Observation.value[x], Patient.deceased[x] / multipleBirth[x], UsageContext.value[x] as a raw choice wrapper: its type is that of the chosen value, `as` yields the chosen value", Run: func(_ int, r *core.Rec) {
					for _, w := range []proto.Message{&dtpb.Extension_ValueX{}, &opb.Observation_ValueX{}, &ppb.Patient_DeceasedX{}, &ppb.Patient_MultipleBirthX{}, &dtpb.UsageContext_ValueX{}, &opb.Observation_Component_ValueX{}} {
						od := w.ProtoReflect().Descriptor().Oneofs().ByName("choice")
						for k := 0; k < od.Fields().Len(); k++ {
							fd := od.Fields().Get(k)
							c := w.ProtoReflect().New()
							chosen := c.Mutable(fd).Message()
							decl, ok := c12Declared(chosen.Descriptor())
							if !ok {
								continue
							}
							judge(r, subject{desc: fmt.Sprintf("%s with %s chosen [choice wrapper]", c.Descriptor().FullName(), fd.JSONName()), v: c.Interface(), declNS: "FHIR", decl: decl, identity: chosen.Interface(), class: "choice-wrapper-alternative"}, related(decl))
						}
					}
				}},
				{Name: "choice-rebinding", N: 2, Note: "one compiled `is` / `as` / where($this is T) per type x {default, Permissive}, evaluated over a sequence of Observations whose value[x] holds a different alternative each time (and components holding all of them): every result equals that of a freshly compiled expression on the same input", Run: func(i int, r *core.Rec) {
					var copts []fhirpath.CompileOption
					mode := "default"
					if i == 1 {
						copts, mode = []fhirpath.CompileOption{compopts.Permissive()}, "permissive"
					}
					mkObs := func(alts ...string) fhir.Resource {
						val := func(alt string) *opb.Observation_ValueX {
							switch alt {
							case "string":
								return &opb.Observation_ValueX{Choice: &opb.Observation_ValueX_StringValue{StringValue: fhir.String("s")}}
							case "Quantity":
								return &opb.Observation_ValueX{Choice: &opb.Observation_ValueX_Quantity{Quantity: &dtpb.Quantity{Value: &dtpb.Decimal{Value: "1"}, Code: fhir.Code("mg")}}}
							case "integer":
								return &opb.Observation_ValueX{Choice: &opb.Observation_ValueX_Integer{Integer: fhir.Integer(3)}}
							case "boolean":
								return &opb.Observation_ValueX{Choice: &opb.Observation_ValueX_Boolean{Boolean: fhir.Boolean(true)}}
							}
							return nil
						}
						o := &opb.Observation{Id: fhir.ID("o"), Value: val(alts[0])}
						for _, a := range alts {
							cv := val(a)
							c := &opb.Observation_Component{}
							switch x := cv.Choice.(type) {
							case *opb.Observation_ValueX_StringValue:
								c.Value = &opb.Observation_Component_ValueX{Choice: &opb.Observation_Component_ValueX_StringValue{StringValue: x.StringValue}}
							case *opb.Observation_ValueX_Quantity:
								c.Value = &opb.Observation_Component_ValueX{Choice: &opb.Observation_Component_ValueX_Quantity{Quantity: x.Quantity}}
							case *opb.Observation_ValueX_Integer:
								c.Value = &opb.Observation_Component_ValueX{Choice: &opb.Observation_Component_ValueX_Integer{Integer: x.Integer}}
							case *opb.Observation_ValueX_Boolean:
								c.Value = &opb.Observation_Component_ValueX{Choice: &opb.Observation_Component_ValueX_Boolean{Boolean: x.Boolean}}
							}
							o.Component = append(o.Component, c)
						}
						return o
					}
					alts := []string{"string", "Quantity", "integer", "boolean"}
					var inputs [][]string
					for _, a := range alts {
						for _, b := range alts {
							inputs = append(inputs, []string{a, b})
						}
					}
					for _, T := range []string{"string", "Quantity", "integer", "boolean", "Element", "System.String", "FHIR.string"} {
						for _, tmpl := range []string{"Observation.value is %s", "(Observation.value as %s).exists()", "Observation.component.value.select($this is %s)", "Observation.component.value.where($this is %s).count()", "Observation.component.where(value is %s).count()"} {
							src := fmt.Sprintf(tmpl, T)
							sharedExpr := lib.Compile(src, copts...)
							if !sharedExpr.OK() && sharedExpr.CompileErr != nil {
								continue
							}
							var hist []string
							for _, inAlts := range inputs {
								in := []fhir.Resource{mkObs(inAlts...)}
								got := lib.EvalOpts(sharedExpr, in, lib.EnvOpts(nil)...)
								want := lib.EvalOpts(lib.Compile(src, copts...), in, lib.EnvOpts(nil)...)
								r.Eval()
								r.Eval()
								hist = append(hist, strings.Join(inAlts, "+"))
								r.State("choice-rebinding|" + mode)
								r.Nontrivial(mode, src, strings.Join(inAlts, "+"), got.String())
								if got.Panic != nil {
									r.Fail("choice-rebinding|"+mode+"|"+got.Panic.Key(), core.W{"src": src})
									break
								}
								if got.String() != want.String() {
									r.Fail("choice-rebinding|"+mode+"|result-differs-from-fresh-expression", core.W{"src": src, "inputs_so_far(value[x]+components)": hist, "reused_expression": got.String(), "fresh_expression": want.String()})
									break
								}
							}
						}
					}
				}},
				{Name: "malformed-specifiers", N: 1, Note: "wrong case, unknown namespace, three qualifiers, namespace/type mismatches x {is, as} x 15 syntactic positions", Run: func(i int, r *core.Rec) {
					bad := []string{"patient", "PATIENT", "humanname", "HumanNAME", "STRING", "Strings", "integer64", "System.string", "System.Patient", "FHIR.String", "FHIR.Integer", "FHIR.Any", "Foo.Patient", "fhir.Patient", "system.String",
						"FHIR.Patient.name", "System.String.x", "FHIR.FHIR.Patient", "NoSuchType", "FHIR.NoSuchType", "System.NoSuchType", "Patient_Contact", "Contact", "ValueX", "ReferenceId", "ContainedResource"}
					// the type test alone and wherever else an expression may stand: rejected by Compile in every position
					positions := []struct{ name, pre, post string }{
						{"alone", "", ""}, {"parenthesised", "(", ")"}, {"left-of-and", "", " and true"}, {"right-of-and", "true and ", ""}, {"right-of-or", "false or ", ""}, {"right-of-xor", "true xor ", ""},
						{"right-of-implies", "true implies ", ""}, {"right-of-=", "true = (", ")"}, {"right-of-&", "'x' & (", ").toString()"}, {"criterion", "Patient.name.where(", ")"}, {"argument", "iif(true, 1, ", ")"},
						{"second-argument", "iif(true, ", ", 1)"}, {"indexer", "Patient.name[iif(", ", 0, 1)]"}, {"nested-right", "true and (false or ", ")"}, {"receiver", "(", ").not()"},
					}
					for _, spec := range bad {
						for _, op := range []string{"is", "as"} {
							for _, pos := range positions {
								for _, operand := range []string{"1", "{}", "({})", "Patient.name", "'x'", "%context", "true"} {
									src := pos.pre + operand + " " + op + " " + spec + pos.post
									c := lib.Compile(src)
									r.Eval()
									r.State("malformed|" + op + "|" + pos.name)
									r.Nontrivial(src, c.Class())
									if pos.name == "alone" {
										r.Sample(core.W{"src": src, "outcome": c.Class()})
									}
									if c.Panic != nil {
										r.Fail("compile|malformed|"+pos.name+"|"+c.Panic.Key(), core.W{"src": src})
									} else if c.CompileErr == nil {
										k := "compile|malformed-type-specifier-accepted|" + spec
										if pos.name != "alone" {
											k += "|" + pos.name
										}
										r.Fail(k, core.W{"src": src, "position": pos.name})
									}
								}
							}
						}
					}
					// and the well-formed counterparts are accepted there
					for _, pos := range positions {
						src := pos.pre + "1 is Integer" + pos.post
						c := lib.Compile(src)
						r.Eval()
						if c.Panic != nil || c.CompileErr != nil {
							r.Fail("compile|well-formed-type-specifier-rejected|"+pos.name, core.W{"src": src, "outcome": c.Class()})
						}
					}
				}},
			}
		},
	})
}

func c12NameClass(name string) string {
	t := c12TypeUniverse()
	switch {
	case t.resources[name]:
		return "resource-name"
	case t.datatypes[name]:
		return "datatype:" + name
	}
	for up, low := range c12Primitives {
		if name == low {
			return "primitive"
		}
		if name == up {
			return "Primitive-uppercase"
		}
	}
	return "base-or-system:" + name
}

func c12DeclClass(ns, decl string) string {
	t := c12TypeUniverse()
	if ns == "System" {
		return "System." + decl
	}
	if t.resources[decl] {
		if c12Parent[decl] == "Resource" {
			return "resource-under-Resource"
		}
		return "resource"
	}
	return decl
}
