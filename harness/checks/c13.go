package checks

import (
	"fmt"
	"math/big"
	"regexp"
	"strings"

	dtpb "github.com/google/fhir/go/proto/google/fhir/proto/r4/core/datatypes_go_proto"
	ppb "github.com/google/fhir/go/proto/google/fhir/proto/r4/core/resources/patient_go_proto"
	"github.com/verily-src/fhirpath-go/fhirpath/system"
	"github.com/verily-src/fhirpath-go/fhirpath/verifh/core"
	"github.com/verily-src/fhirpath-go/fhirpath/verifh/lib"
	"github.com/verily-src/fhirpath-go/internal/fhir"
)

// ---- C13: conversion functions are mutually consistent and round-trip.

var c13Targets = []string{"Boolean", "Integer", "Decimal", "String", "Date", "DateTime", "Time", "Quantity"}

type c13Item struct {
	id    string
	v     any
	kind  string // System kind of the item (after FHIR primitive -> System mapping): Boolean, Integer, ..., complex
	class string // finer class used in keys
	str   string // string content when kind == String
	num   *big.Rat
	b     bool
}

var (
	reInt      = regexp.MustCompile(`^[+-]?[0-9]+$`)
	reDec      = regexp.MustCompile(`^[+-]?[0-9]+(\.[0-9]+)?$`)
	reQty      = regexp.MustCompile(`^([+-]?[0-9]+(\.[0-9]+)?)\s*('([^']+)'|([a-zA-Z]+))?$`)
	calKeyword = map[string]bool{"year": true, "years": true, "month": true, "months": true, "week": true, "weeks": true, "day": true, "days": true,
		"hour": true, "hours": true, "minute": true, "minutes": true, "second": true, "seconds": true, "millisecond": true, "milliseconds": true}
)

const (
	cYes = iota
	cNo
	cUndef
)

// c13StringConv: does the FHIRPath conversion table make string s convertible to target?
func c13StringConv(target, s string) int {
	switch target {
	case "Boolean":
		switch strings.ToLower(s) {
		case "true", "t", "yes", "y", "1", "1.0", "false", "f", "no", "n", "0", "0.0":
			return cYes
		}
		return cNo
	case "Integer":
		if reInt.MatchString(s) {
			v, _ := new(big.Int).SetString(strings.TrimPrefix(s, "+"), 10)
			if v.IsInt64() && v.Int64() >= -2147483648 && v.Int64() <= 2147483647 {
				return cYes
			}
		}
		return cNo
	case "Decimal":
		if reDec.MatchString(s) {
			return cYes
		}
		return cNo
	case "String":
		return cYes
	case "Date":
		if _, ok := lib.ParseRefT("Date", s); ok {
			return cYes
		}
		return cNo
	case "DateTime":
		if _, ok := lib.ParseRefT("Date", s); ok {
			return cYes // a (partial) date string is a valid partial DateTime
		}
		if strings.HasSuffix(s, "T") {
			if _, ok := lib.ParseRefT("DateTime", s); ok {
				return cUndef // trailing 'T' is literal syntax; the string format is not explicit about it
			}
			return cNo
		}
		if _, ok := lib.ParseRefT("DateTime", s); ok {
			return cYes
		}
		return cNo
	case "Time":
		if strings.HasPrefix(s, "T") {
			if _, ok := lib.ParseRefT("Time", s); ok {
				return cUndef
			}
			return cNo
		}
		if _, ok := lib.ParseRefT("Time", "T"+s); ok && !strings.HasPrefix(s, "T") {
			return cYes
		}
		return cNo
	case "Quantity":
		m := reQty.FindStringSubmatch(s)
		if m == nil {
			return cNo
		}
		if m[5] != "" && !calKeyword[m[5]] {
			return cNo
		}
		return cYes
	}
	return cUndef
}

// c13Conv: is item convertible to target per the conversion table?
func c13Conv(target string, it c13Item) int {
	if it.kind == "complex" {
		return cNo
	}
	if it.kind == "valueless" {
		return cUndef // an element without a value: only the relations between toT and convertsToT are judged
	}
	if it.kind == "String" {
		return c13StringConv(target, it.str)
	}
	if target == "String" {
		return cYes
	}
	switch target {
	case "Boolean":
		switch it.kind {
		case "Boolean":
			return cYes
		case "Integer", "Decimal":
			if it.num.Cmp(big.NewRat(1, 1)) == 0 || it.num.Sign() == 0 {
				return cYes
			}
			return cNo
		}
	case "Integer":
		if it.kind == "Integer" || it.kind == "Boolean" {
			return cYes
		}
	case "Decimal":
		if it.kind == "Integer" || it.kind == "Decimal" || it.kind == "Boolean" {
			return cYes
		}
	case "Date":
		if it.kind == "Date" || it.kind == "DateTime" {
			return cYes
		}
	case "DateTime":
		if it.kind == "Date" || it.kind == "DateTime" {
			return cYes
		}
	case "Time":
		if it.kind == "Time" {
			return cYes
		}
	case "Quantity":
		if it.kind == "Integer" || it.kind == "Decimal" || it.kind == "Quantity" || it.kind == "Boolean" {
			return cYes
		}
	}
	return cNo
}

func c13GoKind(v any) string {
	switch v.(type) {
	case system.Boolean:
		return "Boolean"
	case system.Integer:
		return "Integer"
	case system.Decimal:
		return "Decimal"
	case system.String:
		return "String"
	case system.Date:
		return "Date"
	case system.DateTime:
		return "DateTime"
	case system.Time:
		return "Time"
	case system.Quantity:
		return "Quantity"
	}
	return fmt.Sprintf("%T", v)
}

func c13Items() []c13Item {
	var out []c13Item
	for _, v := range append(append([]lib.Val{}, lib.SystemPool()...), lib.ElementPool()...) {
		it := c13Item{id: v.ID, v: v.V, class: v.Class}
		switch v.RKind {
		case "bool":
			it.kind, it.b = "Boolean", v.RBool
		case "num":
			it.kind, it.num = "Decimal", v.RNum
			if v.Kind == "Integer" || v.Kind == "fhir.integer" || v.Kind == "fhir.unsignedInt" || v.Kind == "fhir.positiveInt" {
				it.kind = "Integer"
			}
		case "str":
			it.kind, it.str = "String", v.RStr
			it.class = v.Class + "." + c13StrClass(v.RStr)
		case "temporal":
			it.kind = v.RT.Kind
		case "qty":
			it.kind = "Quantity"
		default:
			it.kind = "complex"
		}
		out = append(out, it)
	}
	// microsecond-precision elements: the System types keep milliseconds, and what they keep has to round-trip
	for _, us := range []struct {
		id, kind string
		v        any
	}{
		{"f.dt.us", "DateTime", lib.ProtoDateTime("2020-01-15T10:30:15.123456Z")}, {"f.dt.us.off", "DateTime", lib.ProtoDateTime("2020-01-15T10:30:15.000120+05:30")},
		{"f.instant.us", "DateTime", lib.ProtoInstant("2020-01-15T10:30:15.123456Z")}, {"f.instant.us.off", "DateTime", lib.ProtoInstant("2019-12-31T23:59:59.999999-11:00")},
		{"f.time.us", "Time", lib.ProtoTime("10:30:15.123456")}, {"f.time.us.lead0", "Time", lib.ProtoTime("23:59:59.000120")},
	} {
		out = append(out, c13Item{id: us.id, v: us.v, kind: us.kind, class: "fhir." + strings.ToLower(us.kind) + ".us"})
	}
	// date and partial dateTime elements read in a zone east or west of UTC (the proto is anchored at that zone's midnight)
	for _, v := range c15ExtraElements() {
		out = append(out, c13Item{id: v.ID, v: v.V, kind: v.RT.Kind, class: v.Class})
	}
	// quantities whose unit is empty or only human readable: still quantities, not Booleans or numbers
	for _, q := range []struct{ id, n, u string }{{"q1-emptyunit", "1", ""}, {"q0-emptyunit", "0", ""}, {"q1.0-emptyunit", "1.0", ""}, {"q0.00-emptyunit", "0.00", ""}, {"q2-emptyunit", "2", ""}} {
		out = append(out, c13Item{id: q.id, v: lib.Qty(q.n, q.u), kind: "Quantity", class: "qty.emptyunit"})
	}
	for _, q := range []struct{ id, n string }{{"f.qty.unitonly.1", "1"}, {"f.qty.unitonly.0", "0"}, {"f.qty.unitonly.0.00", "0.00"}, {"f.qty.unitonly.2", "2"}} {
		out = append(out, c13Item{id: q.id, v: &dtpb.Quantity{Value: &dtpb.Decimal{Value: q.n}, Unit: fhir.String("tablet")}, kind: "Quantity", class: "fhir.qty.unitonly"})
	}
	// Quantity elements whose code is a calendar keyword (singular / plural) or its UCUM counterpart, and System quantities
	// with the same units built without the repository's constructor: an element and the parse of what it prints are one value
	for _, u := range []string{"day", "days", "week", "weeks", "year", "years", "month", "hour", "hours", "minute", "second", "millisecond", "milliseconds", "d", "wk", "a", "mo", "h", "min", "s", "ms"} {
		out = append(out, c13Item{id: "f.qty.cal." + u, v: &dtpb.Quantity{Value: &dtpb.Decimal{Value: "3"}, Unit: fhir.String(u), Code: fhir.Code(u), System: fhir.URI("http://unitsofmeasure.org")}, kind: "Quantity", class: "fhir.qty.cal"})
		out = append(out, c13Item{id: "q.cal." + u, v: lib.Qty("3", u), kind: "Quantity", class: "qty.cal"})
	}
	// numbers strictly between -1 and 1 and just beyond (the integer part of the text is 0 or -0), as Decimal, as decimal
	// element, as Quantity
	for _, n := range []string{"-0.5", "-0.075", "-0.25", "-0.0", "-0.000000000000000001", "0.075", "-1.0", "-1.25", "-10.5", "-0.50"} {
		out = append(out, c13Item{id: "dec" + n, v: lib.Dec(n), kind: "Decimal", class: "dec.unit-interval", num: lib.RatOf(n)})
		out = append(out, c13Item{id: "f.dec" + n, v: &dtpb.Decimal{Value: n}, kind: "Decimal", class: "fhir.decimal.unit-interval", num: lib.RatOf(n)})
		out = append(out, c13Item{id: "qty" + n + "mg", v: lib.Qty(n, "mg"), kind: "Quantity", class: "qty.unit-interval"})
		out = append(out, c13Item{id: "f.qty" + n + "mg", v: &dtpb.Quantity{Value: &dtpb.Decimal{Value: n}, Unit: fhir.String("mg"), Code: fhir.Code("mg")}, kind: "Quantity", class: "fhir.qty.unit-interval"})
	}
	// elements that carry no value (only an id, an extension, a unit): whatever toT
	// makes of them, convertsToT has to agree and the result has to be a T
	ext := []*dtpb.Extension{{Url: fhir.URI("http://u"), Value: &dtpb.Extension_ValueX{Choice: &dtpb.Extension_ValueX_StringValue{StringValue: fhir.String("x")}}}}
	for _, vl := range []struct {
		id string
		v  any
	}{
		{"f.qty.novalue", &dtpb.Quantity{Unit: fhir.String("mg"), Code: fhir.Code("mg"), System: fhir.URI("http://unitsofmeasure.org")}},
		{"f.qty.nounit", &dtpb.Quantity{Value: &dtpb.Decimal{Value: "1.5"}}},
		{"f.qty.empty", &dtpb.Quantity{}},
		{"f.qty.badvalue", &dtpb.Quantity{Value: &dtpb.Decimal{Value: "abc"}, Unit: fhir.String("mg")}},
		{"f.str.extonly", &dtpb.String{Extension: ext}},
		{"f.bool.idonly", &dtpb.Boolean{Id: fhir.String("b1")}},
		{"f.dec.empty", &dtpb.Decimal{Extension: ext}},
		{"f.dec.bad", &dtpb.Decimal{Value: "abc"}},
		{"f.date.empty", &dtpb.Date{Extension: ext}},
		{"f.datetime.empty", &dtpb.DateTime{Extension: ext}},
		{"f.time.empty", &dtpb.Time{Extension: ext}},
		{"f.instant.empty", &dtpb.Instant{Extension: ext}},
		{"f.code.enum.unset", &ppb.Patient_GenderCode{}},
		{"f.age.novalue", &dtpb.Age{Unit: fhir.String("a")}},
		{"f.duration", &dtpb.Duration{Value: &dtpb.Decimal{Value: "2"}, Unit: fhir.String("h"), Code: fhir.Code("h"), System: fhir.URI("http://unitsofmeasure.org")}},
	} {
		out = append(out, c13Item{id: vl.id, v: vl.v, kind: "valueless", class: "fhir.valueless." + strings.TrimPrefix(vl.id, "f.")})
	}
	// string grammar
	add := func(class, s string) {
		out = append(out, c13Item{id: fmt.Sprintf("g%q", s), v: system.String(s), kind: "String", class: "str.g." + class, str: s})
	}
	for _, sign := range []string{"", "+", "-"} {
		for _, digs := range []string{"0", "1", "007", "42", "2147483647", "2147483648", "99999999999"} {
			for _, frac := range []string{"", ".0", ".50", ".", ".000000000000000000000000000001"} {
				for _, exp := range []string{"", "e3"} {
					for _, ws := range []string{"", "l", "t"} {
						s := sign + digs + frac + exp
						switch ws {
						case "l":
							s = " " + s
						case "t":
							s = s + " "
						}
						cls := "num"
						if frac == "." {
							cls = "num.baredot"
						} else if frac != "" {
							cls = "num.frac"
						}
						if exp != "" {
							cls += ".exp"
						}
						if ws != "" {
							cls += ".ws"
						}
						if sign != "" {
							cls += ".signed"
						}
						add(cls, s)
					}
				}
			}
		}
	}
	// spellings another number base would read differently: FHIRPath integers are base ten, a leading zero is just a zero
	for _, nb := range []string{"000000000042", "-00000000042", "0000000000000000000000000000002147483647", "08", "09", "010", "0017", "+08", "-010", "0x1F", "0X1f", "0b11", "0o17", "1_000", "1e2", "0x"} {
		add("num.base", nb)
	}
	for _, b := range []string{"true", "false", "t", "f", "yes", "no", "y", "n", "TRUE", "False", "Yes", "T", "F", "tru", "on", "off", "2", "1.00"} {
		add("bool", b)
	}
	for _, d := range []string{"2020", "2020-01", "2020-01-15", "2020-02-29", "2021-02-29", "2020-13-01", "2020-00-10", "2020-01-32", "2020-1-5", "20200115", "2020-01-15T", "2020T", "@2020", "@2020-01-15", "0001-01-01", "9999-12-31", "2020-01-15 ",
		"2020-01-15T10", "2020-01-15T10:30", "2020-01-15T10:30:15", "2020-01-15T10:30:15.250", "2020-01-15T10:30:15Z", "2020-01-15T10:30:15+05:30", "2020-01-15T10:30:15.250-11:00",
		"2020-01-15T24:00:00", "2020-01-15T10:60", "2020-01-15T10:30:60", "2020-01-15T10:30:15+15:00", "2020-01T10", "2020-01-15T1:30", "@2020-01-15T10:30:15Z", "2020-01-15T10:30:15.1234567Z"} {
		add("datetime", d)
	}
	for _, t := range []string{"10", "10:30", "10:30:15", "10:30:15.250", "00:00:00", "23:59:59.999", "24:00", "24:00:00", "10:60", "10:30:60", "1:30", "T10:30", "@T10:30", "10:30:15.25", "10:30:15Z", "10:30 "} {
		add("time", t)
	}
	// fractions finer than the millisecond a value keeps, at the last instant of a second, a minute, a day, a year:
	// whatever is kept has to print as itself (a rounding that carries into the next unit does not)
	for _, t := range []string{"23:59:59.9996", "23:59:59.99999", "10:15:59.9995", "10:59:59.9999", "00:00:00.0004", "23:59:59.9994"} {
		add("time.carry", t)
	}
	for _, d := range []string{"2020-12-31T23:59:59.9996", "2020-12-31T23:59:59.9996Z", "2020-02-29T23:59:59.99999+05:30", "2020-01-15T10:59:59.9995", "9999-12-31T23:59:59.9999Z"} {
		add("datetime.carry", d)
	}
	for _, q := range []string{"5", "5 'mg'", "5 mg", "5 days", "5days", "5 day", "'mg'", "+5.0 'kg'", "-5.5 'mg'", "5 'mg' ", "5  'mg'", "5 ''", "5 weeks", "5 wk", "5 'wk'", "1.5 hours", "5 Days", ".5 'mg'", "5. 'mg'", "5 'mg' x",
		// unquoted units may be letters only: brackets, underscores, carets and back-ticks (common in UCUM codes) need the quotes
		"120 mm[Hg]", "1 [in_i]", "5 m_s", "5 a^b", "7 [degF]", "3 a`b", "5mm[Hg]", "5 m\\s", "120 'mm[Hg]'", "1 '[in_i]'"} {
		add("quantity", q)
	}
	return out
}

// calls of the conversion histories, the argument-less ones first
var c13HistCalls = func() []string {
	var out []string
	for _, T := range c13Targets {
		out = append(out, "to"+T+"()")
	}
	for _, T := range c13Targets {
		out = append(out, "convertsTo"+T+"()")
	}
	// the capitalised spellings come first: whether a unit argument is accepted must not depend on the texts converted before
	for _, u := range []string{"'Days'", "'HOURS'", "'mg'", "'days'", "'hours'", "'years'", "'1'", "'wk'"} {
		out = append(out, "toQuantity("+u+")", "convertsToQuantity("+u+")")
	}
	return out
}()

func c13CallName(c string) string {
	if i := strings.Index(c, "("); i >= 0 && !strings.HasSuffix(c, "()") {
		return c[:i] + "(unit)"
	}
	return c
}

// receivers of the conversion histories: one item per (kind, class) of the item list plus quantity and calendar texts
func c13HistReceivers(items []c13Item) []c13Item {
	var out []c13Item
	seen := map[string]bool{}
	for _, it := range items {
		k := it.kind + "|" + it.class
		if seen[k] {
			continue
		}
		seen[k] = true
		out = append(out, it)
	}
	for _, s := range []string{"3 days", "48 hours", "1 week", "2 'wk'", "5 'mg'", "1 year", "36 months", "90 minutes", "1.5 hours", "7", "7.0", "true", "2020-01-15", "10:30", "3 Days", "2 HOURS", "1 Year", "72 hours"} {
		out = append(out, c13Item{id: fmt.Sprintf("h%q", s), v: system.String(s), kind: "String", class: "str.hist." + c13StrClass(s), str: s})
	}
	for _, q := range [][2]string{{"3", "days"}, {"48", "hours"}, {"1", "week"}, {"2", "wk"}, {"5", "mg"}} {
		out = append(out, c13Item{id: "hq" + q[0] + q[1], v: lib.Qty(q[0], q[1]), kind: "Quantity", class: "qty.hist"})
	}
	return out
}

// c13Shape: a run of digits as 9, a run of letters as a (T, Z, e kept: they are syntax), everything else as written
func c13Shape(s string) string {
	var b strings.Builder
	last := rune(0)
	for _, ch := range s {
		if (ch >= '0' && ch <= '9' && last == '9') || (last == 'a' && (ch >= 'a' && ch <= 'z' || ch >= 'A' && ch <= 'Z') && ch != 'T' && ch != 'Z' && ch != 'e') {
			continue // runs of digits and of letters count once
		}
		last = 0
		switch {
		case ch >= '0' && ch <= '9':
			last = '9'
			b.WriteByte('9')
		case ch == 'T' || ch == 'Z' || ch == 'e':
			b.WriteRune(ch)
		case ch >= 'a' && ch <= 'z' || ch >= 'A' && ch <= 'Z':
			last = 'a'
			b.WriteByte('a')
		case ch == '|' || ch == '*':
			b.WriteByte('?')
		default:
			b.WriteRune(ch)
		}
	}
	return b.String()
}

func c13StrClass(s string) string {
	switch {
	case s == "":
		return "empty"
	case reInt.MatchString(s):
		return "intlike"
	case reDec.MatchString(s):
		return "declike"
	}
	return "other"
}

func init() {
	core.Register(&core.Check{
		ID:          "C13",
		Rule:        "every item of the value pool V u E, 15 elements without a usable value (Quantity without value / unit, primitives holding only an id or an extension, unparsable decimal text, unset enum code; relations only, no table) plus a finite string grammar (signed/unsigned numbers x fraction x exponent x whitespace; Boolean spellings; date/time texts incl. calendar-invalid ones; quantity texts) x 8 target types: convertsToT = toT().exists(), unconvertible -> empty, result type, idempotence, toString round trip (for x of type T and for every conversion result), and agreement with the FHIRPath conversion table; non-trivial = distinct (item, target, outcome)",
		Assumptions: []string{"conversion table and string formats transcribed from FHIRPath N1 section 5.5", "date/time strings with the literal-only trailing 'T' / leading 'T' are left undefined (totality only); a leading '@' is not part of the string format"},
		Subs: func(tier string) []core.Sub {
			items := c13Items()
			hist := c13HistReceivers(items)
			return []core.Sub{
				// runs first: a conversion memo that lives in the process must be empty when the reference pass starts
				{Name: "conversion-histories", N: len(hist), Note: fmt.Sprintf("%d receivers x (%d calls once, then every call after every other call): each call's result is a function of the receiver and the call alone", len(hist), len(c13HistCalls)), Run: func(i int, r *core.Rec) {
					it := hist[i]
					run := func(c string) string {
						r.Eval()
						return lib.Run("%x."+c, nil, map[string]any{"x": it.v}).String()
					}
					ref := map[string]string{}
					for _, c := range c13HistCalls { // simplest first: the argument-less conversions are recorded before any call with an argument ran
						ref[c] = run(c)
					}
					r.State("hist|" + it.kind + "|" + it.class)
					for _, before := range c13HistCalls {
						run(before)
						for _, c := range c13HistCalls {
							got := run(c)
							r.Nontrivial(it.id, before, c, got)
							if got != ref[c] {
								r.Fail(fmt.Sprintf("conversion-history|%s|%s|after=%s", c13CallName(c), it.class, c13CallName(before)), core.W{"item": it.id, "call": c, "after": before, "first_result": core.Short(ref[c], 160), "result_now": core.Short(got, 160)})
							}
						}
					}
				}},
				{Name: "items", N: len(items), Note: fmt.Sprintf("%d items x 8 targets", len(items)), Run: func(i int, r *core.Rec) {
					it := items[i]
					env := func() map[string]any { return map[string]any{"x": it.v} }
					for _, T := range c13Targets {
						to := lib.Run("%x.to"+T+"()", nil, env())
						cv := lib.Run("%x.convertsTo"+T+"()", nil, env())
						r.Eval()
						r.Eval()
						want := c13Conv(T, it)
						r.State(fmt.Sprintf("%s|%s|%s|conv=%d", T, it.kind, it.class, want))
						r.Outcome(T + "|" + to.Class() + "|" + cv.Class())
						r.Nontrivial(it.id, T, to.Class(), cv.String())
						if r.WantSample() {
							r.Sample(core.W{"item": it.id, "target": T, "toT": to.String(), "convertsToT": cv.String()})
						}
						key := func(clause, d string) string {
							if clause == "table" && it.kind == "String" {
								// which strings a lenient or strict parser gets wrong is part of the finding: the shape of the text
								// (digits as 9, letters as a, everything else as written) goes into the key
								d += "|shape=" + c13Shape(it.str)
							}
							return fmt.Sprintf("%s|%s|%s|%s", clause, T, it.class, d)
						}
						w := func() core.W {
							return core.W{"item": it.id, "target": T, "toT": to.String(), "convertsToT": cv.String(), "table_says_convertible": map[int]string{cYes: "yes", cNo: "no", cUndef: "undefined"}[want]}
						}
						if to.Panic != nil {
							r.Fail(key("to", to.Panic.Key()), w())
							continue
						}
						if cv.Panic != nil {
							r.Fail(key("convertsTo", cv.Panic.Key()), w())
							continue
						}
						if cv.CompileErr != nil {
							r.Fail("convertsTo-not-callable|"+T, w())
						}
						if to.CompileErr != nil {
							r.Fail("to-not-callable|"+T, w())
							continue
						}
						exists := to.Err == nil && len(to.Coll) > 0
						// (1) convertsToT = toT().exists()
						if cv.CompileErr == nil {
							cvb, isB := false, false
							if cv.Err == nil && len(cv.Coll) == 1 {
								if b, ok := cv.Coll[0].(system.Boolean); ok {
									cvb, isB = bool(b), true
								}
							}
							if !isB {
								r.Fail(key("convertsTo-not-boolean", cv.Class()), w())
							} else if cvb != exists {
								r.Fail(key("convertsTo!=to.exists", fmt.Sprintf("convertsTo=%v,to=%s", cvb, to.Class())), w())
							}
						}
						// (2) unconvertible -> empty, never an error / other type; (6) table
						if to.Err != nil {
							r.Fail(key("to-errors", fmt.Sprintf("table=%d", want)), w())
							continue
						}
						if want == cYes && !exists {
							r.Fail(key("table", "convertible-but-empty"), w())
						}
						if want == cNo && exists {
							r.Fail(key("table", "unconvertible-but-value"), w())
						}
						if !exists {
							continue
						}
						// (3) result is of type T, single item
						if len(to.Coll) != 1 || c13GoKind(to.Coll[0]) != T {
							r.Fail(key("result-type", "got="+c13GoKind(to.Coll[0])), w())
							continue
						}
						// (4) converting twice equals converting once
						twice := lib.Run("%x.to"+T+"().to"+T+"()", nil, env())
						r.Eval()
						if !(twice.OK() && len(twice.Coll) == 1 && lib.Show(twice.Coll[0]) == lib.Show(to.Coll[0])) {
							r.Fail(key("idempotence", twice.Class()), core.W{"item": it.id, "once": to.String(), "twice": twice.String()})
						}
						// (5b) the result y of the conversion is a value of type T, so y.toString().toT() = y as well
						if T != "String" && it.kind != "valueless" {
							rt2 := lib.Run("%x.to"+T+"().toString().to"+T+"() = %x.to"+T+"()", nil, env())
							r.Eval()
							if !(rt2.OK() && len(rt2.Coll) == 1 && rt2.Coll[0] == system.Boolean(true)) {
								str := lib.Run("%x.to"+T+"().toString()", nil, env())
								d := rt2.Class()
								if q, isQ := to.Coll[0].(system.Quantity); isQ {
									// the unit the result carries is part of the discrepancy: unit '1' and the empty unit are recorded findings
									parts := strings.SplitN(q.String(), " ", 2)
									unit := ""
									if len(parts) == 2 {
										unit = parts[1]
									}
									d += "|unit=" + unit
								}
								r.Fail(key("result-string-round-trip", d), core.W{"item": it.id, "toT": to.String(), "toT.toString": str.String(), "toT.toString().toT()=toT": rt2.String()})
							}
						}
						// (5) x already of type T: x.toString().toT() = x
						if it.kind == T {
							rt := lib.Run("%x.toString().to"+T+"() = %x", nil, env())
							r.Eval()
							if !(rt.OK() && len(rt.Coll) == 1 && rt.Coll[0] == system.Boolean(true)) {
								str := lib.Run("%x.toString()", nil, env())
								r.Fail(key("string-round-trip", rt.Class()), core.W{"item": it.id, "toString": str.String(), "x.toString().toT()=x": rt.String()})
							}
						}
					}
				}},
				{Name: "quantity-unit-arg", N: 6, Note: "toQuantity(unit) / convertsToQuantity(unit) consistency over 6 units x numeric and quantity-string items", Run: func(i int, r *core.Rec) {
					unit := []string{"'mg'", "'days'", "'hours'", "'years'", "'1'", "'wk'"}[i]
					for _, x := range []string{"5", "5.5", "'5 days'", "'48 hours'", "'5'", "'5 ''mg'''", "true", "1 'mg'", "'abc'"} {
						if strings.Contains(x, "''") {
							continue
						}
						to := lib.Run(x+".toQuantity("+unit+")", nil, nil)
						cv := lib.Run(x+".convertsToQuantity("+unit+")", nil, nil)
						r.Eval()
						r.Eval()
						r.State("unitarg|" + unit)
						r.Nontrivial(x, unit, to.Class(), cv.String())
						w := core.W{"x": x, "unit": unit, "toQuantity": to.String(), "convertsToQuantity": cv.String()}
						if to.Panic != nil || cv.Panic != nil {
							d := "panic"
							if to.Panic != nil {
								d = to.Panic.Key()
							} else {
								d = cv.Panic.Key()
							}
							r.Fail("unit-arg|"+d, w)
							continue
						}
						if to.CompileErr != nil || cv.CompileErr != nil {
							continue
						}
						exists := to.Err == nil && len(to.Coll) > 0
						if cv.Err == nil && len(cv.Coll) == 1 {
							if b, ok := cv.Coll[0].(system.Boolean); ok && bool(b) != exists {
								r.Fail(fmt.Sprintf("unit-arg|convertsTo!=to.exists|convertsTo=%v,to=%s", bool(b), to.Class()), w)
							}
						}
						if exists && c13GoKind(to.Coll[0]) != "Quantity" {
							r.Fail("unit-arg|result-type|got="+c13GoKind(to.Coll[0]), w)
						}
					}
				}},
			}
		},
	})
}
