package checks

import (
	"crypto/sha256"
	"encoding/hex"
	"encoding/json"
	"fmt"
	dtpb "github.com/google/fhir/go/proto/google/fhir/proto/r4/core/datatypes_go_proto"
	opb "github.com/google/fhir/go/proto/google/fhir/proto/r4/core/resources/observation_go_proto"
	orgpb "github.com/google/fhir/go/proto/google/fhir/proto/r4/core/resources/organization_go_proto"
	ppb "github.com/google/fhir/go/proto/google/fhir/proto/r4/core/resources/patient_go_proto"
	perpb "github.com/google/fhir/go/proto/google/fhir/proto/r4/core/resources/person_go_proto"
	qrpb "github.com/google/fhir/go/proto/google/fhir/proto/r4/core/resources/questionnaire_response_go_proto"
	"github.com/verily-src/fhirpath-go/fhirpath/verifh/ftab"
	"google.golang.org/protobuf/proto"
	"google.golang.org/protobuf/reflect/protoreflect"
	"os"
	"os/exec"
	"sort"
	"strings"
	"time"

	"github.com/verily-src/fhirpath-go/fhirpath"
	"github.com/verily-src/fhirpath-go/fhirpath/compopts"
	"github.com/verily-src/fhirpath-go/fhirpath/evalopts"
	"github.com/verily-src/fhirpath-go/fhirpath/internal/expr"
	"github.com/verily-src/fhirpath-go/fhirpath/patch"
	"github.com/verily-src/fhirpath-go/fhirpath/system"
	"github.com/verily-src/fhirpath-go/fhirpath/verifh/core"
	"github.com/verily-src/fhirpath-go/fhirpath/verifh/lib"
	"github.com/verily-src/fhirpath-go/internal/fhir"
)

// ---- C04: compiled expressions are immutable, deterministic and goroutine-safe.
//
// Sub-spaces decided inside this binary: Compile histories, Evaluate
// histories, clock, process time zone. The schedule exploration (controlled
// cooperative scheduler over an instrumented copy of the tree) and the
// free-running -race pass are separate binaries built by ./check against the
// instrumented / race-enabled tree; their sub-spaces call them.

// one call of the Compile-history alphabet
type c04Call struct {
	name string
	do   func() (outcome string) // observable outcome of the call itself
	want string                  // outcome the statement itself fixes ("" = only history-independence is judged)
}

func c04Fn(tag int) func(system.Collection) (system.Collection, error) {
	return func(system.Collection) (system.Collection, error) {
		return system.Collection{system.Integer(int32(tag))}, nil
	}
}

func c04Outcome(e *fhirpath.Expression, err error) string {
	if err != nil {
		return "error"
	}
	res, everr := e.Evaluate([]fhir.Resource{lib.Patient()}, evalopts.OverrideTime(lib.PinnedNow))
	if everr != nil {
		return "compiled;eval-error"
	}
	return "compiled;" + lib.ShowColl(res)
}

func c04Calls() []c04Call {
	return []c04Call{
		{name: "Compile(plain)", do: func() string { return c04Outcome(fhirpath.Compile("Patient.name.where(use = 'official').count()")) }},
		{name: "Compile(a(), AddFunction a)", do: func() string { return c04Outcome(fhirpath.Compile("a()", compopts.AddFunction("a", c04Fn(1)))) }},
		{name: "Compile(a(), AddFunction a') ", do: func() string { return c04Outcome(fhirpath.Compile("a()", compopts.AddFunction("a", c04Fn(2)))) }},
		{name: "Compile(b(), AddFunction b)", do: func() string { return c04Outcome(fhirpath.Compile("b()", compopts.AddFunction("b", c04Fn(3)))) }},
		{name: "Compile(where, AddFunction where)", want: "error", do: func() string {
			return c04Outcome(fhirpath.Compile("Patient.name.where(true).count()", compopts.AddFunction("where", c04Fn(4))))
		}},
		{name: "Compile(join, AddFunction join)", do: func() string { return c04Outcome(fhirpath.Compile("join()", compopts.AddFunction("join", c04Fn(5)))) }},
		{name: "Compile(join, Experimental)", do: func() string {
			return c04Outcome(fhirpath.Compile("Patient.name.given.join(',')", compopts.WithExperimentalFuncs()))
		}},
		{name: "Compile(AddFunction join + Experimental)", do: func() string {
			return c04Outcome(fhirpath.Compile("join()", compopts.AddFunction("join", c04Fn(6)), compopts.WithExperimentalFuncs()))
		}},
		// "built-in functions can be neither replaced nor altered": a name that is taken - by the base table, by the
		// experimental table once it is switched on, or by an earlier option of the same call - is rejected
		{name: "Compile(Experimental + AddFunction join)", want: "error", do: func() string {
			return c04Outcome(fhirpath.Compile("Patient.name.given.join()", compopts.WithExperimentalFuncs(), compopts.AddFunction("join", c04Fn(8))))
		}},
		{name: "Compile(AddFunction tag twice)", want: "error", do: func() string {
			return c04Outcome(fhirpath.Compile("tag()", compopts.AddFunction("tag", c04Fn(9)), compopts.AddFunction("tag", c04Fn(10))))
		}},
		{name: "Compile(Permissive)", do: func() string { return c04Outcome(fhirpath.Compile("Patient.name.noSuchField", compopts.Permissive())) }},
		{name: "patch.Compile", do: func() string {
			e, err := patch.Compile("Patient.name[0]")
			if err != nil {
				return "error"
			}
			p := lib.Patient()
			if err := e.Delete(p); err != nil {
				return "compiled;delete-error"
			}
			return fmt.Sprintf("compiled;names=%d", len(p.Name))
		}},
		{name: "patch.Compile(AddFunction a, Transform)", do: func() string {
			_, err := patch.Compile("a()", compopts.AddFunction("a", c04Fn(7)), compopts.Transform(func(e expr.Expression) expr.Expression { return e }))
			return fmt.Sprint(err != nil)
		}},
	}
}

// the observable state of the process as far as Compile is concerned
func c04State() string {
	var sb strings.Builder
	for _, probe := range []string{"a()", "b()", "join()", "Patient.name.given.join(',')", "Patient.name.where(true).count()", "5.toQuantity()", "1.noSuchFn()"} {
		e, err := fhirpath.Compile(probe)
		sb.WriteString(probe + "=>" + c04Outcome(e, err) + "\n")
	}
	sb.WriteString(ftab.Snapshot(ftab.Table(false)))
	sb.WriteString("|exp|" + ftab.Snapshot(ftab.Table(true)))
	return sb.String()
}

var c04InitialState = c04State() // taken at process start, before any other Compile

type c04Ev struct {
	src  string
	res  string // resource name
	opts string
}

func c04Hash(s string) string {
	h := sha256.Sum256([]byte(s))
	return hex.EncodeToString(h[:8])
}

// ---- time zone digest (run in sub-processes with different TZ)

var c04TZPrograms = []string{
	"now()", "today()", "timeOfDay()", "now() = now()", "today() = now().toString().substring(0, 10).toDate()", "@2020-01-01T10:00:00Z = @2020-01-01T15:30:00+05:30", "@2020-01-01T23:30:00-11:00 < @2020-01-02T10:00:00Z",
	"@2020-01-01T10:00:00Z + 14 hours", "@2020-03-08T01:30:00-08:00 + 1 hour", "@2020-01-01 + 1 day", "@2020-01-01T00:00:00 - 1 second", "@T23:30 + 45 minutes", "Patient.birthDate", "Patient.birthDate.toString()", "Patient.birthDate < today()",
	"Observation.effective", "Observation.effective.toString()", "Observation.issued.toString()", "Observation.effective < now()", "Observation.issued > @2020-01-15T10:30:15Z", "Observation.effective = @2020-01-15T05:00:15Z",
	"@2020-01-01T10:00:00.000Z.toString()", "'2020-01-01T10:00:00+05:30'.toDateTime()", "'2020-06-01'.toDate().toDateTime()", "@2020-06-01T.toString()", "@2020-10-25T02:30:00+01:00 - 60 minutes", "@2021-03-28T01:59:59Z + 1 second",
	"now() - 1 day < now()", "today() + 1 month", "timeOfDay() = timeOfDay()", "now().toString()", "today().toString()", "timeOfDay().toString()",
}

var c04Instants = []time.Time{
	time.Date(2021, 3, 4, 5, 6, 7, 89000000, time.UTC),
	{}, // the zero time is an instant like any other
	time.Time{}.In(time.FixedZone("", 19800)), // ... in any zone
	time.Date(2021, 3, 4, 5, 6, 7, 89000000, time.FixedZone("", 3600)),
	time.Date(2020, 2, 29, 23, 59, 59, 999000000, time.FixedZone("", -11*3600)),
	time.Date(2019, 12, 31, 23, 59, 59, 0, time.FixedZone("", 5*3600+1800)),
	time.Date(2020, 1, 1, 0, 0, 0, 0, time.UTC),
	time.Date(2020, 3, 8, 2, 30, 0, 0, time.FixedZone("", -8*3600)),
	time.Date(2024, 2, 29, 12, 0, 0, 500000000, time.FixedZone("", 14*3600)),
	time.Date(1999, 12, 31, 0, 0, 0, 1000000, time.FixedZone("", -3*3600-1800)),
	time.Date(2038, 1, 19, 3, 14, 8, 0, time.UTC),
	time.Date(1970, 1, 1, 0, 0, 0, 0, time.UTC),
	time.Date(2021, 10, 31, 1, 30, 0, 0, time.FixedZone("", 3600)),
	time.Date(2000, 6, 15, 12, 34, 56, 789000000, time.FixedZone("", 12*3600+2700)),
}

// TZDigest evaluates the battery with every override instant and returns one line per evaluation.
func TZDigest() []string {
	var out []string
	for _, src := range c04TZPrograms {
		e, err := fhirpath.Compile(src)
		if err != nil {
			out = append(out, src+" => COMPILE-ERROR")
			continue
		}
		for _, t := range c04Instants {
			for _, in := range [][]fhir.Resource{{lib.Patient()}, {lib.Observation()}} {
				res, err := e.Evaluate(in, evalopts.OverrideTime(t))
				if err != nil {
					out = append(out, src+" => ERROR")
				} else {
					out = append(out, fmt.Sprintf("%s @%s => %s", src, t.Format(time.RFC3339Nano), lib.ShowColl(res)))
				}
			}
		}
	}
	return append(out, c04TZSpace()...)
}

// ---- external engines (schedule explorer, race pass)

type c04External struct {
	Scenario   string `json:"scenario"`
	Executions int64  `json:"executions"`
	Points     []int  `json:"points_per_thread"`
	Bound      int    `json:"preemption_bound"`
	Exhaustive bool   `json:"exhaustive"`
	Outcomes   int    `json:"distinct_observation_vectors"`
	Sites      int    `json:"distinct_sites"`
	Findings   []struct {
		Key     string         `json:"key"`
		Witness map[string]any `json:"witness"`
	} `json:"findings"`
	Blocked int    `json:"schedules_abandoned_blocked"`
	Note    string `json:"note"`
}

func c04RunExternal(r *core.Rec, envVar string, args ...string) *c04External {
	bin := os.Getenv(envVar)
	if bin == "" {
		panic("harness: " + envVar + " is not set (./check C04 builds the scheduler and race binaries)")
	}
	cmd := exec.Command(bin, args...)
	cmd.Env = append(os.Environ(), "GOTRACEBACK=single")
	// the external engine reports only at the end: keep the hang watchdog fed while it runs, up to a generous limit
	stop := make(chan struct{})
	go func() {
		limit := time.After(3 * time.Hour)
		tick := time.NewTicker(5 * time.Second)
		defer tick.Stop()
		for {
			select {
			case <-stop:
				return
			case <-limit:
				cmd.Process.Kill()
				return
			case <-tick.C:
				r.Beat()
			}
		}
	}()
	out, err := cmd.Output()
	close(stop)
	res := &c04External{}
	if jerr := json.Unmarshal(out, res); jerr != nil {
		stderr := ""
		if ee, ok := err.(*exec.ExitError); ok {
			stderr = string(ee.Stderr)
		}
		panic(fmt.Sprintf("harness: %s %v produced no result: %v %v\n%s\n%s", bin, args, err, jerr, core.Short(string(out), 500), core.Short(stderr, 2000)))
	}
	return res
}

func init() {
	calls := c04Calls()
	resources := map[string]func() []fhir.Resource{
		"Patient":              func() []fhir.Resource { return []fhir.Resource{lib.Patient()} },
		"Observation":          func() []fhir.Resource { return []fhir.Resource{lib.Observation()} },
		"Bundle":               func() []fhir.Resource { return []fhir.Resource{lib.Bundle()} },
		"PatientWithContained": func() []fhir.Resource { return []fhir.Resource{lib.PatientWithContained()} },
	}
	evSrcs := []string{"Patient.name.where(use = 'official').given", "Bundle.entry.resource.name.select(given.first() & ' ' & family)", "now() > @2020-01-01T00:00:00Z and today() = now().toString().substring(0,10).toDate()",
		"%v + 1", "Patient.name.given[%v]", "Patient.active and true", "Patient.active.not() or false", "Patient.contained.id", "Patient.contained.code.coding.code", "%col.where($this is Integer and $this > %v)", "%col.skip(1).select($this.toString()).exists($this = '2')", "Observation.value.value * 2", "Patient.name.given.distinct().count()", "iif(%context.id.exists(), %context.id, 'none')", "Patient.name.all(given.count() > 0) and Patient.telecom.rank.exists($this > 1)",
		"Patient.children().join(',')", "Patient.name.given.join(' ')", "%col.join('-')"}
	optNames := []string{"v=1", "v=2"}
	// col: a caller-owned collection; the history shares one, the isolated reference gets a fresh one
	newCol := func() system.Collection {
		return system.Collection{system.Integer(1), system.Integer(2), system.Integer(3), system.String("x")}
	}
	mkOpts := func(o string, col system.Collection) []fhirpath.EvaluateOption {
		v := system.Integer(1)
		if o == "v=2" {
			v = 2
		}
		return []fhirpath.EvaluateOption{evalopts.OverrideTime(lib.PinnedNow), evalopts.EnvVariable("v", v), evalopts.EnvVariable("col", col)}
	}
	var evAlphabet []c04Ev
	for _, s := range evSrcs {
		for _, rn := range []string{"Patient", "Observation", "Bundle", "PatientWithContained"} {
			for _, o := range optNames {
				evAlphabet = append(evAlphabet, c04Ev{s, rn, o})
			}
		}
	}
	scenarios := []string{"S1-where", "S1-select", "S1-all", "S1-now", "S1-env", "S1-isas", "S1-arith", "S1-custom", "S1-custom-nested", "S2-compile-addfunction", "S3-patch-shared-expression", "S4-evaluate-vs-compile-experimental", "S5-three-threads", "S6-division-scales", "S6-division-decimal", "S6-conversions", "S6-types", "S6-strings", "S7-microsecond-elements"}

	core.Register(&core.Check{
		ID:          "C04",
		Rule:        "schedules: preemption-bounded depth-first exploration (bound 2 quick / 3 thorough, iterated 0,1,2,...) of every interleaving of 2-3 threads at the scheduling points the instrumenter inserts at every function entry, loop iteration and package-level variable access of the current tree (controlled cooperative scheduler, executions run to completion, prefix replay checked), for 19 scenarios (shared compiled expression x shared resource for every node kind, different expressions side by side (divisions at different scales, conversions, type tests, regular expressions), custom functions incl. nested calls, Compile with AddFunction/WithExperimentalFuncs in parallel, a shared patch expression on two resources, 3 threads); per execution: each thread's observation equals its isolated observation, no write to a package-level variable, inputs unchanged. Compile histories: every sequence of length <=3 (quick) / <=4 (thorough) over a 13-call alphabet (plain, AddFunction fresh/again/built-in name/experimental name, WithExperimentalFuncs, Permissive, patch.Compile, Transform): the observable Compile state (probe programs + reflective table snapshot) never leaves the initial state and each call's outcome equals its outcome in the empty history. Evaluate histories: every sequence of length <=2 (quick) / <=3 (thorough) over 112 (expression, resource, options) evaluations (4 inputs incl. a Patient with a contained resource), two of them over a caller-owned collection that the whole history shares; in a second pass the caller overwrites every returned collection and edits returned copies, and later results must be unaffected on shared compiled expressions: each result equals the isolated result and earlier results are unchanged afterwards. Process histories: every rotation of a 170-odd element alphabet, one fresh process each, so that every ordered pair of calls occurs with the first before the second; each outcome must equal the outcome of that call as the first call of a fresh process (catches process-wide memo tables and caches keyed too coarsely). Clock: now()/today()/timeOfDay() programs x 14 override instants (incl. the zero time) denote exactly the override; the whole date/time battery gives identical results under TZ in {UTC, Asia/Kolkata, America/St_Johns, Pacific/Chatham}. A free-running -race pass of the scenario bodies (a sample of OS schedules, labelled as such) can only add violations; non-trivial = distinct (history | schedule, observation vector)",
		Assumptions: []string{"scheduling points are function entries, loop iterations and package-variable accesses; finer-grained unsynchronised accesses are only seen by the free-running -race pass", "more than 3 threads and more than 3 preemptions are not explored"},
		Subs: func(tier string) []core.Sub {
			histLen, evLen := 3, 2
			if tier == "thorough" {
				histLen, evLen = 4, 3
			}
			nHist := c10Count(len(calls), histLen)
			nEv := c10Count(len(evAlphabet), evLen)
			// evaluate histories are sharded by their first element
			return []core.Sub{
				{Name: "compile-histories", N: nHist, Note: fmt.Sprintf("all %d sequences of length <=%d over %d Compile calls", nHist, histLen, len(calls)), Run: func(i int, r *core.Rec) {
					seq := c10Seq(i, len(calls))
					isolated := make([]string, len(calls))
					// outcomes in the empty history were recorded at worker start
					for k := range calls {
						isolated[k] = c04IsolatedOutcomes()[k]
					}
					var hist []string
					for _, ci := range seq {
						out := calls[ci].do()
						r.Eval()
						hist = append(hist, calls[ci].name)
						if calls[ci].want != "" && out != calls[ci].want {
							r.Fail("compile-history|call-outcome-contradicts-the-statement|"+calls[ci].name, core.W{"history": hist, "outcome": out, "want": calls[ci].want})
						}
						if out != isolated[ci] {
							r.Fail("compile-history|call-outcome-depends-on-history|"+calls[ci].name, core.W{"history": hist, "outcome": out, "outcome_in_empty_history": isolated[ci]})
						}
						if st := c04State(); st != c04InitialState {
							r.Fail("compile-history|observable-compile-state-changed|after="+calls[ci].name, core.W{"history": hist, "state_hash": c04Hash(st), "initial_hash": c04Hash(c04InitialState), "diff": c04FirstDiff(c04InitialState, st)})
							break
						}
					}
					r.State("compile-state|" + c04Hash(c04State()))
					r.Outcome(fmt.Sprintf("len=%d", len(seq)))
					r.Nontrivial(strings.Join(hist, ";"))
					if r.WantSample() {
						r.Sample(core.W{"history": hist})
					}
				}},
				{Name: "evaluate-histories", N: nEv, Note: fmt.Sprintf("all %d sequences of length <=%d over %d evaluations of shared compiled expressions", nEv, evLen, len(evAlphabet)), Run: func(i int, r *core.Rec) {
					seq := c10Seq(i, len(evAlphabet))
					shared := c04SharedExprs(evSrcs)
					type done struct {
						ev   c04Ev
						coll system.Collection
						show string
					}
					var earlier []done
					var hist []string
					sharedCol := newCol() // owned by the caller for the whole history
					for _, ei := range seq {
						ev := evAlphabet[ei]
						hist = append(hist, fmt.Sprintf("%s on %s with %s", ev.src, ev.res, ev.opts))
						e := shared[ev.src]
						if e == nil {
							continue
						}
						coll, err := e.Evaluate(resources[ev.res](), mkOpts(ev.opts, sharedCol)...)
						r.Eval()
						got := lib.ShowColl(coll)
						if err != nil {
							got = "ERROR"
						}
						// the isolated result: a freshly compiled expression
						fresh, _ := c04Compile(ev.src)
						wc, werr := fresh.Evaluate(resources[ev.res](), mkOpts(ev.opts, newCol())...)
						want := lib.ShowColl(wc)
						if werr != nil {
							want = "ERROR"
						}
						if got != want {
							r.Fail("evaluate-history|result-depends-on-history", core.W{"history": hist, "got": got, "isolated": want})
						}
						for _, d := range earlier {
							if lib.ShowColl(d.coll) != d.show {
								r.Fail("evaluate-history|earlier-result-changed-by-later-evaluation", core.W{"history": hist, "earlier": d.ev.src, "was": d.show, "now": lib.ShowColl(d.coll)})
							}
						}
						earlier = append(earlier, done{ev, coll, lib.ShowColl(coll)}) // the collection as returned (nil after an error)
					}
					// second pass over the same history: the caller now treats every result as its own - it overwrites the
					// slots of the returned collection and edits returned elements that are not nodes of its input (decoded
					// copies). Later evaluations must still give what they give in a process where nobody did that.
					ref := c04EvReference(evAlphabet, shared, resources, mkOpts, newCol)
					var hist2 []string
					kept := map[string][]fhir.Resource{} // the caller keeps its resources for the whole history
					for _, ei := range seq {
						ev := evAlphabet[ei]
						hist2 = append(hist2, fmt.Sprintf("%s on %s with %s", ev.src, ev.res, ev.opts))
						e := shared[ev.src]
						if e == nil {
							continue
						}
						if kept[ev.res] == nil {
							kept[ev.res] = resources[ev.res]()
						}
						in := kept[ev.res]
						coll, err := e.Evaluate(in, mkOpts(ev.opts, newCol())...)
						r.Eval()
						got := lib.ShowColl(coll)
						if err != nil {
							got = "ERROR"
						}
						if got != ref[ei] {
							r.Fail("evaluate-history|result-depends-on-what-a-caller-did-to-an-earlier-result", core.W{"history": hist2, "got": got, "untouched_process": ref[ei]})
						}
						c04Tamper(in, coll)
					}
					if lib.ShowColl(sharedCol) != lib.ShowColl(newCol()) {
						r.Fail("evaluate-history|caller-owned-collection-changed", core.W{"history": hist, "collection_now": lib.ShowColl(sharedCol), "collection_before": lib.ShowColl(newCol())})
					}
					r.State(fmt.Sprintf("evaluate-history|len=%d", len(seq)))
					r.Nontrivial(strings.Join(hist, ";"))
					if r.WantSample() {
						r.Sample(core.W{"history": hist})
					}
				}},
				{Name: "patch-expression-histories", N: c10Count(len(c04PatchOps()), evLen+1), Note: fmt.Sprintf("all sequences of length <=%d over %d FHIRPatch operations (Add / Delete / Replace / Insert on Patient, Person, Organization, Observation with either value[x] alternative) through compiled patch expressions that the history shares per path (type-less paths apply to several resource types): each outcome (error or not, resulting resource) equals the outcome of a freshly compiled expression", evLen+1, len(c04PatchOps())), Run: func(i int, r *core.Rec) {
					ops := c04PatchOps()
					seq := c10Seq(i, len(ops))
					shared := map[string]*patch.Expression{}
					var hist []string
					for _, oi := range seq {
						op := ops[oi]
						hist = append(hist, op.name+" via "+op.path)
						if shared[op.path] == nil {
							e, err := patch.Compile(op.path)
							if err != nil {
								r.Fail("patch-history|path-does-not-compile", core.W{"path": op.path, "err": err.Error()})
								return
							}
							shared[op.path] = e
						}
						got := c04PatchOutcome(op, shared[op.path])
						fe, _ := patch.Compile(op.path)
						want := c04PatchOutcome(op, fe)
						r.Eval()
						r.Eval()
						if got != want {
							r.Fail("patch-history|outcome-depends-on-history", core.W{"history": hist, "got": strings.SplitN(got, "|", 2)[0], "isolated": strings.SplitN(want, "|", 2)[0], "same_resource_afterwards": strings.SplitN(got+"|", "|", 3)[1] == strings.SplitN(want+"|", "|", 3)[1]})
						}
					}
					r.State(fmt.Sprintf("patch-history|len=%d", len(seq)))
					r.Nontrivial(strings.Join(hist, ";"))
				}},
				{Name: "argument-rebinding", N: len(c04RebindNames()), Note: "every implemented function of both tables at every accepted arity with its receiver and its arguments taken from environment variables: one compiled expression evaluated under bindings A, B, A, B' (B differs in every value, B' in the receiver only); each result equals that of an expression compiled for the occasion", Run: func(i int, r *core.Rec) {
					name := c04RebindNames()[i]
					fn := ftab.Table(true)[name]
					sig, ok := n1[name]
					if !ok {
						sig, ok = documentedExt[name]
					}
					if !ok {
						sig = specSig{recv: "Patient.name"}
					}
					copts := []fhirpath.CompileOption{compopts.WithExperimentalFuncs()}
					in := []fhir.Resource{lib.Patient()}
					// a literal operand becomes a variable when it is a single System value on its own
					val := func(src string) (any, bool) {
						if strings.ContainsAny(src, "%$") || strings.Contains(src, "Patient") {
							return nil, false
						}
						res := lib.Run(src, nil, nil)
						if !res.OK() || len(res.Coll) != 1 {
							return nil, false
						}
						switch res.Coll[0].(type) {
						case system.String, system.Integer, system.Decimal, system.Boolean:
							return res.Coll[0], true
						}
						return nil, false
					}
					others := func(v any) []any {
						switch x := v.(type) {
						case system.String:
							last := "Z"
							if len(x) > 0 {
								last = string(x[len(x)-1:]) + "Z"
							}
							return []any{system.String(last), system.String("."), system.String(""), system.String("abc"), system.String("a")}
						case system.Integer:
							return []any{x + 1, system.Integer(0), system.Integer(-1), system.Integer(5), system.Integer(2)}
						case system.Decimal:
							return []any{lib.Dec("7.25"), lib.Dec("0.0"), lib.Dec("-1.5"), lib.Dec("2.0"), lib.Dec("0.5")}
						case system.Boolean:
							return []any{!x, !x, x, !x, x}
						}
						return []any{v, v, v, v, v}
					}
					for n := fn.Min; n <= fn.Max && n <= 4; n++ {
						args := fillArgs(sig, n)
						bindA := map[string]any{}
						alts := map[string][]any{}
						recv := sig.recv
						if v, ok := val(strings.Trim(recv, "()")); ok {
							bindA["r"], alts["r"] = v, others(v)
							recv = "%r"
						}
						for k := range args {
							if v, ok := val(args[k]); ok {
								nm := fmt.Sprintf("a%d", k)
								bindA[nm], alts[nm] = v, others(v)
								args[k] = "%" + nm
							}
						}
						if len(bindA) == 0 {
							continue
						}
						// the sequence of bindings: A, then for every alternative k: all variables changed, A again, the receiver
						// alone changed, each argument alone changed
						seq := []map[string]any{bindA}
						for k := 0; k < 5; k++ {
							all := map[string]any{}
							for nm := range bindA {
								all[nm] = alts[nm][k]
							}
							seq = append(seq, all, bindA)
							for nm := range bindA {
								one := map[string]any{}
								for x, v := range bindA {
									one[x] = v
								}
								one[nm] = alts[nm][k]
								seq = append(seq, one)
							}
							seq = append(seq, bindA)
						}
						src := callSrc(recv, name, args)
						shared := lib.Compile(src, copts...)
						if shared.CompileErr != nil || shared.Panic != nil {
							continue
						}
						for step, b := range seq {
							got := lib.EvalOpts(shared, in, lib.EnvOpts(b)...)
							want := lib.Run(src, in, b, copts...)
							r.Eval()
							r.Eval()
							r.State("argument-rebinding|" + name)
							r.Nontrivial(src, fmt.Sprint(step), got.Class())
							if got.String() != want.String() {
								r.Fail(fmt.Sprintf("argument-rebinding|%s|arity=%d|result-of-an-earlier-binding", name, n), core.W{"src": src, "evaluation": step + 1, "binding": fmt.Sprint(b), "got": core.Short(got.String(), 200), "freshly_compiled": core.Short(want.String(), 200)})
								break
							}
						}
					}
				}},
				{Name: "typeless-expressions-across-types", N: c10Count(len(c04TypelessAlphabet()), 3), Note: fmt.Sprintf("all sequences of length <=3 over %d evaluations of compiled expressions whose paths name no resource type (contact.name.family, item.linkId, ...) on Patient, Organization, Person, Questionnaire and QuestionnaireResponse - backbone components of different resources share their short names -: each result equals that of an expression compiled for the occasion", len(c04TypelessAlphabet())), Run: func(i int, r *core.Rec) {
					al := c04TypelessAlphabet()
					shared := map[string]*fhirpath.Expression{}
					var hist []string
					for _, k := range c10Seq(i, len(al)) {
						ev := al[k]
						hist = append(hist, ev.src+" on "+ev.name)
						if shared[ev.src] == nil {
							e, err := fhirpath.Compile(ev.src)
							if err != nil {
								r.Fail("typeless-history|does-not-compile", core.W{"src": ev.src})
								return
							}
							shared[ev.src] = e
						}
						run := func(e *fhirpath.Expression) string {
							var out string
							if pi := core.Try(func() {
								c, err := e.Evaluate([]fhir.Resource{ev.mk()})
								out = lib.ShowColl(c)
								if err != nil {
									out = "ERROR"
								}
							}); pi != nil {
								out = "PANIC " + pi.Key()
							}
							r.Eval()
							return out
						}
						got := run(shared[ev.src])
						fe, _ := fhirpath.Compile(ev.src)
						want := run(fe)
						if got != want {
							r.Fail("typeless-history|result-depends-on-history", core.W{"history": hist, "got": core.Short(got, 200), "freshly_compiled": core.Short(want, 200)})
							return
						}
					}
					r.State("typeless-history")
					r.Nontrivial(strings.Join(hist, ";"))
				}},
				{Name: "operand-rebinding", N: len(c04OperandPrograms), Note: fmt.Sprintf("%d operator, indexer and type-test programs whose operands are environment variables: one compiled expression under every ordered pair of 6 bindings (then the first again); each result equals that of an expression compiled for the occasion", len(c04OperandPrograms)), Run: func(i int, r *core.Rec) {
					src := c04OperandPrograms[i]
					in := []fhir.Resource{lib.Patient()}
					binds := []map[string]any{
						{"a": system.Integer(0), "b": system.Integer(1), "s": system.String("x"), "t": system.String("y"), "p": system.Boolean(true), "q": system.Boolean(false), "c": system.Collection{system.Integer(10), system.Integer(20), system.Integer(30)}},
						{"a": system.Integer(1), "b": system.Integer(2), "s": system.String("y"), "t": system.String("y"), "p": system.Boolean(false), "q": system.Boolean(false), "c": system.Collection{system.String("u"), system.String("v")}},
						{"a": system.Integer(2), "b": system.Integer(0), "s": system.String(""), "t": system.String("x"), "p": system.Boolean(true), "q": system.Boolean(true), "c": system.Collection{}},
						{"a": system.Integer(-1), "b": system.Integer(7), "s": system.String("xy"), "t": system.String("x"), "p": system.Boolean(false), "q": system.Boolean(true), "c": system.Collection{system.Integer(5)}},
						{"a": lib.Dec("1.5"), "b": lib.Dec("0.5"), "s": system.String("é"), "t": system.String("é"), "p": system.Collection{}, "q": system.Boolean(true), "c": system.Collection{system.Boolean(true), system.Boolean(false), system.Boolean(true), system.Boolean(true)}},
						{"a": system.Integer(3), "b": system.Integer(3), "s": system.String("x"), "t": system.String("X"), "p": system.Boolean(true), "q": system.Collection{}, "c": system.Collection{system.Integer(10), system.Integer(20), system.Integer(30)}},
					}
					shared := lib.Compile(src)
					if shared.CompileErr != nil || shared.Panic != nil {
						r.Fail("operand-rebinding|program-does-not-compile", core.W{"src": src, "got": shared.String()})
						return
					}
					for x := range binds {
						for y := range binds {
							for step, b := range []map[string]any{binds[x], binds[y], binds[x]} {
								got := lib.EvalOpts(shared, in, lib.EnvOpts(b)...)
								want := lib.Run(src, in, b)
								r.Eval()
								r.Eval()
								r.Nontrivial(src, fmt.Sprint(x, y, step), got.Class())
								if got.String() != want.String() {
									r.Fail("operand-rebinding|result-of-an-earlier-binding|"+c04ProgClass(src), core.W{"src": src, "bindings": fmt.Sprint(x, y), "step": step + 1, "got": core.Short(got.String(), 200), "freshly_compiled": core.Short(want.String(), 200)})
									return
								}
							}
						}
					}
					r.State("operand-rebinding|" + c04ProgClass(src))
				}},
				{Name: "repeated-evaluations", N: len(c04RepeatPrograms), Note: fmt.Sprintf("%d programs over collections of 16..40 items (strings, integers, decimals, elements, with duplicates) evaluated 8 times on one compiled expression and on freshly compiled ones: the same items in the same order every time", len(c04RepeatPrograms)), Run: func(i int, r *core.Rec) {
					src := c04RepeatPrograms[i]
					big, ints, decs := system.Collection{}, system.Collection{}, system.Collection{}
					for k := 0; k < 40; k++ {
						big = append(big, system.String(fmt.Sprintf("s%02d", (k*7)%23)))
						ints = append(ints, system.Integer(int32((k*5)%17)))
						decs = append(decs, lib.Dec(fmt.Sprintf("%d.%d", (k*3)%11, k%3)))
					}
					p := lib.Patient()
					for k := 0; k < 22; k++ {
						p.Name[0].Given = append(p.Name[0].Given, fhir.String(fmt.Sprintf("G%02d", (k*5)%20)))
					}
					env := func() []fhirpath.EvaluateOption {
						return []fhirpath.EvaluateOption{evalopts.OverrideTime(lib.PinnedNow), evalopts.EnvVariable("big", big), evalopts.EnvVariable("ints", ints), evalopts.EnvVariable("decs", decs)}
					}
					shared, err := c04Compile(src)
					if err != nil {
						r.Fail("repeated-evaluation|program-does-not-compile", core.W{"src": src, "err": err.Error()})
						return
					}
					first := ""
					for k := 0; k < 8; k++ {
						for which, e := range []*fhirpath.Expression{shared, nil} {
							if e == nil {
								e, _ = c04Compile(src)
							}
							c, everr := e.Evaluate([]fhir.Resource{p}, env()...)
							r.Eval()
							got := lib.ShowColl(c)
							if everr != nil {
								got = "ERROR"
							}
							if k == 0 && which == 0 {
								first = got
								r.Nontrivial(src, c04Hash(got))
							} else if got != first {
								r.Fail("repeated-evaluation|another-result", core.W{"src": src, "first": core.Short(first, 300), "evaluation": k + 1, "result": core.Short(got, 300)})
								return
							}
						}
					}
					r.State("repeated-evaluation")
				}},
				{Name: "package-level-patch-histories", N: c10Count(len(c04PkgPatchOps()), 3), Note: fmt.Sprintf("all sequences of length <=3 over %d calls of the package-level FHIRPatch helpers (Delete / Replace / Insert / Add with one path text under different compile options: a custom function bound to first(), to last(), not bound, Permissive): each outcome equals that of the same operation through an expression compiled on the spot with the same options", len(c04PkgPatchOps())), Run: func(i int, r *core.Rec) {
					ops := c04PkgPatchOps()
					var hist []string
					for _, oi := range c10Seq(i, len(ops)) {
						op := ops[oi]
						hist = append(hist, op.name)
						run := func(f func(res fhir.Resource) error) string {
							res := lib.Patient()
							var err error
							if pi := core.Try(func() { err = f(res) }); pi != nil {
								return "PANIC " + pi.Key()
							}
							if err != nil {
								return "error|" + c04Hash(finger04(res))
							}
							return "ok|" + c04Hash(finger04(res))
						}
						got := run(op.pkg)
						want := run(op.ref)
						r.Eval()
						r.Eval()
						if got != want {
							r.Fail("package-level-patch-history|outcome-depends-on-history", core.W{"history": hist, "got": strings.SplitN(got, "|", 2)[0], "through_an_expression_compiled_with_the_same_options": strings.SplitN(want, "|", 2)[0]})
						}
					}
					r.State("package-level-patch-history")
					r.Nontrivial(strings.Join(hist, ";"))
				}},
				{Name: "inputs-edited-between-evaluations", N: len(c04EditPrograms), Note: fmt.Sprintf("%d programs x 5 inputs x 7 kinds of in-place edit by the owner of the resource (decimal texts, integers, strings, codes, booleans, dates/times, removal of the last item of every list): evaluate, edit the very same objects, evaluate again on a shared and on a fresh compiled expression - the result is the one a fresh copy of the edited resource gives", len(c04EditPrograms)), Run: func(i int, r *core.Rec) {
					src := c04EditPrograms[i]
					shared, err := fhirpath.Compile(src)
					if err != nil {
						r.Fail("edited-input|program-does-not-compile", core.W{"src": src, "err": err.Error()})
						return
					}
					show := func(e *fhirpath.Expression, in []fhir.Resource) string {
						var out string
						if pi := core.Try(func() {
							c, err := e.Evaluate(in, mkOpts("v=1", newCol())...)
							out = lib.ShowColl(c)
							if err != nil {
								out = "ERROR"
							}
						}); pi != nil {
							out = "PANIC " + pi.Key()
						}
						r.Eval()
						return out
					}
					for _, rn := range []string{"Patient", "Observation", "Bundle", "PatientWithContained", "ObservationWithComponents"} {
						for k, ed := range c04Edits {
							var in []fhir.Resource
							if rn == "ObservationWithComponents" {
								in = []fhir.Resource{c04ObservationWithComponents()}
							} else {
								in = resources[rn]()
							}
							first := show(shared, in)
							n := 0
							for _, res := range in {
								n += ed.apply(res.ProtoReflect())
							}
							if n == 0 {
								continue
							}
							again := show(shared, in)
							fe, _ := fhirpath.Compile(src)
							againFresh := show(fe, in)
							var cl []fhir.Resource
							for _, res := range in {
								cl = append(cl, proto.Clone(res).(fhir.Resource))
							}
							fe2, _ := fhirpath.Compile(src)
							want := show(fe2, cl)
							r.State(fmt.Sprintf("edited-input|%s|%s", rn, ed.name))
							r.Nontrivial(src, rn, fmt.Sprint(k), first, want)
							if again != want || againFresh != want {
								r.Fail("edited-input|result-is-not-that-of-the-resource-as-it-is-now|"+ed.name, core.W{"src": src, "resource": rn, "edit": ed.name, "elements_edited": n, "before_the_edit": first, "after_the_edit": again, "after_the_edit_fresh_expression": againFresh, "fresh_copy_of_the_edited_resource": want})
							}
						}
					}
				}},
				{Name: "process-histories", N: len(C04RotAlphabet()), Note: fmt.Sprintf("every rotation of the %d-element alphabet (146 per-type type-test batteries, white-space variants, repeated regex calls, same text on other inputs), each in one fresh process; oracle = outcome of the element as first call of a fresh process", len(C04RotAlphabet())), Run: func(i int, r *core.Rec) {
					al := C04RotAlphabet()
					rot := c04RotSpawn(i, len(al))
					r.Beat()
					for k := 0; k < len(al); k++ {
						idx := (i + k) % len(al)
						r.Eval()
						got, want := rot[idx], c04RotIsolated(idx)
						r.Beat()
						r.State("process-history|" + al[idx].group)
						r.Nontrivial(fmt.Sprint(i), fmt.Sprint(idx), c04Hash(got))
						if got != want {
							r.Fail("process-history|outcome-depends-on-earlier-calls|"+al[idx].group, core.W{"process_started_with": al[i].name, "position_in_process": k, "call": al[idx].name, "outcome": core.Short(got, 400), "as_first_call_of_a_process": core.Short(want, 400)})
						}
					}
					if r.WantSample() {
						r.Sample(core.W{"rotation_start": al[i].name, "calls": len(al)})
					}
				}},
				{Name: "clock", N: len(c04Instants), Note: "now()/today()/timeOfDay() programs x 14 override instants (incl. the zero time), and without override", Run: func(i int, r *core.Rec) {
					t := c04Instants[i]
					ms := t.Truncate(time.Millisecond)
					wantNow := ms.Format("2006-01-02T15:04:05.000Z07:00")
					wantToday := ms.Format("2006-01-02")
					wantTime := ms.Format("15:04:05.000")
					progs := []struct{ src, want string }{
						{"now()", "[DateTime:" + wantNow + "]"}, {"today()", "[Date:" + wantToday + "]"}, {"timeOfDay()", "[Time:" + wantTime + "]"},
						{"now() = now()", "[Boolean:true]"}, {"today() = today()", "[Boolean:true]"}, {"timeOfDay() = timeOfDay()", "[Boolean:true]"},
						{"Patient.name.select(now()).distinct().count()", "[Integer:1]"}, {"Patient.name.where(now() = %n).count()", "[Integer:3]"}, {"Patient.name.all(today() = %d)", "[Boolean:true]"},
						{"iif(now() = %n, timeOfDay() = %t, false)", "[Boolean:true]"}, {"now().toString()", `[String:"` + wantNow + `"]`}, {"(now() + 0 seconds) = %n", "[Boolean:true]"},
					}
					for _, p := range progs {
						e, err := fhirpath.Compile(p.src)
						if err != nil {
							r.Fail("clock|program-does-not-compile", core.W{"src": p.src})
							continue
						}
						// %n, %d, %t are the values now(), today(), timeOfDay() had in a first evaluation
						pre := func(src string) any {
							x, _ := fhirpath.Compile(src)
							c, _ := x.Evaluate(nil, evalopts.OverrideTime(t))
							if len(c) == 1 {
								return c[0]
							}
							return system.Collection{}
						}
						opts := []fhirpath.EvaluateOption{evalopts.OverrideTime(t), evalopts.EnvVariable("n", pre("now()")), evalopts.EnvVariable("d", pre("today()")), evalopts.EnvVariable("t", pre("timeOfDay()"))}
						for rep := 0; rep < 3; rep++ {
							got, err := e.Evaluate([]fhir.Resource{lib.Patient()}, opts...)
							r.Eval()
							s := lib.ShowColl(got)
							if err != nil {
								s = "ERROR: " + err.Error()
							}
							r.State("clock|" + p.src)
							r.Nontrivial(p.src, t.String(), s)
							if r.WantSample() {
								r.Sample(core.W{"src": p.src, "override": t.Format(time.RFC3339Nano), "got": s})
							}
							if s != p.want {
								r.Fail("clock|not-the-override-instant|"+p.src, core.W{"src": p.src, "override": t.Format(time.RFC3339Nano), "got": s, "want": p.want})
								break
							}
						}
					}
					// without an override only mutual consistency is required
					for _, src := range []string{"now() = now()", "Patient.name.select(now()).distinct().count() = 1", "today() = now().toString().substring(0, 10).toDate()", "Patient.name.all(timeOfDay() = timeOfDay())"} {
						res := func() string {
							e, err := fhirpath.Compile(src)
							if err != nil {
								return "COMPILE-ERROR"
							}
							c, err := e.Evaluate([]fhir.Resource{lib.Patient()})
							if err != nil {
								return "ERROR"
							}
							return lib.ShowColl(c)
						}()
						r.Eval()
						if res != "[Boolean:true]" {
							r.Fail("clock|one-evaluation-sees-several-instants|"+src, core.W{"src": src, "got": res})
						}
					}
				}},
				{Name: "time-zone", N: 1, Note: "the date/time battery and the enumerated literal space (all ordered pairs of 139 Date/DateTime literals x 7 comparison operators; each literal x 8 amounts x {+,-}; conversions; FHIR elements; clock) in sub-processes with TZ in {UTC, Asia/Kolkata, America/St_Johns, Pacific/Chatham}", Run: func(i int, r *core.Rec) {
					self, _ := os.Executable()
					var ref []string
					refZone := ""
					for _, tz := range []string{"UTC", "Asia/Kolkata", "America/St_Johns", "Pacific/Chatham"} {
						cmd := exec.Command(self, "tzdigest")
						cmd.Env = append(os.Environ(), "TZ="+tz)
						out, err := cmd.Output()
						r.Eval()
						lines := strings.Split(strings.TrimSpace(string(out)), "\n")
						r.State("tz|" + tz)
						r.Nontrivial(tz, c04Hash(string(out)))
						r.Sample(core.W{"TZ": tz, "evaluations": len(lines), "digest": c04Hash(string(out))})
						if err != nil || len(lines) < 100 {
							panic(fmt.Sprintf("harness: tzdigest under TZ=%s failed: %v", tz, err))
						}
						if ref == nil {
							ref, refZone = lines, tz
							continue
						}
						if len(lines) != len(ref) {
							panic(fmt.Sprintf("harness: tzdigest under TZ=%s has %d lines, under %s %d", tz, len(lines), refZone, len(ref)))
						}
						r.AddEvals(int64(len(lines)))
						for k := range lines {
							class := "battery"
							if t := strings.IndexByte(lines[k], '\t'); t >= 0 {
								class = lines[k][:t]
							}
							r.State("tz-class|" + class)
							if lines[k] != ref[k] {
								r.Fail("time-zone|"+class+"|result-depends-on-process-TZ", core.W{"TZ": tz, "got": lines[k], "under_" + refZone: ref[k]})
							}
						}
					}
				}},
				{Name: "schedules", N: len(scenarios), Note: "controlled-scheduler exploration of the instrumented tree (separate binary), one scenario per index", Run: func(i int, r *core.Rec) {
					res := c04RunExternal(r, "VERIF_VSCHED", scenarios[i], tier)
					r.AddEvals(res.Executions)
					r.State(fmt.Sprintf("schedules|%s|bound=%d|exhaustive=%v", res.Scenario, res.Bound, res.Exhaustive))
					r.Outcome(fmt.Sprintf("%s|observation-vectors=%d", res.Scenario, res.Outcomes))
					r.NontrivialByConstruction(res.Executions)
					r.Sample(core.W{"scenario": res.Scenario, "schedules": res.Executions, "points_per_thread": res.Points, "preemption_bound": res.Bound, "distinct_sites": res.Sites, "distinct_observation_vectors": res.Outcomes, "schedules_abandoned_because_a_thread_waited_on_a_lock": res.Blocked, "note": res.Note})
					if res.Blocked > 0 {
						fmt.Fprintf(os.Stderr, "NOTE: %s: %d schedule(s) abandoned because a thread waited on synchronisation outside the scheduler (a lock held by a parked thread); such schedules are not feasible at this granularity\n", res.Scenario, res.Blocked)
					}
					if !res.Exhaustive {
						r.CapHit("schedule exploration of " + res.Scenario + " stopped at its cap: " + res.Note)
					}
					for _, f := range res.Findings {
						r.Fail("schedule|"+res.Scenario+"|"+f.Key, core.W(f.Witness))
					}
				}},
				{Name: "race-pass", N: 1, Note: "free-running -race pass of the scenario bodies: a SAMPLE of OS schedules, never the deciding step", Run: func(i int, r *core.Rec) {
					res := c04RunExternal(r, "VERIF_VRACE", tier)
					r.AddEvals(res.Executions)
					r.State("race-pass")
					r.Sample(core.W{"goroutine_runs": res.Executions, "note": res.Note})
					for _, f := range res.Findings {
						r.Fail("race-pass|"+f.Key, core.W(f.Witness))
					}
				}},
			}
		},
	})
}

var c04Isolated []string

// outcomes of every call in the empty history, recorded once per process before any history runs
// programs of the edited-inputs sub-space: whatever reads values out of the resource
var c04EditPrograms = []string{
	"Patient.name.where(use = 'official').given", "Patient.name.given.distinct().count()", "Patient.name.given.isDistinct()", "Patient.name.given.exclude(Patient.name.given.first()).count()",
	"Patient.name.given.intersect(Patient.name.given.tail()).count()", "Patient.name.given.first() = Patient.name.given.last()",
	"Patient.birthDate", "Patient.birthDate < @2000-01-01", "Patient.birthDate.toString()", "Patient.active", "Patient.active.not()", "Patient.gender", "Patient.gender = 'female'", "Patient.telecom.rank", "Patient.telecom.rank.first() + 1",
	"Patient.telecom.where(rank > 1).value", "Patient.multipleBirth", "Patient.deceased", "Patient.contained.id", "Patient.contained.code.coding.code", "Patient.contained.descendants().count()", "Patient.descendants().count()",
	"Observation.value", "Observation.value.value", "Observation.value.value * 2", "Observation.value > 1 'mg'", "Observation.value.toString()", "Observation.component.value.distinct().count()", "Observation.component.value.isDistinct()",
	"Observation.component.value.exclude(Observation.component.value.first()).count()", "Observation.component.value.intersect(Observation.component.value.tail()).count()", "Observation.component.extension.value.distinct().count()",
	"Observation.component.extension.value.isDistinct()", "Observation.component.value.value.distinct()", "Observation.component.extension.value.exclude(Observation.component.extension.value.first()).count()", "Observation.component.value.select($this = Observation.component.value.first())", "Observation.effective", "Observation.effective.toString()", "Observation.issued", "Observation.issued > @2020-01-15T10:30:15Z", "Observation.status",
	"Observation.code.coding.code", "Observation.component.count()", "Observation.referenceRange.low.value", "Bundle.entry.resource.name.select(given.first() & ' ' & family)", "Bundle.entry.resource.id", "Bundle.entry.count()",
	"Bundle.entry.fullUrl", "Bundle.entry.resource.where($this is Patient).count()", "%context.id", "children().count()", "iif(%context.id.exists(), %context.id, 'none')", "Patient.name.all(given.count() > 0)", "Patient.name.select(given.count())",
	"Patient.name.family.upper()", "Patient.name.family.length()", "Patient.name.given.count()", "Patient.text.`div`", "Patient.meta.versionId", "Patient.meta.lastUpdated",
}

// c04ObservationWithComponents: lists of quantities, decimals, dates and times with and without duplicates
func c04ObservationWithComponents() *opb.Observation {
	o := lib.Observation()
	q := func(v, u string) *opb.Observation_Component_ValueX {
		return &opb.Observation_Component_ValueX{Choice: &opb.Observation_Component_ValueX_Quantity{Quantity: &dtpb.Quantity{Value: &dtpb.Decimal{Value: v}, Unit: fhir.String(u), Code: fhir.Code(u), System: fhir.URI("http://unitsofmeasure.org")}}}
	}
	ext := func(url string, v *dtpb.Extension_ValueX) *dtpb.Extension {
		return &dtpb.Extension{Url: fhir.URI(url), Value: v}
	}
	o.Component = []*opb.Observation_Component{
		{Value: q("1", "mg"), Extension: []*dtpb.Extension{ext("http://d", &dtpb.Extension_ValueX{Choice: &dtpb.Extension_ValueX_Date{Date: lib.ProtoDate("2020-01-15")}})}},
		{Value: q("2", "mg"), Extension: []*dtpb.Extension{ext("http://d", &dtpb.Extension_ValueX{Choice: &dtpb.Extension_ValueX_Date{Date: lib.ProtoDate("2021-02-28")}})}},
		{Value: q("2.0", "mg"), Extension: []*dtpb.Extension{ext("http://t", &dtpb.Extension_ValueX{Choice: &dtpb.Extension_ValueX_DateTime{DateTime: lib.ProtoDateTime("2020-01-15T10:30:15Z")}})}},
		{Value: &opb.Observation_Component_ValueX{Choice: &opb.Observation_Component_ValueX_DateTime{DateTime: lib.ProtoDateTime("2020-01-15T10:30:15+05:30")}},
			Extension: []*dtpb.Extension{ext("http://i", &dtpb.Extension_ValueX{Choice: &dtpb.Extension_ValueX_Instant{Instant: lib.ProtoInstant("2020-02-29T10:30:15.250Z")}}), ext("http://n", &dtpb.Extension_ValueX{Choice: &dtpb.Extension_ValueX_Decimal{Decimal: &dtpb.Decimal{Value: "3.5"}}})}},
	}
	return o
}

type c04Edit struct {
	name  string
	apply func(m protoreflect.Message) int
}

// c04EditWalk visits every populated message below m (not through packed Any values)
func c04EditWalk(m protoreflect.Message, f func(x protoreflect.Message) int) int {
	n := f(m)
	m.Range(func(fd protoreflect.FieldDescriptor, v protoreflect.Value) bool {
		if fd.Message() == nil || fd.IsMap() {
			return true
		}
		if fd.IsList() {
			l := v.List()
			for i := 0; i < l.Len(); i++ {
				n += c04EditWalk(l.Get(i).Message(), f)
			}
		} else {
			n += c04EditWalk(v.Message(), f)
		}
		return true
	})
	return n
}

var c04Edits = []c04Edit{
	{"decimal-texts", func(m protoreflect.Message) int {
		return c04EditWalk(m, func(x protoreflect.Message) int {
			if d, ok := x.Interface().(*dtpb.Decimal); ok && d.Value != "" {
				d.Value = "1"
				return 1
			}
			return 0
		})
	}},
	{"integers", func(m protoreflect.Message) int {
		return c04EditWalk(m, func(x protoreflect.Message) int {
			switch d := x.Interface().(type) {
			case *dtpb.Integer:
				d.Value += 5
				return 1
			case *dtpb.PositiveInt:
				d.Value += 5
				return 1
			case *dtpb.UnsignedInt:
				d.Value += 5
				return 1
			}
			return 0
		})
	}},
	{"strings", func(m protoreflect.Message) int {
		return c04EditWalk(m, func(x protoreflect.Message) int {
			switch d := x.Interface().(type) {
			case *dtpb.String:
				d.Value = "Ann"
				return 1
			case *dtpb.Id:
				d.Value = "edited"
				return 1
			}
			return 0
		})
	}},
	{"codes", func(m protoreflect.Message) int {
		return c04EditWalk(m, func(x protoreflect.Message) int {
			switch d := x.Interface().(type) {
			case *dtpb.Code:
				d.Value = "edited"
				return 1
			}
			if vf := x.Descriptor().Fields().ByName("value"); vf != nil && vf.Enum() != nil && strings.HasSuffix(string(x.Descriptor().Name()), "Code") {
				vals := vf.Enum().Values()
				cur := x.Get(vf).Enum()
				next := vals.Get((int(vals.ByNumber(cur).Index()) + 1) % vals.Len()).Number()
				if next == 0 && vals.Len() > 1 {
					next = vals.Get(1).Number()
				}
				x.Set(vf, protoreflect.ValueOfEnum(next))
				return 1
			}
			return 0
		})
	}},
	{"booleans", func(m protoreflect.Message) int {
		return c04EditWalk(m, func(x protoreflect.Message) int {
			if d, ok := x.Interface().(*dtpb.Boolean); ok {
				d.Value = !d.Value
				return 1
			}
			return 0
		})
	}},
	{"dates-and-times", func(m protoreflect.Message) int {
		return c04EditWalk(m, func(x protoreflect.Message) int {
			switch d := x.Interface().(type) {
			case *dtpb.Date:
				d.ValueUs -= 40 * 366 * 86400 * 1000000
				return 1
			case *dtpb.DateTime:
				d.ValueUs += 400 * 86400 * 1000000
				return 1
			case *dtpb.Instant:
				d.ValueUs += 400 * 86400 * 1000000
				return 1
			case *dtpb.Time:
				d.ValueUs = (d.ValueUs + 3600*1000000) % (86400 * 1000000)
				return 1
			}
			return 0
		})
	}},
	{"last-list-items-removed", func(m protoreflect.Message) int {
		return c04EditWalk(m, func(x protoreflect.Message) int {
			n := 0
			x.Range(func(fd protoreflect.FieldDescriptor, v protoreflect.Value) bool {
				if fd.IsList() && fd.Message() != nil && v.List().Len() > 1 {
					v.List().Truncate(v.List().Len() - 1)
					n++
				}
				return true
			})
			return n
		})
	}},
}

func c04IsolatedOutcomes() []string {
	if c04Isolated == nil {
		for _, c := range c04Calls() {
			c04Isolated = append(c04Isolated, c.do())
		}
	}
	return c04Isolated
}

// c04EvReference: every evaluation of the alphabet once, on fresh inputs, before any result has been tampered with
var c04EvRef []string

func c04EvReference(al []c04Ev, shared map[string]*fhirpath.Expression, resources map[string]func() []fhir.Resource, mkOpts func(string, system.Collection) []fhirpath.EvaluateOption, newCol func() system.Collection) []string {
	if c04EvRef != nil {
		return c04EvRef
	}
	out := make([]string, len(al))
	for i, ev := range al {
		e, err := c04Compile(ev.src)
		if err != nil {
			out[i] = "COMPILE-ERROR"
			continue
		}
		c, everr := e.Evaluate(resources[ev.res](), mkOpts(ev.opts, newCol())...)
		out[i] = lib.ShowColl(c)
		if everr != nil {
			out[i] = "ERROR"
		}
	}
	c04EvRef = out
	return out
}

// c04Tamper does what a caller is free to do with a result it received: overwrite the slots of the returned
// slice, and edit returned elements that are not nodes of the input resources (they are the caller's copies).
func c04Tamper(in []fhir.Resource, coll system.Collection, alsoOwn ...proto.Message) {
	c04TamperOpt(true, in, coll, alsoOwn...)
}

// c04TamperOpt: slots=false edits the returned copies only (a returned collection may legitimately be a view of a
// collection the caller supplied through the environment, whose slots are then the caller's own)
func c04TamperOpt(slots bool, in []fhir.Resource, coll system.Collection, alsoOwn ...proto.Message) {
	own := map[protoreflect.Message]bool{}
	var walk func(m protoreflect.Message)
	walk = func(m protoreflect.Message) {
		own[m] = true
		m.Range(func(fd protoreflect.FieldDescriptor, v protoreflect.Value) bool {
			if fd.Message() == nil || fd.IsMap() {
				return true
			}
			if fd.IsList() {
				for i := 0; i < v.List().Len(); i++ {
					walk(v.List().Get(i).Message())
				}
			} else {
				walk(v.Message())
			}
			return true
		})
	}
	for _, res := range in {
		walk(res.ProtoReflect())
	}
	for _, m := range alsoOwn { // elements the caller handed in through the environment are its originals, not copies
		if m != nil {
			walk(m.ProtoReflect())
		}
	}
	for i, it := range coll {
		if m, ok := it.(proto.Message); ok && m != nil && !own[m.ProtoReflect()] {
			pm := m.ProtoReflect()
			if vf := pm.Descriptor().Fields().ByName("value"); vf != nil && vf.Kind() == protoreflect.StringKind {
				pm.Set(vf, protoreflect.ValueOfString("tampered-by-the-caller"))
			}
		}
		if slots {
			coll[i] = system.String("slot-overwritten-by-the-caller")
		}
	}
}

var c04Shared map[string]*fhirpath.Expression

// c04Compile: the sources that use join() are compiled with the experimental functions
func c04Compile(src string) (*fhirpath.Expression, error) {
	if strings.Contains(src, ".join(") {
		return fhirpath.Compile(src, compopts.WithExperimentalFuncs())
	}
	return fhirpath.Compile(src)
}

// ---- patch-expression histories: a compiled patch expression is configuration only

type c04PatchOp struct {
	name, path string
	mk         func() fhir.Resource
	do         func(e *patch.Expression, res fhir.Resource) error
}

func c04PatchOps() []c04PatchOp {
	cp := func() *dtpb.ContactPoint { return &dtpb.ContactPoint{Value: fhir.String("555-0100")} }
	patient := func() fhir.Resource {
		p := lib.Patient()
		p.Contact = []*ppb.Patient_Contact{{Name: lib.NameA()}, {Name: lib.NameB()}}
		return p
	}
	org := func() fhir.Resource {
		return &orgpb.Organization{Id: fhir.ID("o1"), Name: fhir.String("Org"), Contact: []*orgpb.Organization_Contact{{Name: lib.NameA()}}, Telecom: []*dtpb.ContactPoint{{Value: fhir.String("1")}},
			Identifier: []*dtpb.Identifier{fhir.Identifier("http://s", "v")}}
	}
	person := func() fhir.Resource {
		return &perpb.Person{Id: fhir.ID("pe1"), Name: []*dtpb.HumanName{lib.NameB(), lib.NameA()}, Telecom: []*dtpb.ContactPoint{{Value: fhir.String("2")}}}
	}
	obsQ := func() fhir.Resource { return lib.Observation() }
	obsS := func() fhir.Resource {
		o := lib.Observation()
		o.Value = &opb.Observation_ValueX{Choice: &opb.Observation_ValueX_StringValue{StringValue: fhir.String("text")}}
		return o
	}
	ext := func() *dtpb.Extension {
		return &dtpb.Extension{Url: fhir.URI("http://x"), Value: &dtpb.Extension_ValueX{Choice: &dtpb.Extension_ValueX_Boolean{Boolean: fhir.Boolean(true)}}}
	}
	add := func(name string, v func() fhir.Base) func(*patch.Expression, fhir.Resource) error {
		return func(e *patch.Expression, res fhir.Resource) error { return e.Add(res, name, v()) }
	}
	return []c04PatchOp{
		{"Add telecom on Patient", "contact[0]", patient, add("telecom", func() fhir.Base { return cp() })},
		{"Add telecom on Organization", "contact[0]", org, add("telecom", func() fhir.Base { return cp() })},
		{"Add given on Patient", "name[0]", patient, add("given", func() fhir.Base { return fhir.String("Zed") })},
		{"Add given on Person", "name[0]", person, add("given", func() fhir.Base { return fhir.String("Zed") })},
		{"Delete on Patient", "name[0]", patient, func(e *patch.Expression, r fhir.Resource) error { return e.Delete(r) }},
		{"Delete on Person", "name[0]", person, func(e *patch.Expression, r fhir.Resource) error { return e.Delete(r) }},
		{"Replace family on Patient", "name[0].family", patient, func(e *patch.Expression, r fhir.Resource) error { return e.Replace(r, fhir.String("Omega")) }},
		{"Replace family on Person", "name[0].family", person, func(e *patch.Expression, r fhir.Resource) error { return e.Replace(r, fhir.String("Omega")) }},
		{"Add extension on valueQuantity", "Observation.value", obsQ, add("extension", func() fhir.Base { return ext() })},
		{"Add extension on valueString", "Observation.value", obsS, add("extension", func() fhir.Base { return ext() })},
		{"Insert telecom on Patient", "telecom", patient, func(e *patch.Expression, r fhir.Resource) error { return e.Insert(r, cp(), 0) }},
		{"Insert telecom on Organization", "telecom", org, func(e *patch.Expression, r fhir.Resource) error { return e.Insert(r, cp(), 0) }},
		{"Insert telecom on Person", "telecom", person, func(e *patch.Expression, r fhir.Resource) error { return e.Insert(r, cp(), 1) }},
		{"Replace telecom on Organization", "telecom[0]", org, func(e *patch.Expression, r fhir.Resource) error { return e.Replace(r, cp()) }},
		{"Replace telecom on Patient", "telecom[0]", patient, func(e *patch.Expression, r fhir.Resource) error { return e.Replace(r, cp()) }},
		{"Add id on contact name of Organization", "contact[0].name", org, add("text", func() fhir.Base { return fhir.String("t") })},
		{"Add text on contact name of Patient", "contact[0].name", patient, add("text", func() fhir.Base { return fhir.String("t") })},
	}
}

type c04Typeless struct {
	src, name string
	mk        func() fhir.Resource
}

func c04TypelessAlphabet() []c04Typeless {
	pat := func() fhir.Resource {
		p := lib.Patient()
		p.Contact = []*ppb.Patient_Contact{{Name: &dtpb.HumanName{Family: fhir.String("Pat")}, Telecom: []*dtpb.ContactPoint{{Value: fhir.String("p-tel")}}}}
		return p
	}
	org := func() fhir.Resource {
		return &orgpb.Organization{Id: fhir.ID("o1"), Contact: []*orgpb.Organization_Contact{{Name: &dtpb.HumanName{Family: fhir.String("Org")}, Telecom: []*dtpb.ContactPoint{{Value: fhir.String("o-tel")}}}}, Telecom: []*dtpb.ContactPoint{{Value: fhir.String("o-main")}}}
	}
	per := func() fhir.Resource {
		return &perpb.Person{Id: fhir.ID("pe1"), Name: []*dtpb.HumanName{{Family: fhir.String("Per")}}, Telecom: []*dtpb.ContactPoint{{Value: fhir.String("pe-tel")}}, Link: []*perpb.Person_Link{{Target: &dtpb.Reference{Reference: &dtpb.Reference_Uri{Uri: fhir.String("Patient/1")}}}}}
	}
	qst := func() fhir.Resource { return lib.Questionnaire() }
	qr := func() fhir.Resource {
		return &qrpb.QuestionnaireResponse{Id: fhir.ID("qr1"), Item: []*qrpb.QuestionnaireResponse_Item{{LinkId: fhir.String("r1"), Text: fhir.String("answer one"), Item: []*qrpb.QuestionnaireResponse_Item{{LinkId: fhir.String("r1.1")}}}}}
	}
	var out []c04Typeless
	for _, src := range []string{"contact.name.family", "contact.telecom.value", "name.family", "telecom.value", "item.linkId", "item.item.linkId", "item.text", "link.exists()", "id"} {
		for _, res := range []struct {
			name string
			mk   func() fhir.Resource
		}{{"Patient", pat}, {"Organization", org}, {"Person", per}, {"Questionnaire", qst}, {"QuestionnaireResponse", qr}} {
			// keep the pairs whose first step exists on the type (the others fail the same way every time: nothing to learn)
			if lib.Run(src, []fhir.Resource{res.mk()}, nil).Err == nil {
				out = append(out, c04Typeless{src, res.name, res.mk})
			}
		}
	}
	return out
}

var c04OperandPrograms = []string{
	"%c[%a]", "%c[%b]", "Patient.name[%a].family", "Patient.name.given[%b]", "Patient.name[%a].given[%b]", "%c[%a + 1]", "%c.skip(%a).take(%b)", "%a + %b", "%a - %b", "%a * %b", "%a / %b", "%a div %b", "%a mod %b", "-%a", "+%b", "%s & %t",
	"%s + %t", "%a = %b", "%a != %b", "%a < %b", "%a <= %b", "%a > %b", "%a >= %b", "%s = %t", "%s < %t", "%p and %q", "%p or %q", "%p xor %q", "%p implies %q", "%p.not()", "%a is Integer", "%a is Decimal", "%a as Integer",
	"%c.count() + %a", "%c.first()", "%c.where($this = %a)", "%c.select($this = %b)", "%c.exists($this = %a)", "%c.all($this is Integer)", "iif(%p, %a, %b)", "iif(%q, %s, %t)", "Patient.name.where(family = %s).count()",
	"Patient.name.select(given[%a])", "Patient.name.where($this.given.count() > %a).given[%b]", "(%a + %b) * (%a - %b)", "%s.length() + %a", "%s.substring(%a)", "%s.indexOf(%t)", "%c = %c", "%c.take(%b) = %c.take(%a)",
}

func c04ProgClass(src string) string {
	switch {
	case strings.Contains(src, "["):
		return "indexer"
	case strings.Contains(src, " is ") || strings.Contains(src, " as "):
		return "type"
	case strings.Contains(src, "("):
		return "function"
	}
	return "operator"
}

var c04RebindList []string

// c04RebindNames: the implemented functions of both tables, in name order
func c04RebindNames() []string {
	if c04RebindList == nil {
		for k, e := range ftab.Table(true) {
			if e.Impl != ftab.Placeholder {
				c04RebindList = append(c04RebindList, k)
			}
		}
		sort.Strings(c04RebindList)
	}
	return c04RebindList
}

var c04RepeatPrograms = []string{
	"%big.distinct()", "%big.distinct().first()", "%big.distinct().count()", "%big.isDistinct()", "%big.exclude('s00')", "%big.intersect(%big)", "%big.where($this > 's10')", "%big.select($this & 'x').distinct()",
	"%big.tail().distinct().last()", "%big.skip(3).take(20).distinct()", "%ints.distinct()", "%ints.distinct().first()", "%ints.exclude(3)", "%ints.intersect(%ints.tail())", "%decs.distinct()", "%decs.distinct().last()",
	"Patient.name.given.distinct()", "Patient.name.given.distinct().first()", "Patient.name.given.exclude('G00')", "Patient.name.given.intersect(Patient.name.given)", "Patient.name.given.upper().distinct()", "Patient.name.given.join(',')",
	"'the quick brown fox jumps over the lazy dog'.toChars().distinct()", "'the quick brown fox jumps over the lazy dog'.toChars().distinct().first()", "Patient.descendants().count()", "Patient.descendants().where($this is string).distinct().first()",
	"Patient.children().count()", "Patient.name.given.toChars().distinct().count()", "Patient.name.given.where($this.startsWith('G1')).distinct()", "%big.distinct().select($this.length()).distinct()",
}

type c04PkgPatchOp struct {
	name     string
	pkg, ref func(res fhir.Resource) error
}

func c04PkgPatchOps() []c04PkgPatchOp {
	pickFirst := func() fhirpath.CompileOption {
		return compopts.AddFunction("pick", func(in system.Collection) (system.Collection, error) {
			if len(in) == 0 {
				return nil, nil
			}
			return system.Collection{in[0]}, nil
		})
	}
	pickLast := func() fhirpath.CompileOption {
		return compopts.AddFunction("pick", func(in system.Collection) (system.Collection, error) {
			if len(in) == 0 {
				return nil, nil
			}
			return system.Collection{in[len(in)-1]}, nil
		})
	}
	variants := []struct {
		name string
		mk   func() []fhirpath.CompileOption
	}{{"pick=first", func() []fhirpath.CompileOption { return []fhirpath.CompileOption{pickFirst()} }}, {"pick=last", func() []fhirpath.CompileOption { return []fhirpath.CompileOption{pickLast()} }},
		{"pick unbound", func() []fhirpath.CompileOption { return nil }}, {"pick=last, Permissive", func() []fhirpath.CompileOption { return []fhirpath.CompileOption{compopts.Permissive(), pickLast()} }}}
	var out []c04PkgPatchOp
	for _, v := range variants {
		v := v
		via := func(path string, f func(e *patch.Expression, res fhir.Resource) error) func(fhir.Resource) error {
			return func(res fhir.Resource) error {
				e, err := patch.Compile(path, v.mk()...)
				if err != nil {
					return err
				}
				return f(e, res)
			}
		}
		out = append(out,
			c04PkgPatchOp{"Delete Patient.name.pick() [" + v.name + "]", func(res fhir.Resource) error { return patch.Delete(res, "Patient.name.pick()", v.mk()...) },
				via("Patient.name.pick()", func(e *patch.Expression, res fhir.Resource) error { return e.Delete(res) })},
			c04PkgPatchOp{"Replace Patient.name.pick().family [" + v.name + "]", func(res fhir.Resource) error {
				return patch.Replace(res, "Patient.name.pick().family", fhir.String("Omega"), v.mk()...)
			},
				via("Patient.name.pick().family", func(e *patch.Expression, res fhir.Resource) error { return e.Replace(res, fhir.String("Omega")) })},
			c04PkgPatchOp{"Add given to Patient.name.pick() [" + v.name + "]", func(res fhir.Resource) error {
				return patch.Add(res, "Patient.name.pick()", "given", fhir.String("Zed"), &patch.Options{CompileOpts: v.mk()})
			}, via("Patient.name.pick()", func(e *patch.Expression, res fhir.Resource) error { return e.Add(res, "given", fhir.String("Zed")) })},
		)
	}
	out = append(out, c04PkgPatchOp{"Insert Patient.name.given at 0", func(res fhir.Resource) error {
		return patch.Insert(res, "Patient.name[0].given", fhir.String("Zed"), 0)
	},
		func(res fhir.Resource) error {
			e, err := patch.Compile("Patient.name[0].given")
			if err != nil {
				return err
			}
			return e.Insert(res, fhir.String("Zed"), 0)
		}})
	return out
}

func c04PatchOutcome(op c04PatchOp, e *patch.Expression) string {
	res := op.mk()
	var err error
	if pi := core.Try(func() { err = op.do(e, res) }); pi != nil {
		return "PANIC " + pi.Key()
	}
	h := c04Hash(finger04(res))
	if err != nil {
		return "error|" + h
	}
	return "ok|" + h
}

func finger04(m proto.Message) string {
	b, _ := proto.MarshalOptions{Deterministic: true}.Marshal(m)
	return string(b)
}

func c04SharedExprs(srcs []string) map[string]*fhirpath.Expression {
	if c04Shared == nil {
		c04Shared = map[string]*fhirpath.Expression{}
		for _, s := range srcs {
			if e, err := c04Compile(s); err == nil {
				c04Shared[s] = e
			}
		}
	}
	return c04Shared
}

func c04FirstDiff(a, b string) string {
	la, lb := strings.Split(a, "\n"), strings.Split(b, "\n")
	for i := range la {
		if i >= len(lb) || la[i] != lb[i] {
			other := ""
			if i < len(lb) {
				other = lb[i]
			}
			return core.Short(la[i], 300) + "  ->  " + core.Short(other, 300)
		}
	}
	return ""
}
