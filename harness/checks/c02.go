package checks

import (
	"encoding/json"
	"errors"
	"fmt"
	"github.com/google/fhir/go/jsonformat"
	dtpb "github.com/google/fhir/go/proto/google/fhir/proto/r4/core/datatypes_go_proto"
	ppb "github.com/google/fhir/go/proto/google/fhir/proto/r4/core/resources/patient_go_proto"
	"github.com/verily-src/fhirpath-go/internal/containedresource"
	"github.com/verily-src/fhirpath-go/internal/element/reference"
	"math/big"
	"sort"
	"strings"

	bcrpb "github.com/google/fhir/go/proto/google/fhir/proto/r4/core/resources/bundle_and_contained_resource_go_proto"
	"github.com/verily-src/fhirpath-go/fhirpath"
	"github.com/verily-src/fhirpath-go/fhirpath/system"
	"github.com/verily-src/fhirpath-go/fhirpath/verifh/core"
	"github.com/verily-src/fhirpath-go/fhirpath/verifh/lib"
	"github.com/verily-src/fhirpath-go/internal/fhir"
	"google.golang.org/protobuf/proto"
	"google.golang.org/protobuf/reflect/protoreflect"
	"google.golang.org/protobuf/types/known/anypb"
)

// ---- C02: path navigation returns exactly the elements of the resource's FHIR JSON tree.

// c02Node is one element of the logical FHIR tree: the JSON node (with the
// "_name" sibling of a primitive merged in) together with the proto message
// that jsonformat rendered there.
type c02Node struct {
	msg      proto.Message // nil for the synthesised Reference.reference string
	copied   bool          // reached through an Any-packed contained resource: equal copy, not the same pointer
	text     string        // reference text when msg == nil
	names    []string      // child element names in first-occurrence order
	kids     map[string][]*c02Node
	repeated map[string]bool
	md       protoreflect.MessageDescriptor
	jval     any // JSON value of a primitive element (string, json.Number, bool); nil when it has none
}

var c02Keywords = map[string]bool{"div": true, "mod": true, "and": true, "or": true, "xor": true, "implies": true, "true": true, "false": true,
	"year": true, "years": true, "month": true, "months": true, "week": true, "weeks": true, "day": true, "days": true, "hour": true, "hours": true,
	"minute": true, "minutes": true, "second": true, "seconds": true, "millisecond": true, "milliseconds": true}

func c02Ident(n string) string {
	if c02Keywords[n] {
		return "`" + n + "`"
	}
	return n
}

type c02Builder struct {
	problems []string
}

func (b *c02Builder) add(n *c02Node, name string, child *c02Node, repeated bool) {
	if n.kids == nil {
		n.kids = map[string][]*c02Node{}
		n.repeated = map[string]bool{}
	}
	if _, ok := n.kids[name]; !ok {
		n.names = append(n.names, name)
	}
	n.kids[name] = append(n.kids[name], child)
	if repeated {
		n.repeated[name] = true
	}
}

// mapKey finds the proto field behind a JSON key of message md: a plain field
// (by JSON name) or a choice element "<base><Type>".
func c02MapKey(md protoreflect.MessageDescriptor, key string) (fd protoreflect.FieldDescriptor, base string, suffix string) {
	if f := md.Fields().ByJSONName(key); f != nil {
		return f, key, ""
	}
	for i := 0; i < md.Fields().Len(); i++ {
		f := md.Fields().Get(i)
		if f.Message() == nil || f.Message().Oneofs().ByName("choice") == nil || f.Message().Fields().Len() != f.Message().Oneofs().ByName("choice").Fields().Len() {
			continue
		}
		if strings.HasPrefix(key, f.JSONName()) && len(key) > len(f.JSONName()) {
			s := key[len(f.JSONName()):]
			if s[0] >= 'A' && s[0] <= 'Z' {
				return f, f.JSONName(), s
			}
		}
	}
	return nil, "", ""
}

// build walks JSON object obj and proto message m in parallel.
func (b *c02Builder) build(obj map[string]any, m protoreflect.Message, copied bool) *c02Node {
	n := &c02Node{msg: m.Interface(), copied: copied, md: m.Descriptor()}
	keys := make([]string, 0, len(obj))
	for k := range obj {
		keys = append(keys, k)
	}
	sort.Strings(keys)
	done := map[string]bool{}
	for _, k := range keys {
		if k == "resourceType" {
			continue
		}
		key := strings.TrimPrefix(k, "_")
		if done[key] {
			continue
		}
		done[key] = true
		val, shadow := obj[key], obj["_"+key]
		md := m.Descriptor()
		if string(md.FullName()) == "google.fhir.r4.core.Reference" && key == "reference" {
			b.add(n, "reference", &c02Node{text: fmt.Sprint(val)}, false)
			continue
		}
		fd, base, suffix := c02MapKey(md, key)
		if fd == nil {
			b.problems = append(b.problems, fmt.Sprintf("JSON key %q has no field in %s", key, md.FullName()))
			continue
		}
		// proto values for this element, in order
		var pms []protoreflect.Message
		if fd.IsList() {
			l := m.Get(fd).List()
			for i := 0; i < l.Len(); i++ {
				pms = append(pms, l.Get(i).Message())
			}
		} else if m.Has(fd) {
			pms = append(pms, m.Get(fd).Message())
		}
		// JSON values for this element, in order
		var jvals, jshadows []any
		isList := false
		if l, ok := val.([]any); ok {
			jvals, isList = l, true
		} else if val != nil {
			jvals = []any{val}
		}
		if l, ok := shadow.([]any); ok {
			jshadows, isList = l, true
		} else if shadow != nil {
			jshadows = []any{shadow}
		}
		cnt := len(jvals)
		if len(jshadows) > cnt {
			cnt = len(jshadows)
		}
		if cnt != len(pms) {
			b.problems = append(b.problems, fmt.Sprintf("%s.%s: %d JSON values vs %d proto values", md.Name(), key, cnt, len(pms)))
			continue
		}
		for i := 0; i < cnt; i++ {
			pm := pms[i]
			childCopied := copied
			// look through choice wrappers, ContainedResource and Any
			if suffix != "" {
				od := pm.Descriptor().Oneofs().ByName("choice")
				alt := pm.WhichOneof(od)
				if alt == nil {
					b.problems = append(b.problems, "choice wrapper without alternative at "+key)
					continue
				}
				pm = pm.Get(alt).Message()
			}
			if pm.Descriptor().FullName() == "google.protobuf.Any" {
				cr := &bcrpb.ContainedResource{}
				if err := pm.Interface().(*anypb.Any).UnmarshalTo(cr); err != nil {
					b.problems = append(b.problems, "contained Any does not unpack: "+err.Error())
					continue
				}
				pm = cr.ProtoReflect()
				childCopied = true
			}
			if pm.Descriptor().FullName() == "google.fhir.r4.core.ContainedResource" {
				alt := pm.WhichOneof(pm.Descriptor().Oneofs().ByName("oneof_resource"))
				if alt == nil {
					continue
				}
				pm = pm.Get(alt).Message()
			}
			var child *c02Node
			var jv, js any
			if i < len(jvals) {
				jv = jvals[i]
			}
			if i < len(jshadows) {
				js = jshadows[i]
			}
			if o, ok := jv.(map[string]any); ok {
				child = b.build(o, pm, childCopied)
			} else {
				// primitive: its children (id, extension) live in the "_name" object
				if o, ok := js.(map[string]any); ok {
					child = b.build(o, pm, childCopied)
				} else {
					child = &c02Node{msg: pm.Interface(), copied: childCopied, md: pm.Descriptor()}
				}
				child.jval = jv
			}
			b.add(n, base, child, isList)
		}
	}
	return n
}

// c02Same: the result item is the expected node
func c02Match(got any, want *c02Node) bool {
	if want.msg == nil {
		s, ok := got.(interface{ GetValue() string })
		return ok && s.GetValue() == want.text
	}
	gm, ok := got.(proto.Message)
	if !ok {
		return false
	}
	if want.copied {
		return proto.Equal(gm, want.msg)
	}
	return any(gm) == any(want.msg)
}

// c02PrimDiff compares the System value of `<primitive>.value` with the JSON
// value of that primitive: strings (codes, uris, dates, times, base64) exactly,
// numbers numerically, booleans by value. "" means equal.
func c02PrimDiff(got any, jv any) string {
	switch v := jv.(type) {
	case string:
		s, ok := got.(system.String)
		if !ok {
			return fmt.Sprintf("type-%T-for-json-string", got)
		}
		if string(s) != v {
			return "text-differs"
		}
	case bool:
		b, ok := got.(system.Boolean)
		if !ok {
			return fmt.Sprintf("type-%T-for-json-boolean", got)
		}
		if bool(b) != v {
			return "boolean-differs"
		}
	case json.Number:
		want, ok := new(big.Rat).SetString(v.String())
		if !ok {
			return "harness-json-number"
		}
		var have *big.Rat
		switch g := got.(type) {
		case system.Integer:
			have = new(big.Rat).SetInt64(int64(g))
		case system.Decimal:
			have, ok = new(big.Rat).SetString(g.String())
			if !ok {
				return "decimal-not-a-number"
			}
		default:
			return fmt.Sprintf("type-%T-for-json-number", got)
		}
		if have.Cmp(want) != 0 {
			return "number-differs"
		}
	default:
		return fmt.Sprintf("harness-json-%T", jv)
	}
	return ""
}

func c02MatchAll(got []any, want []*c02Node) bool {
	if len(got) != len(want) {
		return false
	}
	for i := range got {
		if !c02Match(got[i], want[i]) {
			return false
		}
	}
	return true
}

// c02AnyHas: name is an element (JSON name or choice base name) of the type of at least one node
func c02AnyHas(nodes []*c02Node, name string) bool {
	for _, n := range nodes {
		if n.md == nil {
			continue
		}
		if n.md.Fields().ByJSONName(name) != nil {
			return true
		}
		if n.md.FullName() == "google.fhir.r4.core.Reference" && name == "reference" {
			return true
		}
	}
	return false
}

func c02Expand(nodes []*c02Node, name string) []*c02Node {
	var out []*c02Node
	for _, n := range nodes {
		out = append(out, n.kids[name]...)
	}
	return out
}

// shape class of a name path for finding keys
func c02Shape(root *c02Node, names []string) string {
	cur := []*c02Node{root}
	var feats []string
	seen := map[string]bool{}
	addf := func(f string) {
		if !seen[f] {
			seen[f] = true
			feats = append(feats, f)
		}
	}
	for _, nm := range names {
		rep := false
		for _, n := range cur {
			rep = rep || n.repeated[nm]
		}
		next := c02Expand(cur, nm)
		if rep {
			addf("list")
		}
		for _, n := range next {
			if n.msg == nil {
				addf("reference")
			} else if n.copied {
				addf("contained")
			}
		}
		if c02Keywords[nm] {
			addf("keyword-name")
		}
		if strings.ContainsAny(nm, "0123456789") {
			addf("digit-name")
		}
		// choice step: the name is a choice base of some parent
		for _, n := range cur {
			if n.md != nil {
				if f := n.md.Fields().ByJSONName(nm); f != nil && f.Message() != nil && f.Message().Oneofs().ByName("choice") != nil && f.Message().Fields().Len() == f.Message().Oneofs().ByName("choice").Fields().Len() {
					addf("choice")
				}
				if f := n.md.Fields().ByJSONName(nm); f != nil && f.Message() != nil && f.Message().FullName() == "google.fhir.r4.core.ContainedResource" {
					addf("bundled")
				}
			}
		}
		cur = next
	}
	if len(cur) > 0 && cur[0].md != nil && lib.IsPrimitiveMsg(cur[0].md) {
		addf("primitive")
	}
	if len(feats) == 0 {
		return "plain"
	}
	sort.Strings(feats)
	return strings.Join(feats, "+")
}

// c02MixedPatient: one list whose items hold values of different types, ordered so that an item lacking an element comes
// before items that have it (a string before a typed reference before date-like primitives before a reference again)
func c02MixedPatient() proto.Message {
	ext := func(url string, v *dtpb.Extension_ValueX) *dtpb.Extension {
		return &dtpb.Extension{Url: fhir.URI(url), Value: v}
	}
	typedRef, err := reference.Typed("Practitioner", "pr7")
	if err != nil {
		panic(err)
	}
	versioned := reference.Weak("Practitioner", "Practitioner/pr7/_history/3")
	_ = jsonformat.NormalizeReference(versioned)
	return &ppb.Patient{
		Id: fhir.ID("mixed"),
		Extension: []*dtpb.Extension{
			ext("http://m/0", &dtpb.Extension_ValueX{Choice: &dtpb.Extension_ValueX_StringValue{StringValue: fhir.String("Tom")}}),
			ext("http://m/1", &dtpb.Extension_ValueX{Choice: &dtpb.Extension_ValueX_Reference{Reference: versioned}}),
			ext("http://m/2", &dtpb.Extension_ValueX{Choice: &dtpb.Extension_ValueX_DateTime{DateTime: lib.ProtoDateTime("2019-03-04T05:06:07+02:00")}}),
			ext("http://m/3", &dtpb.Extension_ValueX{Choice: &dtpb.Extension_ValueX_Boolean{Boolean: fhir.Boolean(false)}}),
			ext("http://m/4", &dtpb.Extension_ValueX{Choice: &dtpb.Extension_ValueX_Date{Date: lib.ProtoDate("2019-03-04")}}),
			ext("http://m/5", &dtpb.Extension_ValueX{Choice: &dtpb.Extension_ValueX_Reference{Reference: typedRef}}),
			ext("http://m/6", &dtpb.Extension_ValueX{Choice: &dtpb.Extension_ValueX_Period{Period: &dtpb.Period{Start: lib.ProtoDateTime("2020-01-01"), End: lib.ProtoDateTime("2020-12-31T23:59:59Z")}}}),
			ext("http://m/7", &dtpb.Extension_ValueX{Choice: &dtpb.Extension_ValueX_Time{Time: lib.ProtoTime("08:30:00")}}),
			// (no Quantity among them: its element `value` would share the step name with the library's `.value` step on primitives)
			ext("http://m/8", &dtpb.Extension_ValueX{Choice: &dtpb.Extension_ValueX_Coding{Coding: fhir.Coding("http://s", "c")}}),
			ext("http://m/9", &dtpb.Extension_ValueX{Choice: &dtpb.Extension_ValueX_Reference{Reference: &dtpb.Reference{Reference: &dtpb.Reference_Fragment{Fragment: fhir.String("c1")}, Display: fhir.String("frag")}}}),
			ext("http://m/10", &dtpb.Extension_ValueX{Choice: &dtpb.Extension_ValueX_Instant{Instant: lib.ProtoInstant("2020-02-29T10:30:15.250+05:30")}}),
		},
	}
}

func init() {
	core.Register(&core.Check{
		ID:          "C02",
		Rule:        "for every resource of the schema-covering family (146 types, every field populated, each-choice covering, depth 2 quick / 3 thorough; typed/versioned/absolute/fragment/URN references, contained resources, Bundle entries, primitive ids and extensions, every date/time precision): the jsonformat JSON tree is walked in parallel with the proto to build the logical element tree; every name path of the tree and every prefix is evaluated un-indexed with and without the root type, with exactly one step indexed (each step, indexes 0, 1, len-1, len) and fully indexed down to every single element; results are compared with the tree by pointer identity (equal copy through Any-packed contained resources, string value for Reference.reference), in document order; for every primitive element that has a JSON value, `<fully indexed path>.value` must yield one System value equal to the JSON value (strings, codes, dates, dateTimes, instants and times textually - hence same instant, precision and offset -, numbers numerically, booleans by value); every one of the other 145 resource type names as root gives empty; per message type, names of other types and proto-only names must fail with ErrInvalidField (unless the name is an element of another item's type at the same path: mixed contained resources, Bundle entries), and so must the rest of an indexed path whose selected item's type lacks the next name; non-trivial = distinct (resource, expression, outcome)",
		Assumptions: []string{"google/fhir jsonformat defines the FHIR JSON tree", "the parallel JSON/proto walk uses only proto descriptors (JSON names, oneof 'choice', ContainedResource, Any)"},
		Subs: func(tier string) []core.Sub {
			names := lib.ResourceTypeNames()
			depth, maxVar := 2, 4
			if tier == "thorough" {
				depth, maxVar = 3, 60
			}
			return []core.Sub{
				// all types in ONE process, before the per-type sweep touched anything in this worker: whatever the library
				// remembers about one type (a memo keyed by a name that is not unique across types) shows on a later type
				{Name: "all-types-in-one-process", N: 1, Note: "the first 2 variants of all 146 types in one process: un-indexed and fully indexed navigation and the value of every primitive", Run: func(_ int, r *core.Rec) {
					for _, tn := range names {
						c02Navigate(r, names, tn, 2, 2, true)
					}
				}},
				{Name: "absent-elements-over-mixed-types", N: 1, Note: "a Bundle and a contained list holding an Observation and a sparsely populated Patient (both orders): every element name of either type as the next step yields the elements that are there - nothing when the only type that has the name does not carry it - and never fails", Run: func(_ int, r *core.Rec) {
					obs := lib.Observation()
					sparse := &ppb.Patient{Id: fhir.ID("sparse"), Active: fhir.Boolean(true)}
					jsonNames := func(m proto.Message) []string {
						var out []string
						fs := m.ProtoReflect().Descriptor().Fields()
						for k := 0; k < fs.Len(); k++ {
							out = append(out, strings.TrimSuffix(fs.Get(k).JSONName(), "Value"))
						}
						return out
					}
					nameSet := map[string]bool{}
					for _, n := range append(jsonNames(obs), jsonNames(sparse)...) {
						nameSet[n] = true
					}
					count := func(res fhir.Resource, name string) int {
						rf := res.ProtoReflect()
						fd := rf.Descriptor().Fields().ByJSONName(name)
						if fd == nil || !rf.Has(fd) {
							return 0
						}
						if fd.IsList() {
							return rf.Get(fd).List().Len()
						}
						return 1
					}
					for _, order := range [][]fhir.Resource{{obs, sparse}, {sparse, obs}} {
						b := &bcrpb.Bundle{}
						carrier := &ppb.Patient{Id: fhir.ID("carrier")}
						for _, res := range order {
							b.Entry = append(b.Entry, &bcrpb.Bundle_Entry{Resource: containedresource.Wrap(res)})
							a, _ := anypb.New(containedresource.Wrap(res))
							carrier.Contained = append(carrier.Contained, a)
						}
						for name := range nameSet {
							if name == "contained" || name == "text" {
								continue
							}
							want := 0
							for _, res := range order {
								want += count(res, name)
							}
							for _, c := range []struct {
								in  fhir.Resource
								src string
							}{{b, "Bundle.entry.resource." + c02Ident(name)}, {carrier, "Patient.contained." + c02Ident(name)}} {
								got := lib.Run(c.src+".count() >= 0", []fhir.Resource{c.in}, nil)
								cnt := lib.Run(c.src, []fhir.Resource{c.in}, nil)
								r.Eval()
								r.Eval()
								r.State("absent-over-mixed")
								r.Nontrivial(c.src, fmt.Sprint(want), cnt.Class())
								if cnt.Panic != nil || !cnt.OK() || !got.OK() {
									r.Fail("absent-element-over-mixed-types|fails|"+cnt.Class(), core.W{"src": c.src, "got": core.Short(cnt.String(), 200), "elements_present": want, "order": fmt.Sprintf("%T, %T", order[0], order[1])})
								} else if name != "value" && name != "effective" && len(cnt.Coll) != want {
									r.Fail("absent-element-over-mixed-types|count-differs", core.W{"src": c.src, "got_count": len(cnt.Coll), "elements_present": want})
								}
							}
						}
					}
				}},
				{Name: "navigation", N: len(names), Note: fmt.Sprintf("146 types x covering instances (depth %d, <=%d variants)", depth, maxVar), Run: func(i int, r *core.Rec) {
					c02Navigate(r, names, names[i], depth, maxVar, false)
				}}}
		},
	})
}

func c02Navigate(r *core.Rec, names []string, tn string, depth, maxVar int, light bool) {
	{
		{
			{
				family := lib.Family(tn, depth, maxVar)
				if tn == "Patient" {
					family = append(family, c02MixedPatient())
				}
				for vi, resm := range family {
					res := resm.(fhir.Resource)
					tree, _, err := lib.ResourceJSON(res)
					if err != nil {
						r.Fail("generator|not-marshallable", core.W{"type": tn, "variant": vi, "err": err.Error()})
						continue
					}
					b := &c02Builder{}
					root := b.build(tree, res.ProtoReflect(), false)
					if len(b.problems) > 0 {
						r.Fail("harness|json-proto-walk-misaligned", core.W{"type": tn, "variant": vi, "problems": b.problems[:1]})
						continue
					}
					in := []fhir.Resource{res}
					eval := func(src string) lib.Res {
						res := lib.Run(src, in, nil)
						r.Eval()
						return res
					}
					check := func(spelling string, names []string, src string, want []*c02Node, wantErr bool) {
						got := eval(src)
						shape := c02Shape(root, names)
						r.State(spelling + "|" + shape)
						r.Outcome(spelling + "|" + got.Class())
						r.Nontrivial(tn, fmt.Sprint(vi), src, got.Class())
						if r.WantSample() {
							r.Sample(core.W{"type": tn, "variant": vi, "src": src, "elements": len(want)})
						}
						if got.Panic != nil {
							r.Fail(strings.Join([]string{"navigation", spelling, shape, got.Panic.Key()}, "|"), core.W{"type": tn, "variant": vi, "src": src})
							return
						}
						if wantErr {
							// the name is not an element of the type of any selected item
							if got.CompileErr == nil && (got.Err == nil || !errors.Is(got.Err, fhirpath.ErrInvalidField)) {
								r.Fail(strings.Join([]string{"navigation", spelling, shape, "want-invalid-field-got-" + got.Class()}, "|"), core.W{"type": tn, "variant": vi, "src": src, "got": core.Short(got.String(), 300)})
							}
							return
						}
						if !got.OK() {
							r.Fail(strings.Join([]string{"navigation", spelling, shape, got.Class()}, "|"), core.W{"type": tn, "variant": vi, "src": src, "got": core.Short(got.String(), 300), "want_elements": len(want)})
							return
						}
						if !c02MatchAll([]any(got.Coll), want) {
							d := "other-elements"
							if len(got.Coll) != len(want) {
								d = fmt.Sprintf("count-differs:got%s", map[bool]string{true: "<", false: ">"}[len(got.Coll) < len(want)])
							}
							r.Fail(strings.Join([]string{"navigation", spelling, shape, d}, "|"), core.W{"type": tn, "variant": vi, "src": src, "got": core.Short(got.String(), 300), "got_count": len(got.Coll), "want_count": len(want)})
						}
					}
					// enumerate every name path (DFS over names)
					seenMD := map[protoreflect.FullName]bool{}
					var walk func(names []string, nodes []*c02Node)
					walk = func(names []string, nodes []*c02Node) {
						path := tn
						for _, nm := range names {
							path += "." + c02Ident(nm)
						}
						if len(names) > 0 {
							// a list of primitives (of one type or of several): the values in document order, none dropped
							if len(nodes) >= 2 {
								allPrim := true
								var prims []*c02Node
								for _, n := range nodes {
									switch {
									case n.md != nil && lib.IsPrimitiveMsg(n.md) && n.jval != nil:
										prims = append(prims, n)
									case n.md != nil && !lib.IsPrimitiveMsg(n.md) && n.md.Fields().ByName("value") == nil && len(n.kids["value"]) == 0:
										// a complex item without an element named value contributes nothing to the step
									default:
										allPrim = false
									}
								}
								if allPrim && len(prims) >= 2 {
									nodes := prims
									gv := eval(path + ".value")
									r.State("primitive-values-of-a-list")
									r.Nontrivial(tn, fmt.Sprint(vi), path+".value", gv.Class())
									bad := ""
									if gv.Panic != nil {
										bad = gv.Panic.Key()
									} else if !gv.OK() || len(gv.Coll) != len(nodes) {
										bad = "count-differs"
									} else {
										for k := range nodes {
											if d := c02PrimDiff(gv.Coll[k], nodes[k].jval); d != "" {
												bad = d
												break
											}
										}
									}
									if bad != "" {
										r.Fail("primitive-values-of-a-list|"+bad, core.W{"type": tn, "variant": vi, "src": path + ".value", "got": core.Short(gv.String(), 300), "elements": len(nodes)})
									}
								}
							}
							check("unindexed", names, path, nodes, false)
							check("no-root", names, strings.TrimPrefix(path, tn+"."), nodes, false)
							// exactly one step indexed
							prefix := []*c02Node{root}
							for s := range names {
								if light {
									break
								}
								prefix = c02Expand(prefix, names[s])
								idxs := map[int]bool{0: true, 1: true, len(prefix) - 1: true, len(prefix): true}
								for idx := range idxs {
									if idx < 0 {
										continue
									}
									src := tn
									for k, nm := range names {
										src += "." + c02Ident(nm)
										if k == s {
											src += fmt.Sprintf("[%d]", idx)
										}
									}
									var want []*c02Node
									wantErr := false
									if idx < len(prefix) {
										want = []*c02Node{prefix[idx]}
										for _, nm := range names[s+1:] {
											// with mixed types at the indexed step (contained resources, Bundle entries) the
											// rest of the path may name an element that the selected item's type does not have
											if len(want) > 0 && !c02AnyHas(want, nm) {
												wantErr = true
												break
											}
											want = c02Expand(want, nm)
										}
									}
									check("one-index", names, src, want, wantErr)
								}
							}
						}
						// negative names, once per message type of this resource
						for _, n := range nodes {
							if light || n.md == nil || seenMD[n.md.FullName()] {
								continue
							}
							seenMD[n.md.FullName()] = true
							for _, bad := range c02BadNames(n.md) {
								if c02AnyHas(nodes, bad) {
									continue // an element of another item's type at this path (mixed contained resources / Bundle entries)
								}
								src := path + "." + bad
								got := eval(src)
								r.State("negative|" + string(n.md.Name()))
								r.Nontrivial(tn, src, got.Class())
								if got.Panic != nil {
									r.Fail("invalid-name|"+got.Panic.Key(), core.W{"src": src, "message": string(n.md.FullName())})
								} else if got.CompileErr != nil {
									continue // rejected even earlier
								} else if got.Err == nil {
									r.Fail("invalid-name|accepted|"+c02BadClass(bad)+"|result="+got.Class(), core.W{"src": src, "message": string(n.md.FullName()), "got": core.Short(got.String(), 200)})
								} else if !errors.Is(got.Err, fhirpath.ErrInvalidField) {
									r.Fail("invalid-name|other-error|"+c02BadClass(bad), core.W{"src": src, "message": string(n.md.FullName()), "err": got.Err.Error()})
								}
							}
						}
						// children names in first-occurrence order over all nodes
						var childNames []string
						cs := map[string]bool{}
						for _, n := range nodes {
							for _, nm := range n.names {
								if !cs[nm] {
									cs[nm] = true
									childNames = append(childNames, nm)
								}
							}
						}
						for _, nm := range childNames {
							walk(append(append([]string{}, names...), nm), c02Expand(nodes, nm))
						}
					}
					walk(nil, []*c02Node{root})
					// fully indexed: every single element
					var full func(src string, n *c02Node)
					full = func(src string, n *c02Node) {
						for _, nm := range n.names {
							for k, c := range n.kids[nm] {
								s := src + "." + c02Ident(nm)
								if n.repeated[nm] {
									s += fmt.Sprintf("[%d]", k)
								} else if len(n.kids[nm]) != 1 {
									continue
								}
								got := eval(s)
								r.State("fully-indexed")
								r.Nontrivial(tn, fmt.Sprint(vi), s, got.Class())
								if got.Panic != nil || !got.OK() || !c02MatchAll([]any(got.Coll), []*c02Node{c}) {
									d := got.Class()
									if got.Panic != nil {
										d = got.Panic.Key()
									}
									r.Fail("navigation|fully-indexed|"+d, core.W{"type": tn, "variant": vi, "src": s, "got": core.Short(got.String(), 300)})
								}
								if c.jval != nil && c.md != nil && lib.IsPrimitiveMsg(c.md) {
									vs := s + ".value"
									gv := eval(vs)
									kind := string(c.md.Name())
									r.State("primitive-value|" + kind)
									r.Nontrivial(tn, fmt.Sprint(vi), vs, gv.Class())
									if gv.Panic != nil {
										r.Fail("primitive-value|"+kind+"|"+gv.Panic.Key(), core.W{"type": tn, "variant": vi, "src": vs})
									} else if !gv.OK() || len(gv.Coll) != 1 {
										r.Fail("primitive-value|"+kind+"|"+gv.Class(), core.W{"type": tn, "variant": vi, "src": vs, "got": core.Short(gv.String(), 200), "json": fmt.Sprint(c.jval)})
									} else if d := c02PrimDiff(gv.Coll[0], c.jval); d != "" {
										r.Fail("primitive-value|"+kind+"|"+d, core.W{"type": tn, "variant": vi, "src": vs, "got": core.Short(gv.String(), 200), "json": fmt.Sprint(c.jval)})
									}
									// a date-like element is the value its JSON text denotes: equal to the literal of the same text
									if js, isStr := c.jval.(string); isStr {
										lit := ""
										switch kind {
										case "Date":
											lit = "@" + js
										case "DateTime", "Instant":
											lit = "@" + js
											if !strings.Contains(js, "T") {
												lit += "T"
											}
										case "Time":
											lit = "@T" + js
										}
										if lit != "" {
											ls := s + " = " + lit
											ge := eval(ls)
											r.State("primitive-equals-literal|" + kind)
											r.Nontrivial(tn, fmt.Sprint(vi), ls, ge.Class())
											if !(ge.OK() && len(ge.Coll) == 1 && ge.Coll[0] == system.Boolean(true)) {
												r.Fail("primitive-equals-literal|"+kind+"|"+ge.Class(), core.W{"type": tn, "variant": vi, "src": ls, "got": core.Short(ge.String(), 200)})
											}
										}
									}
								}
								full(s, c)
							}
						}
					}
					full(tn, root)
					// the resource is the caller's: after it re-packed a contained resource in place, an expression compiled
					// before sees the new content (nothing about the old content may stick to the compiled expression)
					if light {
						continue
					}
					if cl, ok := proto.Clone(res).(fhir.Resource); ok {
						cf := cl.ProtoReflect().Descriptor().Fields().ByName("contained")
						if cf != nil && cf.IsList() && cl.ProtoReflect().Get(cf).List().Len() > 0 {
							srcs := []string{tn + ".contained.id", tn + ".contained[0].id", tn + ".contained.meta.versionId", "contained.id.count()"}
							var comps []lib.Res
							for _, src := range srcs {
								c := lib.Compile(src)
								comps = append(comps, c)
								lib.EvalOpts(c, []fhir.Resource{cl}, lib.EnvOpts(nil)...) // first evaluation, old content
								r.Eval()
							}
							a := cl.ProtoReflect().Get(cf).List().Get(0).Message().Interface().(*anypb.Any)
							cr := &bcrpb.ContainedResource{}
							if a.UnmarshalTo(cr) == nil {
								if inner := cr.ProtoReflect().WhichOneof(cr.ProtoReflect().Descriptor().Oneofs().ByName("oneof_resource")); inner != nil {
									im := cr.ProtoReflect().Mutable(inner).Message()
									if idf := im.Descriptor().Fields().ByName("id"); idf != nil {
										im.Set(idf, protoreflect.ValueOfMessage(fhir.ID("repacked-1").ProtoReflect()))
									}
									if a.MarshalFrom(cr) == nil {
										for k, src := range srcs {
											again := lib.EvalOpts(comps[k], []fhir.Resource{cl}, lib.EnvOpts(nil)...)
											fresh := lib.Run(src, []fhir.Resource{cl}, nil)
											r.Eval()
											r.State("repacked-contained")
											r.Nontrivial(tn, "repacked", src, again.Class())
											if again.String() != fresh.String() {
												r.Fail("navigation|contained-resource-repacked-in-place|compiled-expression-sees-stale-content", core.W{"type": tn, "variant": vi, "src": src, "reused_expression": core.Short(again.String(), 200), "fresh_expression": core.Short(fresh.String(), 200)})
											}
										}
									}
								}
							}
						}
					}
					// every other root type gives empty
					others := []string{"Patient", "Observation", "Basic", "Bundle"}
					if vi == 0 {
						others = names // every other R4 resource type name, once per type
					}
					for _, other := range others {
						if other == tn {
							continue
						}
						first := "id"
						if len(root.names) > 0 {
							first = root.names[0]
						}
						for _, src := range []string{other, other + "." + c02Ident(first)} {
							got := eval(src)
							r.State("other-root")
							if got.Panic != nil || !got.OK() || len(got.Coll) != 0 {
								r.Fail("other-root-type|not-empty|"+got.Class(), core.W{"type": tn, "src": src, "got": core.Short(got.String(), 200)})
							}
						}
					}
				}
			}
		}
	}
}

func c02BadClass(name string) string {
	switch {
	case strings.Contains(name, "_"):
		return "snake_case"
	case name == "valueUs" || name == "precision" || name == "timezone":
		return "proto-only"
	case name != "" && name[0] >= 'A' && name[0] <= 'Z':
		return "type-name"
	}
	return "foreign-name"
}

// names that are not elements of the message type
func c02BadNames(md protoreflect.MessageDescriptor) []string {
	var out []string
	has := func(n string) bool {
		if md.Fields().ByJSONName(n) != nil {
			return true
		}
		f, _, _ := c02MapKey(md, n+"X")
		return f != nil
	}
	// (incl. names of resource types and data types: below the root they are element names like any other, not type filters)
	for _, cand := range []string{"birthDate", "noSuchElement", "effective", "linkId", "given", "Observation", "Patient", "Encounter", "HumanName", "Resource"} {
		if !has(cand) && !(string(md.FullName()) == "google.fhir.r4.core.Reference" && cand == "reference") {
			out = append(out, cand)
		}
	}
	if md.Fields().ByName("value_us") != nil {
		out = append(out, "valueUs", "precision", "timezone")
	}
	// the snake_case spelling of a multi-word element
	for i := 0; i < md.Fields().Len(); i++ {
		f := md.Fields().Get(i)
		if strings.Contains(string(f.Name()), "_") && f.ContainingOneof() == nil {
			out = append(out, string(f.Name()))
			break
		}
	}
	return out
}
