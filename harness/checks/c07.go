package checks

import (
	"fmt"
	"github.com/verily-src/fhirpath-go/fhirpath/verifh/ftab"
	"sort"
	"strings"

	"github.com/verily-src/fhirpath-go/fhirpath"
	"github.com/verily-src/fhirpath-go/fhirpath/compopts"
	"github.com/verily-src/fhirpath-go/fhirpath/system"
	"github.com/verily-src/fhirpath-go/fhirpath/verifh/core"
	"github.com/verily-src/fhirpath-go/fhirpath/verifh/lib"
	"github.com/verily-src/fhirpath-go/internal/fhir"
)

// ---- C07: empty collections propagate through operators and functions.

// the three ways of supplying the empty collection
var emptySources = []struct{ name, src string }{
	{"literal", "{}"},
	{"absent-path", "Patient.name.first().period"},
	{"env", "%e"},
	{"env-nil-slice", "%en"}, // an empty collection that is a nil slice: `var c system.Collection`, or an earlier result
}

// aggregates documented as not propagating empty
var c07Aggregates = map[string]bool{"exists": true, "empty": true, "count": true, "all": true, "allTrue": true, "anyTrue": true,
	"allFalse": true, "anyFalse": true, "isDistinct": true, "iif": true, "now": true, "today": true, "timeOfDay": true}

// arguments that require a single value (position -> true), per function
var c07SingleArg = map[string][]bool{
	"skip": {true}, "take": {true}, "indexOf": {true}, "substring": {true, true}, "startsWith": {true}, "endsWith": {true}, "contains": {true},
	"replace": {true, true}, "matches": {true}, "replaceMatches": {true, true}, "log": {true}, "power": {true},
	"extension": {true}, "round": {true}, "toQuantity": {true}, "join": {true},
	// optional parameters (substring length, round precision, toQuantity unit, join separator): once the
	// argument is supplied it has to be a single value, so a supplied-but-empty argument must give empty or
	// an error, not the result of the call without the argument (seeded change C07/m2 showed the gap).
	// convertsToQuantity({}) = false is left to totality: "cannot be converted to an unknown unit" is a
	// defensible answer and not a fabricated conversion result.
}

func c07Env() map[string]any {
	return map[string]any{"e": system.Collection{}, "en": system.Collection(nil)}
}

// c07Alternatives: other well-typed values for a literal companion (receiver or argument):
// identity elements, zero, negative, boundary and fractional numbers; empty and short strings.
func c07Alternatives(lit string) []string {
	switch {
	case lit == "true" || lit == "false":
		return []string{"true", "false"}
	case strings.HasPrefix(lit, "'"):
		return []string{"''", "'a'", "'abc'", "'1'"}
	case strings.Trim(lit, "0123456789.-()") == "" && lit != "":
		return []string{"0", "1", "(-1)", "2", "1.0", "0.5", "0.0", "2147483647"}
	}
	return nil
}

// c07Rebound: the empty collection supplied through %e must propagate whatever
// the same compiled expression saw in %e before, and a value supplied after the
// empty binding must give what a freshly compiled expression gives for it.
func c07Rebound(r *core.Rec, key, src string, fresh lib.Res, input func() []fhir.Resource, copts ...fhirpath.CompileOption) {
	if !strings.Contains(src, "%e") || fresh.CompileErr != nil || fresh.Panic != nil {
		return
	}
	for _, w := range []struct {
		name string
		v    any
	}{{"Integer", system.Integer(0)}, {"String", system.String("a")}, {"Boolean", system.Boolean(true)}} {
		c := lib.Compile(src, copts...)
		first := lib.EvalOpts(c, input(), lib.EnvOpts(map[string]any{"e": w.v})...)
		second := lib.EvalOpts(c, input(), lib.EnvOpts(c07Env())...)
		c2 := lib.Compile(src, copts...)
		lib.EvalOpts(c2, input(), lib.EnvOpts(c07Env())...)
		again := lib.EvalOpts(c2, input(), lib.EnvOpts(map[string]any{"e": w.v})...)
		r.AddEvals(4)
		r.State("rebound|" + w.name)
		if second.String() != fresh.String() {
			r.Fail("rebinding|"+key+"|empty-after-"+w.name+"|differs-from-fresh-expression", core.W{"src": src, "first_binding": w.name, "then_empty_gives": second.String(), "fresh_expression_gives": fresh.String()})
		}
		if again.String() != first.String() {
			r.Fail("rebinding|"+key+"|"+w.name+"-after-empty|differs-from-fresh-expression", core.W{"src": src, "binding": w.name, "after_empty_gives": again.String(), "fresh_expression_gives": first.String()})
		}
	}
}

func init() {
	binops := []string{"+", "-", "*", "/", "div", "mod", "<", "<=", ">", ">=", "=", "!=", "&"}
	others := []string{"1", "1.5", "'a'", "@2020-01-01", "@2020-01-01T10:00:00Z", "@T10:00", "1 'mg'", "true", "Patient.name.first()", "Patient.name"}
	input := func() []fhir.Resource { return []fhir.Resource{lib.Patient()} }

	core.Register(&core.Check{
		ID:          "C07",
		Rule:        "complete enumeration: every binary operator x operand position x 4 empty sources x 10 typed other operands (and both-empty); unary/type/indexer operators; every function-table name (read from the tree) x every arity Compile accepts x every position holding the empty collection with the other positions well-typed, and each other literal position additionally varied over 0/1/-1/2/1.0/0.5/MaxInt32 resp. ''/'a'/'abc'/'1' resp. true/false; every program that takes the empty collection from %e is also evaluated on one compiled expression after %e was bound to an Integer, a String and a Boolean (and those after the empty binding), with the freshly compiled expression as reference; non-trivial = distinct (program, outcome)",
		Assumptions: []string{"well-typed companion arguments come from the specification signature table of C16"},
		Subs: func(tier string) []core.Sub {
			tbl := ftab.Table(true)
			var names []string
			for k := range tbl {
				names = append(names, k)
			}
			sort.Strings(names)
			return []core.Sub{
				{Name: "binary-operators", N: len(binops) * len(emptySources), Note: "13 operators x 4 empty sources; inner: 2 positions x 10 other operands + both-empty", Run: func(i int, r *core.Rec) {
					op, es := binops[i/len(emptySources)], emptySources[i%len(emptySources)]
					check := func(src, pos, other string) {
						res := lib.Run(src, input(), c07Env())
						r.Eval()
						c07Rebound(r, "op|"+op+"|"+pos, src, res, input)
						r.State(op + "|" + pos + "|" + es.name)
						r.Outcome(op + "|" + res.Class())
						r.Nontrivial(src, res.Class())
						if r.WantSample() {
							r.Sample(core.W{"src": src, "got": res.String()})
						}
						if op == "&" {
							// & treats empty as '': result must be a single String (or an error when the other operand is not a string)
							if res.Panic != nil {
								r.Fail("op|&|"+pos+"|"+es.name+"|"+res.Panic.Key(), core.W{"src": src, "got": res.String()})
								return
							}
							isStr := other == "'a'" || other == ""
							if isStr {
								want := "a"
								if other == "" {
									want = ""
								}
								if !(res.OK() && len(res.Coll) == 1 && res.Coll[0] == system.String(want)) {
									r.Fail("op|&|"+pos+"|"+es.name+"|want-string-got-"+res.Class(), core.W{"src": src, "got": res.String(), "want": want})
								}
							} else if res.OK() && len(res.Coll) == 0 {
								// non-string other operand: error or a value are both outside this property; empty is wrong since & never yields empty
								r.Fail("op|&|"+pos+"|"+es.name+"|empty-result", core.W{"src": src, "got": res.String()})
							}
							return
						}
						if !(res.OK() && len(res.Coll) == 0) {
							d := res.Class()
							if res.Panic != nil {
								d = res.Panic.Key()
							}
							r.Fail(fmt.Sprintf("op|%s|%s|%s|other=%s|%s", op, pos, es.name, operandClass(other), d), core.W{"src": src, "got": res.String(), "want": "[]"})
						}
					}
					for _, o := range others {
						check(es.src+" "+op+" "+o, "left", o)
						check(o+" "+op+" "+es.src, "right", o)
					}
					for _, es2 := range emptySources {
						check(es.src+" "+op+" "+es2.src, "both", "")
					}
				}},
				{Name: "unary-type-index", N: len(emptySources), Note: "polarity, is/as with FHIR and System types, indexer in both positions", Run: func(i int, r *core.Rec) {
					es := emptySources[i]
					progs := []struct{ name, src string }{
						{"neg", "-(" + es.src + ")"}, {"pos", "+(" + es.src + ")"},
						{"is.System", es.src + " is Integer"}, {"is.FHIR", es.src + " is Patient"}, {"is.qualified", es.src + " is System.String"},
						{"as.System", es.src + " as Integer"}, {"as.FHIR", es.src + " as HumanName"}, {"as.qualified", es.src + " as FHIR.string"},
						{"index.base", "(" + es.src + ")[0]"}, {"index.base.max", "(" + es.src + ")[2147483647]"}, {"index.base.max-1", "(" + es.src + ")[2147483646]"}, {"index.base.computed-max", "(" + es.src + ")[2147483646 + 1]"}, {"index.base.1", "(" + es.src + ")[1]"}, {"index.base.neg", "(" + es.src + ")[-1]"}, {"index.base.min", "(" + es.src + ")[-2147483647 - 1]"}, {"index.arg", "Patient.name[" + es.src + "]"}, {"index.both", "(" + es.src + ")[" + es.src + "]"},
						{"path", "(" + es.src + ").id"}, {"paren", "(" + es.src + ")"},
					}
					for _, p := range progs {
						res := lib.Run(p.src, input(), c07Env())
						r.Eval()
						c07Rebound(r, "op|"+p.name, p.src, res, input)
						r.State(p.name + "|" + es.name)
						r.Outcome(p.name + "|" + res.Class())
						r.Nontrivial(p.src, res.Class())
						r.Sample(core.W{"src": p.src, "got": res.String()})
						if !(res.OK() && len(res.Coll) == 0) {
							d := res.Class()
							if res.Panic != nil {
								d = res.Panic.Key()
							}
							r.Fail(fmt.Sprintf("op|%s|%s|%s", p.name, es.name, d), core.W{"src": p.src, "got": res.String(), "want": "[]"})
						}
					}
				}},
				{Name: "functions", N: len(names), Note: "table name x accepted arity x position (receiver, each argument) x 4 empty sources", Run: func(i int, r *core.Rec) {
					name := names[i]
					fn := tbl[name]
					if fn.Impl == ftab.Placeholder {
						return // the statement speaks of implemented functions
					}
					sig, ok := n1[name]
					if !ok {
						sig, ok = documentedExt[name]
					}
					if !ok {
						sig = specSig{recv: "Patient.name"}
					}
					copts := []fhirpath.CompileOption{compopts.WithExperimentalFuncs()}
					for n := fn.Min; n <= fn.Max && n <= 4; n++ {
						for _, es := range emptySources {
							for pos := -1; pos < n; pos++ { // -1 = receiver
								args := fillArgs(sig, n)
								recv := sig.recv
								posName := "receiver"
								if pos < 0 {
									recv = "(" + es.src + ")"
								} else {
									args[pos] = es.src
									if es.name == "absent-path" {
										// arguments are evaluated against the receiver, so the absent path is rooted at %context
										args[pos] = "%context.name.first().period"
									}
									posName = fmt.Sprintf("arg%d", pos)
								}
								runCase := func(recv string, args []string) {
									src := callSrc(recv, name, args)
									res := lib.Run(src, input(), c07Env(), copts...)
									r.Eval()
									c07Rebound(r, fmt.Sprintf("fn|%s|arity=%d|%s", name, n, posName), src, res, input, copts...)
									r.State(fmt.Sprintf("fn|%s|%d|%s|%s", name, n, posName, es.name))
									r.Outcome(name + "|" + res.Class())
									r.Nontrivial(src, res.Class())
									if r.WantSample() {
										r.Sample(core.W{"src": src, "got": res.String()})
									}
									key := func(d string) string { return fmt.Sprintf("fn|%s|arity=%d|%s|%s|%s", name, n, posName, es.name, d) }
									if res.Panic != nil {
										r.Fail(key(res.Panic.Key()), core.W{"src": src, "got": res.String()})
										return
									}
									if res.CompileErr != nil {
										r.Fail(key("compile-error"), core.W{"src": src, "got": res.String()})
										return
									}
									if pos < 0 {
										if c07Aggregates[name] {
											return // totality only
										}
										if !(res.Err == nil && len(res.Coll) == 0) {
											r.Fail(key(res.Class()+"-instead-of-empty"), core.W{"src": src, "got": res.String(), "want": "[]"})
										}
										return
									}
									// empty argument where a single value is required: empty or error, never a value
									if sa := c07SingleArg[name]; pos < len(sa) && sa[pos] {
										if res.Err == nil && len(res.Coll) > 0 {
											r.Fail(key("fabricated-value"), core.W{"src": src, "got": res.String(), "want": "[] or error"})
										}
									}
								}
								runCase(recv, args)
								// the same call made just before with a value in the empty position (the empty string, a short string, zero,
								// a Boolean): nothing of that call may stand in for the empty argument of the next one
								if pos >= 0 {
									for _, prime := range []string{"''", "'a'", "0", "true", "'.'"} {
										pa := append([]string{}, args...)
										pa[pos] = prime
										lib.Run(callSrc(recv, name, pa), input(), c07Env(), copts...)
										r.Eval()
										runCase(recv, args)
									}
								}
								// the companions of the empty position varied one at a time over values a shortcut could single out
								for q := -1; q < n; q++ {
									if q == pos {
										continue
									}
									cur := recv
									if q >= 0 {
										cur = args[q]
									}
									for _, alt := range c07Alternatives(cur) {
										r2, a2 := recv, append([]string{}, args...)
										if q < 0 {
											r2 = alt
										} else {
											a2[q] = alt
										}
										runCase(r2, a2)
									}
								}
							}
						}
					}
				}},
			}
		},
	})
}

func operandClass(src string) string {
	switch src {
	case "":
		return "empty"
	case "1":
		return "Integer"
	case "1.5":
		return "Decimal"
	case "'a'":
		return "String"
	case "true":
		return "Boolean"
	case "1 'mg'":
		return "Quantity"
	case "Patient.name.first()":
		return "complex"
	case "Patient.name":
		return "multi"
	}
	if len(src) > 0 && src[0] == '@' {
		if len(src) > 1 && src[1] == 'T' {
			return "Time"
		}
		if len(src) > 11 {
			return "DateTime"
		}
		return "Date"
	}
	return "other"
}
