package checks

import (
	"errors"
	"fmt"
	bcrpb "github.com/google/fhir/go/proto/google/fhir/proto/r4/core/resources/bundle_and_contained_resource_go_proto"
	ppb "github.com/google/fhir/go/proto/google/fhir/proto/r4/core/resources/patient_go_proto"
	"github.com/verily-src/fhirpath-go/internal/containedresource"
	"google.golang.org/protobuf/reflect/protoregistry"
	"sort"
	"strings"

	apb "github.com/google/fhir/go/proto/google/fhir/proto/annotations_go_proto"
	dtpb "github.com/google/fhir/go/proto/google/fhir/proto/r4/core/datatypes_go_proto"
	"github.com/verily-src/fhirpath-go/fhirpath/patch"
	"github.com/verily-src/fhirpath-go/fhirpath/verifh/core"
	"github.com/verily-src/fhirpath-go/fhirpath/verifh/lib"
	"github.com/verily-src/fhirpath-go/internal/fhir"
	"google.golang.org/protobuf/proto"
	"google.golang.org/protobuf/reflect/protoreflect"
)

// ---- C18: FHIRPatch operations change exactly the targeted element, or nothing.

// c18Node is one element of the logical tree of a resource, built from the
// proto by descriptors only (C02 checks that this walk is aligned with the jsonformat tree).
type c18Node struct {
	msg    protoreflect.Message // the element itself (chosen value of a choice)
	parent *c18Node
	fd     protoreflect.FieldDescriptor // field of parent.msg that holds it (or its choice wrapper)
	idx    int                          // index in the list, -1 for a singular field
	choice bool                         // held through a choice wrapper
	name   string                       // FHIR element name (choice base name)
	kids   []*c18Node
}

func c18IsChoice(md protoreflect.MessageDescriptor) bool {
	od := md.Oneofs().ByName("choice")
	return od != nil && md.Fields().Len() == od.Fields().Len()
}

func c18Build(m protoreflect.Message, parent *c18Node, fd protoreflect.FieldDescriptor, idx int, choice bool, name string) *c18Node {
	n := &c18Node{msg: m, parent: parent, fd: fd, idx: idx, choice: choice, name: name}
	md := m.Descriptor()
	if string(md.FullName()) == "google.fhir.r4.core.Reference" {
		// the reference string is one element; its proto representation (oneof) is not descended into
	}
	for i := 0; i < md.Fields().Len(); i++ {
		f := md.Fields().Get(i)
		if f.Message() == nil || f.IsMap() || !m.Has(f) {
			continue
		}
		if f.ContainingOneof() != nil && string(md.FullName()) == "google.fhir.r4.core.Reference" {
			continue
		}
		full := string(f.Message().FullName())
		if full == "google.protobuf.Any" || full == "google.fhir.r4.core.ContainedResource" {
			continue // contained / bundled resources are not patched through in this exploration
		}
		visit := func(c protoreflect.Message, k int) {
			if c18IsChoice(c.Descriptor()) {
				alt := c.WhichOneof(c.Descriptor().Oneofs().ByName("choice"))
				if alt == nil {
					return
				}
				n.kids = append(n.kids, c18Build(c.Get(alt).Message(), n, f, k, true, f.JSONName()))
				return
			}
			n.kids = append(n.kids, c18Build(c, n, f, k, false, f.JSONName()))
		}
		if f.IsList() {
			l := m.Get(f).List()
			for k := 0; k < l.Len(); k++ {
				visit(l.Get(k).Message(), k)
			}
		} else {
			visit(m.Get(f).Message(), -1)
		}
	}
	return n
}

// locator: (field number, index) from the root
type c18Step struct {
	num protoreflect.FieldNumber
	idx int
}

func (n *c18Node) locator() []c18Step {
	if n.parent == nil {
		return nil
	}
	return append(n.parent.locator(), c18Step{n.fd.Number(), n.idx})
}

func (n *c18Node) path(root string) string {
	if n.parent == nil {
		return root
	}
	s := n.parent.path(root) + "." + c02Ident(n.name)
	if n.idx >= 0 {
		s += fmt.Sprintf("[%d]", n.idx)
	}
	return s
}

// c18Flattened: the un-indexed path of n (element names only), the rank of n among the nodes that path selects
// (document order) and their number
func c18Flattened(tree, n *c18Node, root string) (string, int, int) {
	var names []string
	for x := n; x.parent != nil; x = x.parent {
		names = append([]string{x.name}, names...)
	}
	cur := []*c18Node{tree}
	path := root
	for _, nm := range names {
		var next []*c18Node
		for _, c := range cur {
			for _, k := range c.kids {
				if k.name == nm {
					next = append(next, k)
				}
			}
		}
		cur = next
		path += "." + c02Ident(nm)
	}
	rank := -1
	for i, c := range cur {
		if c == n {
			rank = i
		}
	}
	return path, rank, len(cur)
}

// resolve a locator in another copy of the resource: returns the message that owns the last field
func c18Owner(root protoreflect.Message, loc []c18Step) (owner protoreflect.Message, fd protoreflect.FieldDescriptor, idx int) {
	cur := root
	for i, st := range loc {
		f := cur.Descriptor().Fields().ByNumber(st.num)
		if i == len(loc)-1 {
			return cur, f, st.idx
		}
		var c protoreflect.Message
		if st.idx >= 0 {
			c = cur.Get(f).List().Get(st.idx).Message()
		} else {
			c = cur.Get(f).Message()
		}
		if c18IsChoice(c.Descriptor()) {
			c = c.Get(c.WhichOneof(c.Descriptor().Oneofs().ByName("choice"))).Message()
		}
		cur = c
	}
	return cur, nil, -1
}

// wrap the value for a field: itself, or a choice wrapper with the matching alternative; nil if impossible
func c18ForField(f protoreflect.FieldDescriptor, value proto.Message) protoreflect.Message {
	target := f.Message()
	if c18IsChoice(target) {
		od := target.Oneofs().ByName("choice")
		for i := 0; i < od.Fields().Len(); i++ {
			alt := od.Fields().Get(i)
			if alt.Message() != nil && alt.Message().FullName() == value.ProtoReflect().Descriptor().FullName() {
				w := dynamicNew(target)
				w.Set(alt, protoreflect.ValueOfMessage(proto.Clone(value).ProtoReflect()))
				return w
			}
		}
		return nil
	}
	if target.FullName() != value.ProtoReflect().Descriptor().FullName() {
		return nil
	}
	return proto.Clone(value).ProtoReflect()
}

var c18Protos = map[protoreflect.FullName]protoreflect.Message{}

// dynamicNew creates a new generated message of the descriptor (found through a registered prototype)
func dynamicNew(md protoreflect.MessageDescriptor) protoreflect.Message {
	return c18Protos[md.FullName()].New()
}

func c18Register(m protoreflect.Message) {
	if _, ok := c18Protos[m.Descriptor().FullName()]; ok {
		return
	}
	c18Protos[m.Descriptor().FullName()] = m.Type().New()
	md := m.Descriptor()
	for i := 0; i < md.Fields().Len(); i++ {
		f := md.Fields().Get(i)
		if f.Message() != nil && !f.IsMap() {
			if f.IsList() {
				c18Register(m.NewField(f).List().NewElement().Message())
			} else {
				c18Register(m.NewField(f).Message())
			}
		}
	}
}

// ---- the reference model: the operation applied structurally on a copy

func c18ModelDelete(root protoreflect.Message, loc []c18Step) {
	owner, f, idx := c18Owner(root, loc)
	if idx < 0 {
		owner.Clear(f)
		return
	}
	old := owner.Get(f).List()
	nl := owner.NewField(f).List()
	for i := 0; i < old.Len(); i++ {
		if i != idx {
			nl.Append(old.Get(i))
		}
	}
	if nl.Len() == 0 {
		owner.Clear(f)
	} else {
		owner.Set(f, protoreflect.ValueOfList(nl))
	}
}

func c18ModelReplace(root protoreflect.Message, loc []c18Step, value proto.Message) bool {
	owner, f, idx := c18Owner(root, loc)
	v := c18ForField(f, value)
	if v == nil {
		return false
	}
	if idx < 0 {
		owner.Set(f, protoreflect.ValueOfMessage(v))
		return true
	}
	owner.Mutable(f).List().Set(idx, protoreflect.ValueOfMessage(v))
	return true
}

func c18ModelInsert(root protoreflect.Message, ownerLoc []c18Step, f protoreflect.FieldDescriptor, value proto.Message, index int) bool {
	owner := root
	if len(ownerLoc) > 0 {
		o, pf, pidx := c18Owner(root, ownerLoc)
		var c protoreflect.Message
		if pidx >= 0 {
			c = o.Get(pf).List().Get(pidx).Message()
		} else {
			c = o.Get(pf).Message()
		}
		if c18IsChoice(c.Descriptor()) {
			c = c.Get(c.WhichOneof(c.Descriptor().Oneofs().ByName("choice"))).Message()
		}
		owner = c
	}
	v := c18ForField(f, value)
	old := owner.Get(f).List()
	if v == nil || index < 0 || index > old.Len() {
		return false
	}
	nl := owner.NewField(f).List()
	for i := 0; i < old.Len(); i++ {
		if i == index {
			nl.Append(protoreflect.ValueOfMessage(v))
		}
		nl.Append(old.Get(i))
	}
	if index == old.Len() {
		nl.Append(protoreflect.ValueOfMessage(v))
	}
	owner.Set(f, protoreflect.ValueOfList(nl))
	return true
}

func c18Element(root protoreflect.Message, loc []c18Step) protoreflect.Message {
	if len(loc) == 0 {
		return root
	}
	o, f, idx := c18Owner(root, loc)
	var c protoreflect.Message
	if idx >= 0 {
		c = o.Get(f).List().Get(idx).Message()
	} else {
		c = o.Get(f).Message()
	}
	if c18IsChoice(c.Descriptor()) {
		c = c.Get(c.WhichOneof(c.Descriptor().Oneofs().ByName("choice"))).Message()
	}
	return c
}

func c18ModelAdd(root protoreflect.Message, ownerLoc []c18Step, f protoreflect.FieldDescriptor, value proto.Message) bool {
	owner := c18Element(root, ownerLoc)
	v := c18ForField(f, value)
	if v == nil {
		return false
	}
	if f.IsList() {
		owner.Mutable(f).List().Append(protoreflect.ValueOfMessage(v))
		return true
	}
	if owner.Has(f) {
		return false
	}
	owner.Set(f, protoreflect.ValueOfMessage(v))
	return true
}

// same FHIR content: equal protos, or equal jsonformat renderings
func c18SameResource(a, b proto.Message) bool {
	if proto.Equal(a, b) {
		return true
	}
	_, ja, e1 := lib.ResourceJSON(a)
	_, jb, e2 := lib.ResourceJSON(b)
	return e1 == nil && e2 == nil && string(ja) == string(jb)
}

// a fresh value of the same type as the element, with different content
func c18OtherValue(el protoreflect.Message, salt int) proto.Message {
	v := el.Type().New()
	lib.FillElement(v, salt+7)
	if proto.Equal(v.Interface(), el.Interface()) {
		lib.FillElement(v, salt+8)
	}
	return v.Interface()
}

type c18Value struct {
	class string
	v     fhir.Base // nil = nil value
}

// c18CodeOf: the FHIR code an enum value stands for (google/fhir: the
// fhir_original_code annotation, else the lower-cased name with '-' for '_').
func c18CodeOf(ev protoreflect.EnumValueDescriptor) string {
	if orig, ok := proto.GetExtension(ev.Options(), apb.E_FhirOriginalCode).(string); ok && orig != "" {
		return orig
	}
	return c18NameCode(ev)
}

func c18NameCode(ev protoreflect.EnumValueDescriptor) string {
	return strings.ToLower(strings.ReplaceAll(string(ev.Name()), "_", "-"))
}

func c18ValuesFor(el protoreflect.Message, salt int) []c18Value {
	vs := []c18Value{{"same-type", c18OtherValue(el, salt).(fhir.Base)}, {"nil", nil}}
	full := string(el.Descriptor().FullName())
	isPrim := lib.IsPrimitiveMsg(el.Descriptor())
	add := func(c string, v fhir.Base) { vs = append(vs, c18Value{c, v}) }
	if isPrim {
		vf := el.Descriptor().Fields().ByName("value")
		switch {
		case vf != nil && vf.Kind() == protoreflect.EnumKind:
			// a code bound to a value set: valid codes and near-miss spellings as string and code (sibling types)
			vals := vf.Enum().Values()
			picks := []protoreflect.EnumValueDescriptor{vals.Get(vals.Len() - 1)}
			for i := 1; i < vals.Len(); i++ {
				if c18CodeOf(vals.Get(i)) != c18NameCode(vals.Get(i)) { // spelled differently from its enum name: "<", "POST", "1.4.0"
					picks = append(picks, vals.Get(i))
					break
				}
			}
			for i := 1; i < vals.Len(); i++ {
				if strings.Contains(c18CodeOf(vals.Get(i)), "-") { // a multi-word code
					picks = append(picks, vals.Get(i))
					break
				}
			}
			seen := map[string]bool{}
			for _, ev := range picks {
				valid := c18CodeOf(ev)
				if seen[valid] {
					continue
				}
				seen[valid] = true
				add("sibling:valid-code-as-string", fhir.String(valid))
				add("sibling:valid-code-as-code", fhir.Code(valid))
				other := strings.ToUpper(valid)
				if other == valid {
					other = strings.ToLower(valid)
				}
				if other != valid {
					add("sibling:invalid-code-case", fhir.String(other))
				}
				if nc := c18NameCode(ev); nc != valid {
					add("sibling:invalid-code-enum-name", fhir.Code(nc))
				}
				if strings.Contains(valid, "-") {
					for _, sep := range []string{"_", " ", "."} {
						add("sibling:invalid-code-separator", fhir.Code(strings.ReplaceAll(valid, "-", sep)))
					}
				}
			}
			add("sibling:invalid-code", fhir.String("not-a-code"))
		case full == "google.fhir.r4.core.PositiveInt" || full == "google.fhir.r4.core.UnsignedInt":
			add("sibling:integer", fhir.Integer(5))
			add("sibling:negative-integer", fhir.Integer(-1))
		case full == "google.fhir.r4.core.String":
			add("sibling:code-for-string", fhir.Code("x"))
			add("sibling:markdown-for-string", fhir.Markdown("x"))
		case full == "google.fhir.r4.core.Integer":
			add("sibling:positiveInt-for-integer", fhir.PositiveInt(5))
		}
		if full != "google.fhir.r4.core.Boolean" {
			add("wrong-type:boolean", fhir.Boolean(true))
		} else {
			add("wrong-type:string", fhir.String("true"))
		}
		add("wrong-type:complex", lib.NameA())
	} else {
		add("wrong-type:primitive", fhir.String("x"))
		// another element type that merely has the same short name (Patient.Contact / Organization.Contact, Patient.Link / Person.Link)
		if sib := c18SameShortName(el.Descriptor()); sib != nil {
			if b, ok := sib.New().Interface().(fhir.Base); ok {
				add("wrong-type:same-short-name", b)
			}
		}
		if full != "google.fhir.r4.core.HumanName" {
			add("wrong-type:complex", lib.NameA())
		} else {
			add("wrong-type:complex", fhir.Coding("s", "c"))
		}
	}
	return vs
}

var c18ShortNames map[string][]protoreflect.MessageType

// c18SameShortName: a registered R4 message type other than md whose (unqualified) name is md's
func c18SameShortName(md protoreflect.MessageDescriptor) protoreflect.MessageType {
	if c18ShortNames == nil {
		c18ShortNames = map[string][]protoreflect.MessageType{}
		protoregistry.GlobalTypes.RangeMessages(func(mt protoreflect.MessageType) bool {
			if strings.HasPrefix(string(mt.Descriptor().FullName()), "google.fhir.r4.core.") {
				n := string(mt.Descriptor().Name())
				c18ShortNames[n] = append(c18ShortNames[n], mt)
			}
			return true
		})
		for _, l := range c18ShortNames {
			sort.Slice(l, func(i, j int) bool { return l[i].Descriptor().FullName() < l[j].Descriptor().FullName() })
		}
	}
	for _, mt := range c18ShortNames[string(md.Name())] {
		if mt.Descriptor().FullName() != md.FullName() {
			return mt
		}
	}
	return nil
}

type c18Outcome struct {
	err error
	pi  *core.PanicInfo
}

func c18Run(f func() error) c18Outcome {
	var o c18Outcome
	o.pi = core.Try(func() { o.err = f() })
	return o
}

func init() {
	type resCase struct {
		name string
		mk   func() fhir.Resource
	}
	core.Register(&core.Check{
		ID:          "C18",
		Rule:        "single-operation sweep: every element of the hand-sized Patient, Observation, Questionnaire and of a slice of the schema-covering resource family (quick: 24 types x 1 instance at depth 2; thorough: all 146 types x 2 instances) is the target of Delete and Replace in every spelling {indexed path, first(), last(), where(true), take/skip, extension(url)}, every repeated element the target of Insert at every index in [-1, len+1], every element name of every visited message the target of Add; values: same type (different content), sibling types (string/code for a bound code incl. invalid codes, integer for positiveInt/unsignedInt incl. negative, code/markdown for string), wrong types (primitive/complex/boolean) and nil; nil resource; both the package-level and the compiled entry points; Move. Oracle: on success the resource equals the structural reference model of the operation applied to a copy (compared as protos, else as jsonformat JSON); on error the resource and the value are unchanged (proto equality, deterministic bytes and presence fingerprint); deleting an absent element returns nil without change; Move returns ErrNotImplemented. Operation histories: explicit-state BFS from the hand-sized Patient over an alphabet of 18 operations (with inverses) to depth 3 (quick) / 4 (thorough): every transition is compared with the model's transition, states are de-duplicated by canonical bytes, successors are built by replaying the shortest path on a fresh copy; non-trivial = distinct (resource, operation, target, value class, outcome)",
		Assumptions: []string{"the reference model applies the operation by schema position on a protobuf copy; C02 establishes that schema positions and the jsonformat tree are aligned", "elements inside contained / bundled resources are targeted by the contained-targets sub-space only (success must show in the JSON, an error must change nothing)"},
		Subs: func(tier string) []core.Sub {
			cases := []resCase{
				{"Patient(hand)", func() fhir.Resource { return lib.Patient() }},
				{"Observation(hand)", func() fhir.Resource { return lib.Observation() }},
				{"Questionnaire(hand)", func() fhir.Resource { return lib.Questionnaire() }},
			}
			names := lib.ResourceTypeNames()
			step, nvar := 6, 1
			if tier == "thorough" {
				step, nvar = 1, 2
			}
			for i := 0; i < len(names); i += step {
				n := names[i]
				for v := 0; v < nvar; v++ {
					v := v
					cases = append(cases, resCase{fmt.Sprintf("%s(gen %d)", n, v), func() fhir.Resource { return proto.Clone(lib.GenResource(n, v, 2)).(fhir.Resource) }})
				}
			}
			bfsDepth := 3
			if tier == "thorough" {
				bfsDepth = 4
			}
			return []core.Sub{
				{Name: "single-operations", N: len(cases), Note: fmt.Sprintf("%d resources x every element x operations x spellings x value classes x indexes", len(cases)), Run: func(i int, r *core.Rec) {
					c18Sweep(r, cases[i].name, cases[i].mk)
				}},
				{Name: "contained-targets", N: 3, Note: "elements of contained resources (packed) and of Bundle entries (not packed) as targets of Delete / Replace / Add / Insert: success must show in the resource's FHIR JSON, an error must leave the resource unchanged - success without a change is neither", Run: func(i int, r *core.Rec) {
					type tcase struct {
						name string
						mk   func() fhir.Resource
						root string // path of the inner resource
					}
					tc := []tcase{
						{"Patient with contained Observation", func() fhir.Resource { return lib.PatientWithContained() }, "Patient.contained[0]"},
						{"generated resource with two contained resources", func() fhir.Resource { return proto.Clone(lib.GenResource("ActivityDefinition", 1, 2)).(fhir.Resource) }, "ActivityDefinition.contained[1]"},
						{"Bundle entry", func() fhir.Resource { return lib.Bundle() }, "Bundle.entry[0].resource"},
					}[i]
					ops := []struct {
						name string
						do   func(res fhir.Resource) error
					}{
						{"Delete id", func(res fhir.Resource) error { return patch.Delete(res, tc.root+".id") }},
						{"Replace id", func(res fhir.Resource) error { return patch.Replace(res, tc.root+".id", fhir.ID("zz9")) }},
						{"Add language", func(res fhir.Resource) error {
							return patch.Add(res, tc.root, "language", fhir.Code("en-AU"), &patch.Options{})
						}},
						{"Add id to meta", func(res fhir.Resource) error {
							return patch.Add(res, tc.root+".meta", "id", fhir.String("m1"), &patch.Options{})
						}},
						{"Delete the inner resource's first extension", func(res fhir.Resource) error { return patch.Delete(res, tc.root+".extension[0]") }},
						{"Insert an extension at 0", func(res fhir.Resource) error {
							return patch.Insert(res, tc.root+".extension", &dtpb.Extension{Url: fhir.URI("http://new")}, 0)
						}},
						{"Delete the inner resource", func(res fhir.Resource) error { return patch.Delete(res, tc.root) }},
					}
					for _, op := range ops {
						res := tc.mk()
						before := proto.Clone(res)
						_, jb, _ := lib.ResourceJSON(res)
						o := c18Run(func() error { return op.do(res) })
						r.Eval()
						_, ja, _ := lib.ResourceJSON(res)
						r.State("contained|" + tc.name)
						r.Nontrivial(tc.name, op.name, fmt.Sprint(o.err == nil), fmt.Sprint(string(jb) == string(ja)))
						w := core.W{"resource": tc.name, "operation": op.name, "inner_resource": tc.root, "error": fmt.Sprint(o.err)}
						if r.WantSample() {
							r.Sample(w)
						}
						switch {
						case o.pi != nil:
							r.Fail("contained|"+op.name+"|"+o.pi.Key(), w)
						case o.err != nil && !proto.Equal(before, res):
							r.Fail("contained|"+op.name+"|resource-changed-although-error-returned", w)
						case o.err == nil && string(jb) == string(ja) && !strings.HasPrefix(op.name, "Delete the inner resource's first extension"):
							r.Fail("contained|"+op.name+"|reported-success-but-did-nothing", w)
						}
					}
				}},
				{Name: "absent-targets-over-mixed-entries", N: 1, Note: "Bundle entries of two resource types, one sparsely populated: Delete of every element name of either type that no entry carries succeeds without a change (both orders)", Run: func(_ int, r *core.Rec) {
					obs := func() fhir.Resource { return lib.Observation() }
					sparse := func() fhir.Resource { return &ppb.Patient{Id: fhir.ID("sparse"), Active: fhir.Boolean(true)} }
					for oi, order := range [][]func() fhir.Resource{{obs, sparse}, {sparse, obs}} {
						mk := func() *bcrpb.Bundle {
							b := &bcrpb.Bundle{}
							for _, f := range order {
								b.Entry = append(b.Entry, &bcrpb.Bundle_Entry{Resource: containedresource.Wrap(f())})
							}
							return b
						}
						names := map[string]bool{}
						ref := mk()
						for _, e := range ref.Entry {
							res := containedresource.Unwrap(e.Resource)
							fs := res.ProtoReflect().Descriptor().Fields()
							for k := 0; k < fs.Len(); k++ {
								names[strings.TrimSuffix(fs.Get(k).JSONName(), "Value")] = true
							}
						}
						for name := range names {
							carried := false
							for _, e := range ref.Entry {
								rf := containedresource.Unwrap(e.Resource).ProtoReflect()
								if fd := rf.Descriptor().Fields().ByJSONName(name); fd != nil && rf.Has(fd) {
									carried = true
								}
							}
							if carried || name == "contained" {
								continue
							}
							b := mk()
							path := "Bundle.entry.resource." + c02Ident(name)
							o := c18Run(func() error { return patch.Delete(b, path) })
							r.Eval()
							r.State("absent-over-mixed-entries")
							r.Nontrivial(fmt.Sprint(oi), path, fmt.Sprint(o.err))
							w := core.W{"path": path, "entries": fmt.Sprintf("order %d", oi)}
							switch {
							case o.pi != nil:
								r.Fail("delete|absent-over-mixed-entries|"+o.pi.Key(), w)
							case o.err != nil:
								w["err"] = o.err.Error()
								r.Fail("delete|absent-over-mixed-entries|deleting-an-absent-element-fails", w)
							case !proto.Equal(b, mk()):
								r.Fail("delete|absent-over-mixed-entries|resource-changed", w)
							}
						}
					}
				}},
				{Name: "histories", N: 1, Note: fmt.Sprintf("explicit-state BFS over 18 operations on the hand-sized Patient to depth %d", bfsDepth), Run: func(i int, r *core.Rec) {
					c18BFS(r, bfsDepth)
				}},
			}
		},
	})
}

func c18Shape(n *c18Node) string {
	var fs []string
	if n.idx >= 0 {
		fs = append(fs, "list-item")
	} else {
		fs = append(fs, "singular")
	}
	if n.choice {
		fs = append(fs, "choice")
	}
	md := n.msg.Descriptor()
	if lib.IsPrimitiveMsg(md) {
		if vf := md.Fields().ByName("value"); vf != nil && vf.Kind() == protoreflect.EnumKind {
			fs = append(fs, "bound-code")
		} else {
			fs = append(fs, "primitive:"+string(md.Name()))
		}
	} else if string(md.FullName()) == "google.fhir.r4.core.Reference" {
		fs = append(fs, "reference")
	} else if string(md.FullName()) == "google.fhir.r4.core.Extension" {
		fs = append(fs, "extension")
	} else {
		fs = append(fs, "complex")
	}
	if c02Keywords[n.name] {
		fs = append(fs, "keyword-name")
	}
	return strings.Join(fs, "+")
}

// c18Sweep runs the single-operation sweep on one resource.
func c18Sweep(r *core.Rec, rname string, mk func() fhir.Resource) {
	orig := mk()
	c18Register(orig.ProtoReflect())
	rootName := string(orig.ProtoReflect().Descriptor().Name())
	tree := c18Build(orig.ProtoReflect(), nil, nil, -1, false, "")
	origFinger := c03Finger(orig)
	salt := 0

	// one operation on fresh copies: real vs model
	attempt := func(op, spelling, shape, vclass string, real func(work fhir.Resource) error, model func(m protoreflect.Message) bool, value proto.Message, w core.W) {
		work := proto.Clone(orig).(fhir.Resource)
		var vFinger string
		if value != nil {
			vFinger = c03Finger(value)
		}
		o := c18Run(func() error { return real(work) })
		r.Eval()
		cls := strings.Join([]string{op, spelling, shape, vclass}, "|")
		r.State(cls)
		outcome := "error"
		if o.pi != nil {
			outcome = "panic"
		} else if o.err == nil {
			outcome = "success"
		}
		r.Outcome(op + "|" + outcome)
		r.Nontrivial(rname, cls, fmt.Sprint(w["path"]), fmt.Sprint(w["index"]), fmt.Sprint(w["name"]), outcome)
		if r.WantSample() {
			r.Sample(core.W{"resource": rname, "op": op, "path": w["path"], "value": vclass, "outcome": outcome})
		}
		w["resource"], w["op"], w["value_class"] = rname, op, vclass
		if o.pi != nil {
			r.Fail(cls+"|"+o.pi.Key(), w)
			return
		}
		if value != nil && c03Finger(value) != vFinger {
			r.Fail(cls+"|supplied-value-mutated|"+outcome, w)
		}
		if o.err != nil {
			w["err"] = core.Short(o.err.Error(), 200)
			if !proto.Equal(work, orig) || c03Finger(work) != origFinger {
				r.Fail(cls+"|resource-changed-although-error-returned", w)
			}
			return
		}
		m := proto.Clone(orig)
		ok := model(m.ProtoReflect())
		if !ok {
			// the model says the operation is impossible (wrong type, out of range, populated scalar): success is wrong
			if !c18SameResource(work, orig) {
				r.Fail(cls+"|accepted-an-impossible-operation", w)
			} else {
				r.Fail(cls+"|reported-success-but-did-nothing", w)
			}
			return
		}
		if !c18SameResource(work, m) {
			_, jw, _ := lib.ResourceJSON(work)
			_, jm, _ := lib.ResourceJSON(m)
			w["got_json"], w["want_json"] = core.Short(c18Diff(string(jw), string(jm)), 300), core.Short(c18Diff(string(jm), string(jw)), 300)
			d := "differs-from-model"
			if c18SameResource(work, orig) {
				d = "reported-success-but-did-nothing"
			}
			r.Fail(cls+"|"+d, w)
		}
	}

	var visit func(n *c18Node)
	visit = func(n *c18Node) {
		if n.parent != nil {
			salt++
			loc := n.locator()
			path := n.path(rootName)
			shape := c18Shape(n)
			// sibling list for the positional spellings
			var sibs []*c18Node
			for _, s := range n.parent.kids {
				if s.fd.Number() == n.fd.Number() {
					sibs = append(sibs, s)
				}
			}
			spellings := map[string]string{"indexed": path}
			listPath := n.parent.path(rootName) + "." + c02Ident(n.name)
			if n.idx >= 0 {
				if n.idx == 0 {
					spellings["first()"] = listPath + ".first()"
					spellings["take(1)"] = listPath + ".take(1)"
				}
				if n.idx == len(sibs)-1 {
					spellings["last()"] = listPath + ".last()"
				}
				spellings["skip(i).first()"] = fmt.Sprintf("%s.skip(%d).first()", listPath, n.idx)
				if len(sibs) == 1 {
					spellings["where(true)"] = listPath + ".where(true)"
					spellings["unindexed"] = listPath
				}
			}
			// the element selected by position in the flattened collection of a path whose earlier steps are not indexed
			// (Patient.name.given[2]): the parent that holds it is not the only one, nor necessarily the last one
			if flat, rank, total := c18Flattened(tree, n, rootName); total > 1 && flat != listPath {
				spellings["flattened[k]"] = fmt.Sprintf("%s[%d]", flat, rank)
				if rank == 0 {
					spellings["flattened.first()"] = flat + ".first()"
				}
				if rank == total-1 {
					spellings["flattened.last()"] = flat + ".last()"
				}
			}
			if string(n.msg.Descriptor().FullName()) == "google.fhir.r4.core.Extension" && n.name == "extension" { // not modifierExtension
				u := n.msg.Interface().(*dtpb.Extension).GetUrl().GetValue()
				cnt := 0
				for _, s := range sibs {
					if s.msg.Interface().(*dtpb.Extension).GetUrl().GetValue() == u {
						cnt++
					}
				}
				if cnt == 1 {
					spellings["extension(url)"] = n.parent.path(rootName) + ".extension('" + u + "')"
				}
			}
			var spNames []string
			for k := range spellings {
				spNames = append(spNames, k)
			}
			sort.Strings(spNames)
			for _, sp := range spNames {
				src := spellings[sp]
				// Delete
				attempt("delete", sp, shape, "-", func(w fhir.Resource) error { return patch.Delete(w, src) },
					func(m protoreflect.Message) bool { c18ModelDelete(m, loc); return true }, nil, core.W{"path": src})
				// Replace with every value class
				for _, v := range c18ValuesFor(n.msg, salt) {
					v := v
					var vm proto.Message
					if v.v != nil {
						vm = v.v
					}
					vcls := v.class
					if sp != "indexed" && !strings.HasPrefix(vcls, "same-type") {
						continue // the value classes are swept on the indexed spelling
					}
					attempt("replace", sp, shape, vcls, func(w fhir.Resource) error { return patch.Replace(w, src, v.v) },
						func(m protoreflect.Message) bool {
							if vm == nil {
								return false
							}
							return c18ModelReplaceConv(m, loc, vm)
						}, vm, core.W{"path": src})
				}
			}
			// Replace an element by ITSELF (the caller read it, perhaps looked at it, and writes it back): the value shares
			// its memory with the target; the operation succeeds and nothing changes
			if src, ok := spellings["indexed"]; ok {
				attempt("replace", "indexed", shape, "the-element-itself", func(w fhir.Resource) error {
					got := lib.Run(src, []fhir.Resource{w}, nil)
					if !got.OK() || len(got.Coll) != 1 {
						return fmt.Errorf("harness: %s does not select one element: %s", src, got.String())
					}
					self, isBase := got.Coll[0].(fhir.Base)
					if !isBase {
						return fmt.Errorf("harness: %s is not an element", src)
					}
					return patch.Replace(w, src, self)
				}, func(m protoreflect.Message) bool { return true }, nil, core.W{"path": src, "value": "the element the path selects"})
			}
			// Insert takes the path of the LIST: a path that names one element of a list of several, or a part of the list,
			// is refused and nothing changes
			if src, ok := spellings["indexed"]; ok && n.fd != nil && n.fd.IsList() && len(sibs) > 1 && !n.choice {
				val := c18OtherValue(n.msg, salt).(fhir.Base)
				attempt("insert", "element-path", shape, "same-type", func(w fhir.Resource) error { return patch.Insert(w, src, val, 0) }, func(protoreflect.Message) bool { return false }, val, core.W{"path": src, "index": 0})
				if n.idx == 0 {
					for _, tailForm := range []string{".tail()", ".skip(1)", ".last()"} {
						sub := listPath + tailForm
						attempt("insert", "part-of-list-path", shape, "same-type", func(w fhir.Resource) error { return patch.Insert(w, sub, val, 0) }, func(protoreflect.Message) bool { return false }, val, core.W{"path": sub, "index": 0})
					}
				}
			}
			// a path that selects several elements must not be deleted / replaced
			if n.idx == 0 && len(sibs) > 1 {
				attempt("delete", "multi-item-path", shape, "-", func(w fhir.Resource) error { return patch.Delete(w, listPath) }, func(protoreflect.Message) bool { return false }, nil, core.W{"path": listPath})
				val := c18OtherValue(n.msg, salt).(fhir.Base)
				attempt("replace", "multi-item-path", shape, "same-type", func(w fhir.Resource) error { return patch.Replace(w, listPath, val) }, func(protoreflect.Message) bool { return false }, val, core.W{"path": listPath})
			}
			// Insert into the list this element belongs to (once per list)
			if n.idx == 0 {
				ownerLoc := n.parent.locator()
				for index := -1; index <= len(sibs)+1; index++ {
					index := index
					for _, v := range c18ValuesFor(n.msg, salt) {
						v := v
						if index != 0 && index != len(sibs) && !strings.HasPrefix(v.class, "same-type") && v.class != "nil" {
							continue
						}
						if v.v == nil {
							// Insert(nil value): must be an error
							attempt("insert", "list", shape, "nil", func(w fhir.Resource) error { return patch.Insert(w, listPath, nil, index) }, func(protoreflect.Message) bool { return false }, nil, core.W{"path": listPath, "index": index})
							continue
						}
						attempt("insert", "list", shape, v.class+c18IndexClass(index, len(sibs)), func(w fhir.Resource) error { return patch.Insert(w, listPath, v.v, index) },
							func(m protoreflect.Message) bool { return c18ModelInsert(m, ownerLoc, n.fd, v.v, index) && !n.choice }, v.v, core.W{"path": listPath, "index": index})
					}
				}
			}
		}
		// Add: every element name of this message
		md := n.msg.Descriptor()
		if !lib.IsPrimitiveMsg(md) && string(md.FullName()) != "google.fhir.r4.core.Reference" {
			ownerLoc := n.locator()
			ownerPath := n.path(rootName)
			for i := 0; i < md.Fields().Len(); i++ {
				f := md.Fields().Get(i)
				if f.Message() == nil || f.IsMap() || f.ContainingOneof() != nil {
					continue
				}
				full := string(f.Message().FullName())
				if full == "google.protobuf.Any" || full == "google.fhir.r4.core.ContainedResource" {
					continue
				}
				salt++
				target := f.Message()
				var proto0 protoreflect.Message
				if f.IsList() {
					proto0 = n.msg.NewField(f).List().NewElement().Message()
				} else {
					proto0 = n.msg.NewField(f).Message()
				}
				if c18IsChoice(target) {
					// the first alternative as the value
					alt := target.Oneofs().ByName("choice").Fields().Get(salt % target.Oneofs().ByName("choice").Fields().Len())
					proto0 = proto0.NewField(alt).Message()
				}
				state := "absent"
				if n.msg.Has(f) {
					state = "populated"
				}
				kind := "singular"
				if f.IsList() {
					kind = "list"
				}
				shape := kind + "+" + state
				if c18IsChoice(target) {
					shape += "+choice"
				}
				for _, v := range c18ValuesFor(proto0, salt) {
					v := v
					if v.v == nil {
						attempt("add", "name", shape, "nil", func(w fhir.Resource) error { return patch.Add(w, ownerPath, f.JSONName(), nil, &patch.Options{}) }, func(protoreflect.Message) bool { return false }, nil, core.W{"path": ownerPath, "name": f.JSONName()})
						continue
					}
					attempt("add", "name", shape, v.class, func(w fhir.Resource) error { return patch.Add(w, ownerPath, f.JSONName(), v.v, &patch.Options{}) },
						func(m protoreflect.Message) bool { return c18ModelAddConv(m, ownerLoc, f, v.v) }, v.v, core.W{"path": ownerPath, "name": f.JSONName()})
				}
			}
			// names that are not elements
			for _, bad := range []string{"noSuchElement", "birth_date", "BirthDate"} {
				v := fhir.String("x")
				attempt("add", "bad-name", "-", "same-type", func(w fhir.Resource) error { return patch.Add(w, ownerPath, bad, v, &patch.Options{}) }, func(protoreflect.Message) bool { return false }, v, core.W{"path": ownerPath, "name": bad})
			}
		}
		for _, k := range n.kids {
			visit(k)
		}
	}
	visit(tree)

	// absent elements, nil resource, Move, compiled entry points
	absent := rootName + ".extension.where(url = 'http://absent')"
	attempt("delete", "absent-element", "-", "-", func(w fhir.Resource) error { return patch.Delete(w, absent) }, func(protoreflect.Message) bool { return true }, nil, core.W{"path": absent})
	attempt("replace", "absent-element", "-", "same-type", func(w fhir.Resource) error { return patch.Replace(w, absent, fhir.String("x")) }, func(protoreflect.Message) bool { return false }, nil, core.W{"path": absent})
	for _, bad := range []string{rootName + ".noSuchElement", "NoSuchType.id", rootName + ".id.", "("} {
		bad := bad
		attempt("delete", "bad-path", "-", "-", func(w fhir.Resource) error { return patch.Delete(w, bad) }, func(protoreflect.Message) bool { return strings.HasPrefix(bad, "NoSuchType") }, nil, core.W{"path": bad})
	}
	mv := c18Run(func() error { return patch.Move(proto.Clone(orig).(fhir.Resource), rootName+".extension", 0, 1) })
	r.Eval()
	if mv.pi != nil || !errors.Is(mv.err, patch.ErrNotImplemented) {
		r.Fail("move|not-ErrNotImplemented", core.W{"resource": rname, "err": fmt.Sprint(mv.err)})
	}
	for _, op := range []string{"delete", "replace", "insert", "add", "move"} {
		op := op
		o := c18Run(func() error {
			e, err := patch.Compile(rootName + ".id")
			if err != nil {
				return err
			}
			switch op {
			case "delete":
				return e.Delete(nil)
			case "replace":
				return e.Replace(nil, fhir.ID("x"))
			case "insert":
				return e.Insert(nil, fhir.ID("x"), 0)
			case "add":
				return e.Add(nil, "id", fhir.ID("x"))
			}
			return e.Move(nil, 0, 0)
		})
		r.Eval()
		if o.pi != nil {
			r.Fail("nil-resource|"+op+"|"+o.pi.Key(), core.W{"op": op})
		} else if o.err == nil {
			r.Fail("nil-resource|"+op+"|accepted", core.W{"op": op})
		}
	}
}

func c18IndexClass(index, n int) string {
	switch {
	case index < 0:
		return "@index<0"
	case index == 0:
		return "@index=0"
	case index < n:
		return "@0<index<len"
	case index == n:
		return "@index=len"
	}
	return "@index>len"
}

// c18Diff returns the part of a that differs from b (first difference onward, shortened)
func c18Diff(a, b string) string {
	i := 0
	for i < len(a) && i < len(b) && a[i] == b[i] {
		i++
	}
	s := i - 40
	if s < 0 {
		s = 0
	}
	return a[s:]
}

// conversions the model admits for sibling value types: the JSON value is the same text/number
func c18Convert(target protoreflect.MessageDescriptor, value proto.Message) proto.Message {
	if target.FullName() == value.ProtoReflect().Descriptor().FullName() {
		return value
	}
	vf := target.Fields().ByName("value")
	if vf == nil {
		return nil
	}
	t := dynamicNew(target)
	switch v := value.(type) {
	case interface{ GetValue() string }:
		switch {
		case vf.Kind() == protoreflect.EnumKind:
			// the value is accepted exactly when it is the FHIR code of one of the enum's values
			code := v.GetValue()
			vals := vf.Enum().Values()
			for i := 0; i < vals.Len(); i++ {
				if ev := vals.Get(i); ev.Number() != 0 && c18CodeOf(ev) == code {
					t.Set(vf, protoreflect.ValueOfEnum(ev.Number()))
					return t.Interface()
				}
			}
			return nil
		case target.FullName() == "google.fhir.r4.core.ReferenceId":
			t.Set(vf, protoreflect.ValueOfString(v.GetValue()))
			return t.Interface()
		}
	case interface{ GetValue() int32 }:
		switch vf.Kind() {
		case protoreflect.Uint32Kind:
			if v.GetValue() < 0 || (target.FullName() == "google.fhir.r4.core.PositiveInt" && v.GetValue() == 0) {
				return nil
			}
			t.Set(vf, protoreflect.ValueOfUint32(uint32(v.GetValue())))
			return t.Interface()
		}
	}
	return nil
}

func c18ModelReplaceConv(root protoreflect.Message, loc []c18Step, value proto.Message) bool {
	_, f, _ := c18Owner(root, loc)
	if !c18IsChoice(f.Message()) {
		if cv := c18Convert(f.Message(), value); cv != nil {
			value = cv
		}
	}
	return c18ModelReplace(root, loc, value)
}

func c18ModelAddConv(root protoreflect.Message, ownerLoc []c18Step, f protoreflect.FieldDescriptor, value proto.Message) bool {
	if !c18IsChoice(f.Message()) {
		if cv := c18Convert(f.Message(), value); cv != nil {
			value = cv
		}
	}
	return c18ModelAdd(root, ownerLoc, f, value)
}

// ---- operation histories (explicit-state BFS on the real object, compared with the model at every transition)

type c18Op struct {
	name  string
	real  func(res fhir.Resource) error
	model func(m protoreflect.Message) (ok bool)
}

func c18Ops() []c18Op {
	find := func(m protoreflect.Message, json string) protoreflect.FieldDescriptor {
		return m.Descriptor().Fields().ByJSONName(json)
	}
	nameAt := func(m protoreflect.Message, i int) protoreflect.Message {
		l := m.Get(find(m, "name")).List()
		if i >= l.Len() {
			return nil
		}
		return l.Get(i).Message()
	}
	newName := func(f string) *dtpb.HumanName { return &dtpb.HumanName{Family: fhir.String(f)} }
	listInsert := func(m protoreflect.Message, f protoreflect.FieldDescriptor, v proto.Message, idx int) bool {
		old := m.Get(f).List()
		if idx < 0 || idx > old.Len() {
			return false
		}
		nl := m.NewField(f).List()
		for i := 0; i < old.Len(); i++ {
			if i == idx {
				nl.Append(protoreflect.ValueOfMessage(proto.Clone(v).ProtoReflect()))
			}
			nl.Append(old.Get(i))
		}
		if idx == old.Len() {
			nl.Append(protoreflect.ValueOfMessage(proto.Clone(v).ProtoReflect()))
		}
		m.Set(f, protoreflect.ValueOfList(nl))
		return true
	}
	listDelete := func(m protoreflect.Message, f protoreflect.FieldDescriptor, idx int) bool {
		old := m.Get(f).List()
		if idx >= old.Len() {
			return true // absent: nothing to delete
		}
		nl := m.NewField(f).List()
		for i := 0; i < old.Len(); i++ {
			if i != idx {
				nl.Append(old.Get(i))
			}
		}
		if nl.Len() == 0 {
			m.Clear(f)
		} else {
			m.Set(f, protoreflect.ValueOfList(nl))
		}
		return true
	}
	return []c18Op{
		{"add name X", func(r fhir.Resource) error { return patch.Add(r, "Patient", "name", newName("X"), &patch.Options{}) },
			func(m protoreflect.Message) bool {
				return listInsert(m, find(m, "name"), newName("X"), m.Get(find(m, "name")).List().Len())
			}},
		{"insert name Y at 0", func(r fhir.Resource) error { return patch.Insert(r, "Patient.name", newName("Y"), 0) },
			func(m protoreflect.Message) bool {
				if m.Get(find(m, "name")).List().Len() == 0 {
					return false
				}
				return listInsert(m, find(m, "name"), newName("Y"), 0)
			}},
		{"insert name Z at 1", func(r fhir.Resource) error { return patch.Insert(r, "Patient.name", newName("Z"), 1) },
			func(m protoreflect.Message) bool {
				if m.Get(find(m, "name")).List().Len() == 0 {
					return false
				}
				return listInsert(m, find(m, "name"), newName("Z"), 1)
			}},
		{"delete name[0]", func(r fhir.Resource) error { return patch.Delete(r, "Patient.name[0]") }, func(m protoreflect.Message) bool { return listDelete(m, find(m, "name"), 0) }},
		{"delete name.last()", func(r fhir.Resource) error { return patch.Delete(r, "Patient.name.last()") },
			func(m protoreflect.Message) bool {
				n := m.Get(find(m, "name")).List().Len()
				if n == 0 {
					return true
				}
				return listDelete(m, find(m, "name"), n-1)
			}},
		{"replace name[0] by W", func(r fhir.Resource) error { return patch.Replace(r, "Patient.name[0]", newName("W")) },
			func(m protoreflect.Message) bool {
				if nameAt(m, 0) == nil {
					return false
				}
				m.Mutable(find(m, "name")).List().Set(0, protoreflect.ValueOfMessage(newName("W").ProtoReflect()))
				return true
			}},
		{"add given G to name[0]", func(r fhir.Resource) error {
			return patch.Add(r, "Patient.name[0]", "given", fhir.String("G"), &patch.Options{})
		},
			func(m protoreflect.Message) bool {
				n := nameAt(m, 0)
				if n == nil {
					return false
				}
				n.Mutable(find(n, "given")).List().Append(protoreflect.ValueOfMessage(fhir.String("G").ProtoReflect()))
				return true
			}},
		{"delete name[0].given[0]", func(r fhir.Resource) error { return patch.Delete(r, "Patient.name[0].given[0]") },
			func(m protoreflect.Message) bool {
				n := nameAt(m, 0)
				if n == nil {
					return true
				}
				return listDelete(n, find(n, "given"), 0)
			}},
		{"replace active by false", func(r fhir.Resource) error { return patch.Replace(r, "Patient.active", fhir.Boolean(false)) },
			func(m protoreflect.Message) bool {
				if !m.Has(find(m, "active")) {
					return false
				}
				m.Set(find(m, "active"), protoreflect.ValueOfMessage(fhir.Boolean(false).ProtoReflect()))
				return true
			}},
		{"replace active by true", func(r fhir.Resource) error { return patch.Replace(r, "Patient.active", fhir.Boolean(true)) },
			func(m protoreflect.Message) bool {
				if !m.Has(find(m, "active")) {
					return false
				}
				m.Set(find(m, "active"), protoreflect.ValueOfMessage(fhir.Boolean(true).ProtoReflect()))
				return true
			}},
		{"delete active", func(r fhir.Resource) error { return patch.Delete(r, "Patient.active") }, func(m protoreflect.Message) bool { m.Clear(find(m, "active")); return true }},
		{"add active true", func(r fhir.Resource) error {
			return patch.Add(r, "Patient", "active", fhir.Boolean(true), &patch.Options{})
		},
			func(m protoreflect.Message) bool {
				if m.Has(find(m, "active")) {
					return false
				}
				m.Set(find(m, "active"), protoreflect.ValueOfMessage(fhir.Boolean(true).ProtoReflect()))
				return true
			}},
		{"delete telecom[1]", func(r fhir.Resource) error { return patch.Delete(r, "Patient.telecom[1]") }, func(m protoreflect.Message) bool { return listDelete(m, find(m, "telecom"), 1) }},
		{"delete telecom.where(system='phone')", func(r fhir.Resource) error { return patch.Delete(r, "Patient.telecom.where(system = 'phone')") },
			func(m protoreflect.Message) bool {
				l := m.Get(find(m, "telecom")).List()
				hit := -1
				for i := 0; i < l.Len(); i++ {
					if l.Get(i).Message().Interface().(*dtpb.ContactPoint).GetSystem().GetValue().String() == "PHONE" {
						if hit >= 0 {
							return false
						}
						hit = i
					}
				}
				if hit < 0 {
					return true
				}
				return listDelete(m, find(m, "telecom"), hit)
			}},
		{"add gender male", func(r fhir.Resource) error {
			return patch.Add(r, "Patient", "gender", fhir.String("male"), &patch.Options{})
		},
			func(m protoreflect.Message) bool {
				f := find(m, "gender")
				if m.Has(f) {
					return false
				}
				g := m.NewField(f).Message()
				vf := g.Descriptor().Fields().ByName("value")
				g.Set(vf, protoreflect.ValueOfEnum(vf.Enum().Values().ByName("MALE").Number()))
				m.Set(f, protoreflect.ValueOfMessage(g))
				return true
			}},
		{"delete gender", func(r fhir.Resource) error { return patch.Delete(r, "Patient.gender") }, func(m protoreflect.Message) bool { m.Clear(find(m, "gender")); return true }},
		// a code given as string is converted into a fresh code element: nothing of an earlier conversion may come back with it
		{"replace gender by 'male' (string)", func(r fhir.Resource) error { return patch.Replace(r, "Patient.gender", fhir.String("male")) },
			func(m protoreflect.Message) bool {
				f := find(m, "gender")
				if !m.Has(f) {
					return false
				}
				g := m.NewField(f).Message()
				vf := g.Descriptor().Fields().ByName("value")
				g.Set(vf, protoreflect.ValueOfEnum(vf.Enum().Values().ByName("MALE").Number()))
				m.Set(f, protoreflect.ValueOfMessage(g))
				return true
			}},
		{"add id g1 to gender", func(r fhir.Resource) error {
			return patch.Add(r, "Patient.gender", "id", fhir.String("g1"), &patch.Options{})
		},
			func(m protoreflect.Message) bool {
				f := find(m, "gender")
				if !m.Has(f) {
					return false
				}
				g := m.Mutable(f).Message()
				idf := g.Descriptor().Fields().ByName("id")
				if g.Has(idf) {
					return false
				}
				g.Set(idf, protoreflect.ValueOfMessage(fhir.String("g1").ProtoReflect()))
				return true
			}},
	}
}

func c18BFS(r *core.Rec, maxDepth int) {
	ops := c18Ops()
	start := lib.Patient()
	key := func(m proto.Message) string {
		b, _ := proto.MarshalOptions{Deterministic: true}.Marshal(m)
		return string(b)
	}
	type st struct{ hist []int }
	seen := map[string]bool{key(start): true}
	frontier := []st{{nil}}
	build := func(hist []int) fhir.Resource {
		res := lib.Patient()
		for _, o := range hist {
			ops[o].real(res)
		}
		return res
	}
	transitions, states := 0, 1
	for depth := 0; depth < maxDepth; depth++ {
		var next []st
		for _, s := range frontier {
			for oi, op := range ops {
				cur := build(s.hist)
				before := proto.Clone(cur)
				beforeFinger := c03Finger(cur)
				model := proto.Clone(cur)
				ok := op.model(model.ProtoReflect())
				o := c18Run(func() error { return op.real(cur) })
				r.Eval()
				transitions++
				hist := make([]string, 0, len(s.hist)+1)
				for _, h := range s.hist {
					hist = append(hist, ops[h].name)
				}
				w := core.W{"history": hist, "operation": op.name}
				r.State(fmt.Sprintf("bfs|depth=%d", depth+1))
				r.Nontrivial(strings.Join(hist, ";"), op.name, fmt.Sprint(o.err == nil))
				if r.WantSample() {
					r.Sample(core.W{"history": hist, "operation": op.name, "error": fmt.Sprint(o.err)})
				}
				if o.pi != nil {
					r.Fail("history|"+op.name+"|"+o.pi.Key(), w)
					continue
				}
				if o.err != nil {
					w["err"] = core.Short(o.err.Error(), 200)
					if !proto.Equal(cur, before) || c03Finger(cur) != beforeFinger {
						r.Fail("history|"+op.name+"|resource-changed-although-error-returned", w)
					}
					continue
				}
				if !ok {
					r.Fail("history|"+op.name+"|accepted-an-impossible-operation", w)
					continue
				}
				if !c18SameResource(cur, model) {
					_, jw, _ := lib.ResourceJSON(cur)
					_, jm, _ := lib.ResourceJSON(model)
					w["got_json"], w["want_json"] = core.Short(c18Diff(string(jw), string(jm)), 300), core.Short(c18Diff(string(jm), string(jw)), 300)
					r.Fail("history|"+op.name+"|differs-from-model", w)
					continue
				}
				k := key(cur)
				if !seen[k] {
					seen[k] = true
					states++
					next = append(next, st{append(append([]int{}, s.hist...), oi)})
				}
			}
		}
		frontier = next
	}
	r.Outcome(fmt.Sprintf("bfs states=%d transitions=%d", states, transitions))
}
