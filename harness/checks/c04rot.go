package checks

import (
	"fmt"
	"os"
	"os/exec"
	"strconv"
	"strings"

	"github.com/verily-src/fhirpath-go/fhirpath"
	"github.com/verily-src/fhirpath-go/fhirpath/evalopts"
	"github.com/verily-src/fhirpath-go/fhirpath/system"
	"github.com/verily-src/fhirpath-go/fhirpath/verifh/core"
	"github.com/verily-src/fhirpath-go/fhirpath/verifh/lib"
	"github.com/verily-src/fhirpath-go/internal/fhir"
)

// ---- C04, process-wide call histories.
//
// "The result of Evaluate is a function of the expression text, compile
// options, input resources and evaluate options only" also excludes state
// that outlives a call anywhere in the process (memo tables, caches keyed too
// coarsely). Inside one worker process such state, once filled, is the same
// for the "history" run and the "isolated" run, so the oracle here is taken
// from fresh processes: element k evaluated as the very first library call of
// a process gives its isolated outcome; rotation s of the alphabet (elements
// s, s+1, ..., s-1, each in one fresh process) puts every ordered pair of
// elements into a history where the first precedes the second. Every outcome
// of every rotation must equal the isolated outcome.

type c04RotEl struct {
	group string
	name  string
	run   func() string
}

func c04RotEval(src string, res []fhir.Resource, opts ...fhirpath.EvaluateOption) (out string) {
	defer func() {
		if p := recover(); p != nil {
			out = "PANIC:" + core.Short(fmt.Sprint(p), 80)
		}
	}()
	e, err := fhirpath.Compile(src)
	if err != nil {
		return "COMPILE-ERROR"
	}
	opts = append(opts, evalopts.OverrideTime(lib.PinnedNow))
	c, err := e.Evaluate(res, opts...)
	if err != nil {
		return "ERROR:" + strings.SplitN(err.Error(), ":", 2)[0]
	}
	return lib.ShowColl(c)
}

var c04RotCache []c04RotEl

// C04RotAlphabet: one element per R4 resource type (type tests on the resource
// and on all its descendants, which types every backbone element and datatype
// it contains) followed by elements that differ from an earlier one only in
// details a process-wide cache could conflate.
func C04RotAlphabet() []c04RotEl {
	if c04RotCache != nil {
		return c04RotCache
	}
	var out []c04RotEl
	for _, tn := range lib.ResourceTypeNames() {
		tn := tn
		out = append(out, c04RotEl{"type-tests", "type-tests on " + tn, func() string {
			res := []fhir.Resource{lib.GenResource(tn, 0, 2).(fhir.Resource)}
			var parts []string
			for _, src := range []string{tn + " is " + tn, tn + " is DomainResource", tn + " is Resource", tn + ".children().where($this is BackboneElement).count()", tn + ".children().where($this is Element).count()",
				tn + ".children().children().where($this is BackboneElement).count()", "(" + tn + " as " + tn + ").id", tn + ".children().select($this as BackboneElement).count()", tn + ".children().children().select(($this as BackboneElement).id).count()",
				tn + ".children().where($this is " + tn + ").count()", tn + ".children().children().where($this is Quantity).count()"} {
				parts = append(parts, c04RotEval(src, res))
			}
			return strings.Join(parts, " ; ")
		}})
	}
	group := ""
	one := func(name string, f func() string) { out = append(out, c04RotEl{group, name, f}) }
	pat := func() []fhir.Resource { return []fhir.Resource{lib.Patient()} }
	group = "sources-differing-in-white-space"
	// sources that differ only in white space, inside and outside string literals and comments
	for _, src := range []string{"4001 + 4002", "4001\n+\n4002", "4001  +  4002", "5001 // c + 5002", "5001 // c\n+ 5002", "'c04  rot'.length()", "'c04 rot'.length()", "'c04\trot'.length()", "Patient.name . given", "Patient.name.given"} {
		src := src
		one(fmt.Sprintf("compile+evaluate+String() of %q", src), func() string {
			e, err := fhirpath.Compile(src)
			if err != nil {
				return "COMPILE-ERROR"
			}
			c, err := e.Evaluate(pat())
			if err != nil {
				return "ERROR"
			}
			return lib.ShowColl(c) + " String()=" + strconv.Quote(e.String())
		})
	}
	group = "repeated-call"
	// the same call twice in a process, with valid and invalid regular expressions
	for rep := 0; rep < 2; rep++ {
		for _, src := range []string{"'c04-rot'.matches('c04(rot[')", "'c04-rot'.matches('c04.rot')", "'c04-rot'.replaceMatches('c04(rot[', 'x')", "'c04-rot'.replaceMatches('-r.t', 'x')", "Patient.name.given.where(matches('^A')).count()"} {
			src := src
			one(fmt.Sprintf("%s (occurrence %d)", src, rep+1), func() string { return c04RotEval(src, pat()) })
		}
	}
	group = "same-text-other-input"
	// the same text under different environments and inputs
	for _, v := range []int32{1, 2} {
		v := v
		one(fmt.Sprintf("%%v + 1 with v=%d", v), func() string { return c04RotEval("%v + 1", pat(), evalopts.EnvVariable("v", system.Integer(v))) })
	}
	for _, rn := range []string{"Patient", "Observation", "Bundle"} {
		rn := rn
		one("id/reference paths on "+rn, func() string {
			var res []fhir.Resource
			switch rn {
			case "Patient":
				res = pat()
			case "Observation":
				res = []fhir.Resource{lib.Observation()}
			default:
				res = []fhir.Resource{lib.Bundle()}
			}
			return c04RotEval("id", res) + " ; " + c04RotEval("descendants().reference", res) + " ; " + c04RotEval("descendants().value.count()", res) + " ; " + c04RotEval("descendants().where($this is Reference).count()", res)
		})
	}
	group = "conversions-with-spelled-units"
	// duration texts and unit arguments in several spellings: what a conversion accepts is not learnt from earlier texts
	for _, src := range []string{"'72 hours'.toQuantity('Days')", "'3 Days'.toQuantity('hours')", "'2 HOURS'.toQuantity('minutes')", "'120 minutes'.toQuantity('HOURS')", "'1 Year'.toQuantity('months')", "'3 days'.toQuantity('hours')",
		"'3 Days'.toQuantity()", "'3 Days'.convertsToQuantity('hours')", "(3 days).toQuantity('Days')", "'1 Week'.toQuantity('days') = 7 days"} {
		src := src
		one(src, func() string { return c04RotEval(src, pat()) })
	}
	c04RotCache = out
	return out
}

// C04RotMain is the `vcheck c04rot <start> <count>` sub-command: evaluates
// count elements of the alphabet starting at start (wrapping) and prints
// "index<TAB>outcome" per element.
func C04RotMain(args []string) {
	al := C04RotAlphabet()
	start, _ := strconv.Atoi(args[0])
	count, _ := strconv.Atoi(args[1])
	for k := 0; k < count; k++ {
		i := (start + k) % len(al)
		fmt.Printf("%d\t%s\n", i, strings.ReplaceAll(al[i].run(), "\n", "\\n"))
	}
}

func c04RotSpawn(start, count int) map[int]string {
	self, _ := os.Executable()
	out, err := exec.Command(self, "c04rot", strconv.Itoa(start), strconv.Itoa(count)).Output()
	if err != nil {
		panic(fmt.Sprintf("harness: c04rot %d %d failed: %v", start, count, err))
	}
	res := map[int]string{}
	for _, l := range strings.Split(strings.TrimSpace(string(out)), "\n") {
		p := strings.SplitN(l, "\t", 2)
		if len(p) != 2 {
			panic("harness: c04rot output line " + strconv.Quote(l))
		}
		i, _ := strconv.Atoi(p[0])
		if _, dup := res[i]; !dup {
			res[i] = p[1]
		}
	}
	return res
}

var c04RotIsolatedCache = map[int]string{}

// c04RotIsolated: outcome of element k as the first library call of a fresh process
func c04RotIsolated(k int) string {
	if v, ok := c04RotIsolatedCache[k]; ok {
		return v
	}
	v := c04RotSpawn(k, 1)[k]
	c04RotIsolatedCache[k] = v
	return v
}
