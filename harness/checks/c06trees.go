package checks

import (
	"fmt"
	"strings"

	dtpb "github.com/google/fhir/go/proto/google/fhir/proto/r4/core/datatypes_go_proto"
	ppb "github.com/google/fhir/go/proto/google/fhir/proto/r4/core/resources/patient_go_proto"
	"github.com/verily-src/fhirpath-go/fhirpath/verifh/core"
	"github.com/verily-src/fhirpath-go/fhirpath/verifh/lib"
	"github.com/verily-src/fhirpath-go/internal/fhir"
)

// ---- C06, trees of three Boolean operators: every shape x every operator triple x every leaf assignment over
// {true, false, {}}, written fully parenthesised and - where the precedence table (and > or = xor > implies, left
// associative) makes the text denote the same tree - with the parentheses of left-nested operands left out. The value is
// the truth table applied along the tree, whatever the operands' own operators are.

type c06Node struct {
	op   int // -1 leaf
	leaf int
	l, r *c06Node
}

var c06OpNames = []string{"and", "or", "xor", "implies"}
var c06OpPrec = []int{3, 2, 2, 1}
var c06OpRef = []func(a, b tv) tv{refAnd, refOr, refXor, refImplies}
var c06LeafSrc = []string{"true", "false", "{}"}
var c06LeafVal = []tv{tT, tF, tE}

func (n *c06Node) eval() tv {
	if n.op < 0 {
		return c06LeafVal[n.leaf]
	}
	return c06OpRef[n.op](n.l.eval(), n.r.eval())
}

// full: every operator node in parentheses
func (n *c06Node) full() string {
	if n.op < 0 {
		return c06LeafSrc[n.leaf]
	}
	return "(" + n.l.full() + " " + c06OpNames[n.op] + " " + n.r.full() + ")"
}

// minimal: parentheses only where precedence and left associativity need them
func (n *c06Node) minimal() string {
	if n.op < 0 {
		return c06LeafSrc[n.leaf]
	}
	ls, rs := n.l.minimal(), n.r.minimal()
	if n.l.op >= 0 && c06OpPrec[n.l.op] < c06OpPrec[n.op] {
		ls = "(" + ls + ")"
	}
	if n.r.op >= 0 && c06OpPrec[n.r.op] <= c06OpPrec[n.op] {
		rs = "(" + rs + ")"
	}
	return ls + " " + c06OpNames[n.op] + " " + rs
}

// c06Shapes: the five binary trees with three inner nodes; ops and leaves are filled in left to right (pre-order)
func c06Build(shape int, ops [3]int, leaves [4]int) *c06Node {
	oi, li := 0, 0
	var mk func(code string, pos *int) *c06Node
	mk = func(code string, pos *int) *c06Node {
		c := code[*pos]
		*pos++
		if c == 'L' {
			n := &c06Node{op: -1, leaf: leaves[li]}
			li++
			return n
		}
		n := &c06Node{op: ops[oi]}
		oi++
		n.l = mk(code, pos)
		n.r = mk(code, pos)
		return n
	}
	// pre-order codes: N = operator node, L = leaf
	codes := []string{"NNNLLLL", "NNLNLLL", "NNLLNLL", "NLNNLLL", "NLNLNLL"}
	p := 0
	return mk(codes[shape], &p)
}

func init() {
	c06ExtraSubs = append(c06ExtraSubs,
		core.Sub{Name: "operator-trees-3", N: 5 * 64, Note: "5 tree shapes x 4^3 operators (one outer case each) x 3^4 leaves over {true, false, {}}: fully and minimally parenthesised renderings against the truth tables applied along the tree", Run: func(i int, r *core.Rec) {
			shape, oc := i/64, i%64
			ops := [3]int{oc % 4, (oc / 4) % 4, oc / 16}
			for lc := 0; lc < 81; lc++ {
				leaves := [4]int{lc % 3, (lc / 3) % 3, (lc / 9) % 3, lc / 27}
				t := c06Build(shape, ops, leaves)
				want := t.eval().String()
				for _, rd := range []struct{ kind, src string }{{"full", t.full()}, {"minimal", t.minimal()}} {
					res := lib.Run(rd.src, nil, nil)
					r.Eval()
					got := obs3(res)
					r.State(fmt.Sprintf("tree3|shape%d|%s", shape, rd.kind))
					r.Outcome("tree3|" + got)
					r.Nontrivial(rd.src, got)
					if got != want {
						r.Fail(fmt.Sprintf("tree3|shape%d|%s,%s,%s|%s|got=%s|want=%s", shape, c06OpNames[ops[0]], c06OpNames[ops[1]], c06OpNames[ops[2]], rd.kind, normGot(got), want), core.W{"src": rd.src, "got": res.String(), "want": want})
					}
				}
			}
		}},
		core.Sub{Name: "multi-resource-input", N: 1, Note: "Patient.active over inputs of 1..3 Patients (active true / false / absent) that carry no id, one shared id or different ids: as many items as resources that have the element, so two or more are an error for and / or / xor / implies (both sides), not(), iif, and never the first one's value", Run: func(_ int, r *core.Rec) {
			mk := func(id string, active int) *ppb.Patient {
				p := &ppb.Patient{}
				if id != "" {
					p.Id = fhir.ID(id)
					p.Meta = &dtpb.Meta{VersionId: fhir.ID("1")}
				}
				if active >= 0 {
					p.Active = fhir.Boolean(active == 1)
				}
				return p
			}
			acts := []int{1, 0, -1}
			for _, idMode := range []string{"no-id", "same-id", "different-ids"} {
				for n := 1; n <= 3; n++ {
					total := 1
					for k := 0; k < n; k++ {
						total *= 3
					}
					for code := 0; code < total; code++ {
						var in []fhir.Resource
						var vals []tv
						c := code
						for k := 0; k < n; k++ {
							a := acts[c%3]
							c /= 3
							id := ""
							switch idMode {
							case "same-id":
								id = "p1"
							case "different-ids":
								id = fmt.Sprintf("p%d", k)
							}
							in = append(in, mk(id, a))
							if a >= 0 {
								vals = append(vals, map[int]tv{1: tT, 0: tF}[a])
							}
						}
						operand := tE
						switch {
						case len(vals) == 1:
							operand = vals[0]
						case len(vals) > 1:
							operand = tMulti
						}
						exp := func(f func(tv) tv) string {
							if operand == tMulti {
								return "error"
							}
							return f(operand).String()
						}
						cases := []struct{ src, want string }{
							{"Patient.active.count()", fmt.Sprintf("nonbool:Integer:%d", len(vals))},
							{"Patient.count()", fmt.Sprintf("nonbool:Integer:%d", n)},
							{"Patient.active and true", exp(func(a tv) tv { return refAnd(a, tT) })}, {"true and Patient.active", exp(func(a tv) tv { return refAnd(tT, a) })},
							{"Patient.active or false", exp(func(a tv) tv { return refOr(a, tF) })}, {"false or Patient.active", exp(func(a tv) tv { return refOr(tF, a) })},
							{"Patient.active xor false", exp(func(a tv) tv { return refXor(a, tF) })}, {"Patient.active implies false", exp(func(a tv) tv { return refImplies(a, tF) })},
							{"true implies Patient.active", exp(func(a tv) tv { return refImplies(tT, a) })}, {"Patient.active.not()", exp(refNot)},
							{"iif(Patient.active, true, false)", exp(func(a tv) tv {
								if a == tT {
									return tT
								}
								return tF
							})},
						}
						for _, cs := range cases {
							res := lib.Run(cs.src, in, nil)
							r.Eval()
							got := obs3(res)
							r.State(fmt.Sprintf("multi-resource|%s|n=%d|operand=%s", idMode, n, operand))
							r.Nontrivial(cs.src, idMode, fmt.Sprint(code), got)
							if got != cs.want {
								form := cs.src
								if k := strings.Index(form, "("); k > 0 && strings.HasPrefix(form, "iif") {
									form = "iif"
								}
								r.Fail(fmt.Sprintf("multi-resource|%s|n=%d|operand=%s|%s|got=%s|want=%s", idMode, n, operand, form, normGot(got), cs.want), core.W{"src": cs.src, "ids": idMode, "actives": fmt.Sprint(vals), "resources": n, "got": res.String(), "want": cs.want})
							}
						}
					}
				}
			}
		}},
	)
}
