package checks

import (
	"fmt"
	"google.golang.org/protobuf/reflect/protoreflect"
	"math/big"
	"sort"
	"strings"

	"github.com/verily-src/fhirpath-go/fhirpath/system"
	"github.com/verily-src/fhirpath-go/fhirpath/verifh/core"
	"github.com/verily-src/fhirpath-go/fhirpath/verifh/lib"
	"google.golang.org/protobuf/proto"
)

// ---- C05: equality and ordering form one consistent partial order.

func tvOf(b bool) tv {
	if b {
		return tT
	}
	return tF
}

// c05Ref is the reference comparison: defEq/defOrd say whether the statement
// defines equality / ordering for the pair at all.
func c05Ref(a, b lib.Val) (defEq, defOrd bool, eq, lt, gt tv) {
	switch {
	case a.RKind == "num" && b.RKind == "num":
		c := a.RNum.Cmp(b.RNum)
		return true, true, tvOf(c == 0), tvOf(c < 0), tvOf(c > 0)
	case a.RKind == "str" && b.RKind == "str":
		return true, true, tvOf(a.RStr == b.RStr), tvOf(a.RStr < b.RStr), tvOf(a.RStr > b.RStr)
	case a.RKind == "bool" && b.RKind == "bool":
		return true, false, tvOf(a.RBool == b.RBool), tE, tE
	case a.RKind == "temporal" && b.RKind == "temporal":
		c, def, cmpb := lib.CompareRefT(a.RT, b.RT)
		if !cmpb {
			return false, false, tE, tE, tE
		}
		if !def {
			return true, true, tE, tE, tE
		}
		return true, true, tvOf(c == 0), tvOf(c < 0), tvOf(c > 0)
	case a.RKind == "qty" && b.RKind == "qty":
		if a.RStr != b.RStr {
			return true, true, tE, tE, tE
		}
		c := a.RNum.Cmp(b.RNum)
		return true, true, tvOf(c == 0), tvOf(c < 0), tvOf(c > 0)
	case a.RKind == "complex" && b.RKind == "complex":
		return true, false, tvOf(proto.Equal(a.V.(proto.Message), b.V.(proto.Message))), tE, tE
	}
	return false, false, tE, tE, tE
}

func negTv(t tv) tv {
	switch t {
	case tT:
		return tF
	case tF:
		return tT
	}
	return tE
}

var c05Ops = []string{"=", "!=", "<", "<=", ">", ">="}

func c05Pool() []lib.Val {
	p := append(append(append([]lib.Val{}, lib.SystemPool()...), lib.ElementPool()...), lib.OrderingExtras()...)
	// date and partial dateTime elements read in zones east and west of UTC: the calendar date they print is the date they are
	// (a subset of the C15 elements: one zone on either side, every precision)
	for _, v := range c15ExtraElements() {
		if strings.Contains(v.ID, "+14:00") || strings.Contains(v.ID, "-05:00") || strings.Contains(v.ID, ".us") {
			p = append(p, v)
		}
	}
	return p
}

// c05Items is the collection item alphabet: two collections can differ at every single position.
func c05Items() []lib.Val {
	es := lib.ElementPool()
	find := func(id string) lib.Val {
		for _, e := range es {
			if e.ID == id {
				return e
			}
		}
		panic(id)
	}
	one := lib.Val{ID: "1", V: system.Integer(1), RKind: "num", RNum: ratI(1), Class: "int"}
	two := lib.Val{ID: "2", V: system.Integer(2), RKind: "num", RNum: ratI(2), Class: "int"}
	d1 := lib.Val{ID: "1.0", V: lib.Dec("1.0"), RKind: "num", RNum: ratI(1), Class: "dec"}
	sa := lib.Val{ID: "'a'", V: system.String("a"), RKind: "str", RStr: "a", Class: "str"}
	return []lib.Val{one, two, d1, sa, find("f.nameA"), find("f.nameA2"), find("f.nameB")}
}

func collOf(items []lib.Val, idx int, n int) (system.Collection, []lib.Val) {
	// idx enumerates sequences of length n over items (mixed radix)
	c := system.Collection{}
	var vs []lib.Val
	for k := 0; k < n; k++ {
		it := items[idx%len(items)]
		idx /= len(items)
		c = append(c, it.V)
		vs = append(vs, it)
	}
	return c, vs
}

// allColls enumerates (length, index) pairs for lengths 0..maxLen, simplest first.
type collID struct{ n, idx int }

func allColls(nItems, maxLen int) []collID {
	var out []collID
	pow := 1
	for n := 0; n <= maxLen; n++ {
		for i := 0; i < pow; i++ {
			out = append(out, collID{n, i})
		}
		pow *= nItems
	}
	return out
}

func init() {
	core.Register(&core.Check{
		ID:          "C05",
		Rule:        "all ordered pairs of the value pool V u E (every System type, every precision/offset form, boundary numbers, scale variants, quantities, FHIR primitives of every kind, complex elements) x 6 operators via %a op %b (and as literals where both have literal syntax), compared with an independent reference comparator where the statement defines the pair and checked for the relational laws on the implementation's own outputs everywhere; all triples per comparability class for transitivity; all ordered pairs of collections of length 0..3/4 over a 7-item alphabet x {=, !=}",
		Assumptions: []string{"a DateTime without offset is taken as UTC (FHIRPath leaves the default to the implementation; the process time zone must not matter, C04)", "pairs the statement does not define (cross-type ordering, number vs Quantity) are checked for totality and law-consistency only"},
		Subs: func(tier string) []core.Sub {
			pool := c05Pool()
			classes := map[string][]lib.Val{}
			for _, v := range pool {
				k := v.RKind
				if k == "temporal" {
					if v.RT.Kind == "Time" {
						k = "time"
					} else {
						k = "date+datetime"
					}
				}
				if k == "bool" || k == "complex" {
					continue
				}
				classes[k] = append(classes[k], v)
			}
			classNames := []string{"num", "str", "date+datetime", "time", "qty"}
			items := c05Items()
			maxLen := 4 // both tiers: 2800 collections over 7 items cost seconds
			colls := allColls(len(items), maxLen)
			return []core.Sub{
				{Name: "pairs", N: len(pool), Note: fmt.Sprintf("%d values: all ordered pairs x 6 operators, reference + laws", len(pool)), Run: func(i int, r *core.Rec) {
					a := pool[i]
					comp := map[string]lib.Res{}
					for _, op := range c05Ops {
						comp[op] = lib.Compile("%a " + op + " %b")
					}
					for _, b := range pool {
						env := map[string]any{"a": a.V, "b": b.V}
						envR := map[string]any{"a": b.V, "b": a.V}
						got := map[string]string{}
						for _, op := range c05Ops {
							res := lib.EvalOpts(comp[op], nil, lib.EnvOpts(env)...)
							r.Eval()
							got[op] = obs3(res)
							if res.Panic != nil {
								r.Fail(fmt.Sprintf("pair|%s|%s,%s|%s", op, a.Class, b.Class, res.Panic.Key()), core.W{"a": a.ID, "b": b.ID, "op": op, "got": res.String()})
							}
						}
						// reversed direction for the symmetry laws
						rev := map[string]string{}
						for _, op := range []string{"=", ">", "<"} {
							res := lib.EvalOpts(comp[op], nil, lib.EnvOpts(envR)...)
							r.Eval()
							rev[op] = obs3(res)
						}
						defEq, defOrd, eq, lt, gt := c05Ref(a, b)
						r.State(fmt.Sprintf("%s,%s|defEq=%v|defOrd=%v", a.Class, b.Class, defEq, defOrd))
						r.Outcome(got["="] + "|" + got["<"] + "|" + got[">"])
						r.Nontrivial(a.ID, b.ID, got["="], got["!="], got["<"], got["<="], got[">"], got[">="])
						if r.WantSample() {
							r.Sample(core.W{"a": a.ID, "b": b.ID, "results": got})
						}
						w := func(op, want string) core.W {
							return core.W{"a": a.ID, "b": b.ID, "src": "%a " + op + " %b", "got": got[op], "want": want}
						}
						if defEq {
							if got["="] != eq.String() {
								r.Fail(fmt.Sprintf("ref|=|%s,%s|got=%s|want=%s", a.Class, b.Class, normGot(got["="]), eq), w("=", eq.String()))
							}
							if got["!="] != negTv(eq).String() {
								r.Fail(fmt.Sprintf("ref|!=|%s,%s|got=%s|want=%s", a.Class, b.Class, normGot(got["!="]), negTv(eq)), w("!=", negTv(eq).String()))
							}
						}
						if defOrd {
							for _, c := range []struct {
								op   string
								want tv
							}{{"<", lt}, {">", gt}, {"<=", negTv(gt)}, {">=", negTv(lt)}} {
								if got[c.op] != c.want.String() {
									r.Fail(fmt.Sprintf("ref|%s|%s,%s|got=%s|want=%s", c.op, a.Class, b.Class, normGot(got[c.op]), c.want), w(c.op, c.want.String()))
								}
							}
						}
						// laws on the implementation's own outputs (no model involved)
						law := func(name, l, rr string) {
							if l != rr {
								r.Fail(fmt.Sprintf("law|%s|%s,%s|%s!=%s", name, a.Class, b.Class, normGot(l), normGot(rr)), core.W{"a": a.ID, "b": b.ID, "law": name, "lhs": l, "rhs": rr, "all": got})
							}
						}
						law("eq-symmetric", got["="], rev["="])
						law("lt-iff-reversed-gt", got["<"], rev[">"])
						law("gt-iff-reversed-lt", got[">"], rev["<"])
						neg := map[string]string{"true": "false", "false": "true", "empty": "empty", "error": "error", "panic": "panic"}
						if n, ok := neg[got["="]]; ok {
							law("ne-is-negation", got["!="], n)
						}
						if n, ok := neg[got[">"]]; ok {
							law("le-is-not-gt", got["<="], n)
						}
						if n, ok := neg[got["<"]]; ok {
							law("ge-is-not-lt", got[">="], n)
						}
						cnt := 0
						for _, op := range []string{"<", "=", ">"} {
							if got[op] == "true" {
								cnt++
							}
						}
						if cnt > 1 {
							r.Fail(fmt.Sprintf("law|at-most-one-of-lt-eq-gt|%s,%s", a.Class, b.Class), core.W{"a": a.ID, "b": b.ID, "all": got})
						}
						// literal path
						if a.Lit != "" && b.Lit != "" {
							for _, op := range []string{"=", "<"} {
								src := a.Lit + " " + op + " " + b.Lit
								res := lib.Run(src, nil, nil)
								r.Eval()
								if g := obs3(res); g != got[op] {
									r.Fail(fmt.Sprintf("literal-vs-variable|%s|%s,%s|%s!=%s", op, a.Class, b.Class, normGot(g), normGot(got[op])), core.W{"src": src, "literal_result": g, "variable_result": got[op]})
								}
							}
						}
					}
				}},
				{Name: "transitivity", N: len(classNames), Note: "all ordered triples within each comparability class, on the implementation's < outputs", Run: func(i int, r *core.Rec) {
					vs := classes[classNames[i]]
					n := len(vs)
					comp := lib.Compile("%a < %b")
					lt := make([][]string, n)
					for x := 0; x < n; x++ {
						lt[x] = make([]string, n)
						for y := 0; y < n; y++ {
							res := lib.EvalOpts(comp, nil, lib.EnvOpts(map[string]any{"a": vs[x].V, "b": vs[y].V})...)
							r.Eval()
							lt[x][y] = obs3(res)
						}
					}
					r.State("transitivity|" + classNames[i])
					for x := 0; x < n; x++ {
						for y := 0; y < n; y++ {
							if lt[x][y] != "true" {
								continue
							}
							for z := 0; z < n; z++ {
								if lt[y][z] == "true" && lt[x][z] != "true" {
									r.Fail(fmt.Sprintf("law|lt-transitive|%s|a<c=%s", classNames[i], normGot(lt[x][z])), core.W{"a": vs[x].ID, "b": vs[y].ID, "c": vs[z].ID, "a<c": lt[x][z]})
								}
							}
						}
					}
					r.NontrivialByConstruction(int64(n * n * n))
					r.Sample(core.W{"class": classNames[i], "values": n, "triples": n * n * n})
				}},
				{Name: "same-named-codes", N: len(c05CodeGroups()), Note: "bound codes whose enum values share a name across value sets but are different FHIR codes (ResourceType 'Patient' / ActionParticipantType 'patient', ...), all members of a group compared in one process: each equals its own code and differs from the others'", Run: func(i int, r *core.Rec) {
					g := c05CodeGroups()[i]
					for _, a := range g.members {
						for _, b := range g.members {
							want := tT
							if a.code != b.code {
								want = tF
							}
							env := map[string]any{"a": a.msg, "c": system.String(b.code)}
							ge := obs3(lib.Run("%a = %c", nil, env))
							gn := obs3(lib.Run("%a != %c", nil, env))
							gr := obs3(lib.Run("%c = %a", nil, env))
							r.Eval()
							r.Eval()
							r.Eval()
							r.State("same-named-codes|" + want.String())
							r.Nontrivial(g.name, a.typ, b.code, ge)
							if ge != want.String() || gr != want.String() || gn != negTv(want).String() {
								r.Fail(fmt.Sprintf("same-named-codes|=:%s(want %s)|!=:%s", ge, want, gn), core.W{"enum_value_name": g.name, "element": a.typ, "its_code": a.code, "compared_with": b.code, "=": ge, "reversed": gr, "!=": gn})
							}
						}
					}
				}},
				{Name: "collections", N: len(colls), Note: fmt.Sprintf("all ordered pairs of collections of length 0..%d over 7 items x {=, !=}", maxLen), Run: func(i int, r *core.Rec) {
					ca, va := collOf(items, colls[i].idx, colls[i].n)
					ceq, cne := lib.Compile("%a = %b"), lib.Compile("%a != %b")
					for _, cb := range colls {
						// quick tier: right collection limited to the same length +-1 region is NOT applied; all pairs are run
						b, vb := collOf(items, cb.idx, cb.n)
						env := map[string]any{"a": ca, "b": b}
						ge := obs3(lib.EvalOpts(ceq, nil, lib.EnvOpts(env)...))
						gn := obs3(lib.EvalOpts(cne, nil, lib.EnvOpts(env)...))
						r.Eval()
						r.Eval()
						want := tE
						firstDiff := -1
						if len(va) > 0 && len(vb) > 0 {
							want = tT
							if len(va) != len(vb) {
								want = tF
							} else {
								for k := range va {
									_, _, eq, _, _ := c05Ref(va[k], vb[k])
									if eq != tT { // cross-kind items (1 vs 'a', 1 vs complex) are unequal
										want = tF
										firstDiff = k
										break
									}
								}
							}
						}
						r.State(fmt.Sprintf("coll|%d,%d|diff@%d", len(va), len(vb), firstDiff))
						if ge != want.String() || gn != negTv(want).String() {
							shape := fmt.Sprintf("len=%d,%d|first-diff@%d|complex-before-diff=%v", len(va), len(vb), firstDiff, complexBefore(va, firstDiff))
							r.Fail(fmt.Sprintf("collection|%s|=:%s(want %s)|!=:%s(want %s)", shape, ge, want, gn, negTv(want)), core.W{"a": ids(va), "b": ids(vb), "=": ge, "!=": gn, "want=": want.String()})
						}
					}
					// two views of ONE collection (prefixes and suffixes that share its array): equal exactly when they hold equal items,
					// not when they merely start at the same place
					wantOf := func(x, y []lib.Val) tv {
						if len(x) == 0 || len(y) == 0 {
							return tE
						}
						if len(x) != len(y) {
							return tF
						}
						for k := range x {
							if _, _, eq, _, _ := c05Ref(x[k], y[k]); eq != tT {
								return tF
							}
						}
						return tT
					}
					nViews := int64(0)
					for j := 0; j <= len(va); j++ {
						for k := 0; k <= len(va); k++ {
							for _, f := range []struct {
								src  string
								x, y []lib.Val
							}{
								{fmt.Sprintf("%%a.take(%d) OP %%a.take(%d)", j, k), va[:j], va[:k]},
								{fmt.Sprintf("%%a.skip(%d) OP %%a.skip(%d)", j, k), va[j:], va[k:]},
								{fmt.Sprintf("%%a.skip(%d) OP %%a.take(%d)", j, k), va[j:], va[:k]},
							} {
								want := wantOf(f.x, f.y)
								ge := obs3(lib.Run(strings.Replace(f.src, "OP", "=", 1), nil, map[string]any{"a": ca}))
								gn := obs3(lib.Run(strings.Replace(f.src, "OP", "!=", 1), nil, map[string]any{"a": ca}))
								r.Eval()
								r.Eval()
								nViews += 2
								r.State(fmt.Sprintf("coll-views|%d,%d", len(f.x), len(f.y)))
								if ge != want.String() || gn != negTv(want).String() {
									r.Fail(fmt.Sprintf("collection-views|len=%d,%d|=:%s(want %s)|!=:%s(want %s)", len(f.x), len(f.y), ge, want, gn, negTv(want)), core.W{"a": ids(va), "src": strings.Replace(f.src, "OP", "=", 1), "=": ge, "!=": gn, "want=": want.String()})
								}
							}
						}
					}
					r.NontrivialByConstruction(int64(2*len(colls)) + nViews)
					if r.WantSample() {
						r.Sample(core.W{"left": ids(va), "right_collections": len(colls)})
					}
				}},
			}
		},
	})
}

type c05CodeMember struct {
	typ, code string
	msg       proto.Message
}

type c05CodeGroup struct {
	name    string
	members []c05CodeMember
}

var c05Groups []c05CodeGroup

// c05CodeGroups: enum value names that stand for different FHIR codes in different value sets, with one element per such code
func c05CodeGroups() []c05CodeGroup {
	if c05Groups != nil {
		return c05Groups
	}
	byName := map[string][]c05CodeMember{}
	for _, mt := range c14CodeWrappers() {
		vf := mt.Descriptor().Fields().ByName("value")
		vals := vf.Enum().Values()
		for k := 0; k < vals.Len(); k++ {
			ev := vals.Get(k)
			if ev.Number() == 0 {
				continue
			}
			m := mt.New()
			m.Set(vf, protoreflect.ValueOfEnum(ev.Number()))
			byName[string(ev.Name())] = append(byName[string(ev.Name())], c05CodeMember{string(mt.Descriptor().FullName()), c18CodeOf(ev), m.Interface()})
		}
	}
	var names []string
	for n := range byName {
		names = append(names, n)
	}
	sort.Strings(names)
	for _, n := range names {
		codes := map[string]bool{}
		var ms []c05CodeMember
		for _, m := range byName[n] {
			if !codes[m.code] {
				codes[m.code] = true
				ms = append(ms, m) // one element per distinct code
			}
		}
		if len(ms) >= 2 {
			c05Groups = append(c05Groups, c05CodeGroup{n, ms})
		}
	}
	if c05Groups == nil {
		c05Groups = []c05CodeGroup{}
	}
	return c05Groups
}

func complexBefore(v []lib.Val, k int) bool {
	for i := 0; i < k && i < len(v); i++ {
		if v[i].RKind == "complex" {
			return true
		}
	}
	return false
}

func ids(v []lib.Val) []string {
	out := make([]string, len(v))
	for i, x := range v {
		out[i] = x.ID
	}
	return out
}

func ratI(i int64) *big.Rat { return big.NewRat(i, 1) }
