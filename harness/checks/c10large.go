package checks

import (
	"fmt"
	"strings"

	dtpb "github.com/google/fhir/go/proto/google/fhir/proto/r4/core/datatypes_go_proto"
	"github.com/verily-src/fhirpath-go/fhirpath/system"
	"github.com/verily-src/fhirpath-go/fhirpath/verifh/core"
	"github.com/verily-src/fhirpath-go/fhirpath/verifh/lib"
	"github.com/verily-src/fhirpath-go/internal/fhir"
)

// ---- C10, large collections: the algebra on collections whose sizes straddle the points at which an implementation
// could switch algorithm (hash-based set functions, pre-sized buffers, chunked iteration). The reference is computed
// here on class labels; items are System values or FHIR elements whose equality class is known by construction.

type c10LargeCase struct {
	name  string
	items []c10Item
}

func c10LargeCases(tier string) []c10LargeCase {
	sizes := []int{7, 8, 9, 15, 16, 17, 31, 32, 33, 63, 64, 65, 100, 127, 128, 129, 255, 256, 257, 1000, 1024, 1025}
	if tier == "thorough" {
		sizes = append(sizes, 2047, 2048, 2049, 4096, 4097, 10000)
	}
	var out []c10LargeCase
	for _, n := range sizes {
		for _, tx := range []string{"distinct-int", "mod3", "strings5", "int-dec-mix", "late-dup", "names"} {
			if tx == "names" && n > 300 {
				continue
			}
			items := make([]c10Item, n)
			for k := range items {
				switch tx {
				case "distinct-int":
					items[k] = c10Item{v: system.Integer(k), cls: fmt.Sprint(k), typ: "Integer"}
				case "mod3":
					items[k] = c10Item{v: system.Integer(k % 3), cls: fmt.Sprint(k % 3), typ: "Integer"}
				case "strings5":
					items[k] = c10Item{v: system.String(fmt.Sprintf("s%d", k%5)), cls: fmt.Sprintf("s%d", k%5), typ: "String"}
				case "int-dec-mix":
					// k/2 as Integer, then as Decimal with one decimal place: equal values of different types
					if k%2 == 0 {
						items[k] = c10Item{v: system.Integer(k / 2), cls: fmt.Sprint(k / 2), typ: "Integer"}
					} else {
						items[k] = c10Item{v: lib.Dec(fmt.Sprintf("%d.0", k/2)), cls: fmt.Sprint(k / 2), typ: "Decimal"}
					}
				case "late-dup":
					items[k] = c10Item{v: system.Integer(k), cls: fmt.Sprint(k), typ: "Integer"}
					if k == n-1 {
						items[k] = c10Item{v: system.Integer(0), cls: "0", typ: "Integer"}
					}
				case "names":
					// complex elements: every fourth one is an equal copy (another message) of the first
					fam := fmt.Sprintf("F%d", k)
					if k%4 == 0 {
						fam = "F0"
					}
					items[k] = c10Item{v: &dtpb.HumanName{Family: fhir.String(fam)}, cls: fam, typ: "HumanName"}
				}
				items[k].id = items[k].cls
			}
			out = append(out, c10LargeCase{fmt.Sprintf("n=%d.%s", n, tx), items})
		}
	}
	return out
}

// c10SameOrValue: the result item is the input item itself, or (System values) a value that prints alike
func c10SameClassSeq(got system.Collection, want []c10Item) bool {
	if len(got) != len(want) {
		return false
	}
	for i := range got {
		if !c10Same(got[i], want[i].v) {
			return false
		}
	}
	return true
}

func c10LargeOne(r *core.Rec, lc c10LargeCase) {
	c := lc.items
	n := len(c)
	env := c10Env(c)
	tx := lc.name[len(fmt.Sprintf("n=%d.", n)):]
	if k := strings.Index(tx, ":"); k >= 0 {
		tx = tx[:k]
	}
	run := func(src string) lib.Res {
		res := lib.Run(src, nil, env)
		r.Eval()
		return res
	}
	fail := func(fn, arg string, res lib.Res, want any) {
		r.Fail(c10Key("large", fn, tx, arg, c10Disc(res)), core.W{"collection": lc.name, "got_count": len(res.Coll), "got_head": core.Short(res.String(), 300), "want": want})
	}
	r.State("large|" + lc.name)
	wantInt := func(fn, src string, want int) {
		res := run(src)
		if !(res.OK() && len(res.Coll) == 1 && res.Coll[0] == system.Integer(want)) {
			fail(fn, "-", res, want)
		}
	}
	wantBool := func(fn, arg, src string, want bool) {
		res := run(src)
		if !(res.OK() && len(res.Coll) == 1 && res.Coll[0] == system.Boolean(want)) {
			fail(fn, arg, res, want)
		}
	}
	wantSeq := func(fn, arg, src string, want []c10Item) lib.Res {
		res := run(src)
		c10NoNil(r, fn, res, core.W{"collection": lc.name, "src": src})
		if !(res.OK() && c10SameClassSeq(res.Coll, want)) {
			fail(fn, arg, res, fmt.Sprintf("%d items, the input's own, in order", len(want)))
		}
		return res
	}
	wantInt("count", "%c.count()", n)
	wantBool("empty", "-", "%c.empty()", false)
	wantBool("exists", "-", "%c.exists()", true)
	// criteria: a class test and (integers) an order test; where keeps exactly the matching items in order
	type crit struct {
		name, src string
		f         func(k int, it c10Item) bool
	}
	var crits []crit
	switch c[1].typ {
	case "Integer", "Decimal":
		m := n / 4
		crits = []crit{{"gt", fmt.Sprintf("$this > %d", m), func(k int, it c10Item) bool { var v int; fmt.Sscan(it.cls, &v); return v > m }},
			{"eq", "$this = 1", func(k int, it c10Item) bool { return it.cls == "1" }},
			{"eq-last", fmt.Sprintf("$this = %s", c[n-1].cls), func(k int, it c10Item) bool { return it.cls == c[n-1].cls }},
			{"none", "$this < 0", func(k int, it c10Item) bool { return false }}, {"every", "$this >= 0", func(k int, it c10Item) bool { return true }}}
	case "String":
		crits = []crit{{"eq", "$this = 's1'", func(k int, it c10Item) bool { return it.cls == "s1" }},
			{"none", "$this = 'zz'", func(k int, it c10Item) bool { return false }}, {"every", "$this.length() = 2", func(k int, it c10Item) bool { return true }}}
	default:
		crits = []crit{{"eq", "family = 'F0'", func(k int, it c10Item) bool { return it.v.(*dtpb.HumanName).GetFamily().GetValue() == "F0" }},
			{"none", "family = 'zz'", func(k int, it c10Item) bool { return false }}, {"every", "family.exists()", func(k int, it c10Item) bool { return true }}}
	}
	for _, cr := range crits {
		var want []c10Item
		for k, it := range c {
			if cr.f(k, it) {
				want = append(want, it)
			}
		}
		wantSeq("where", cr.name, "%c.where("+cr.src+")", want)
		wantBool("exists(p)", cr.name, "%c.exists("+cr.src+")", len(want) > 0)
		wantBool("exists(p)=where(p).exists()", cr.name, "%c.exists("+cr.src+") = %c.where("+cr.src+").exists()", true)
		wantBool("all", cr.name, "%c.all("+cr.src+")", len(want) == n)
		wantInt("where.count", "%c.where("+cr.src+").count()", len(want))
	}
	// a criterion function behind where(): the receiver is the filtered collection, whatever the two functions are
	for _, p := range crits {
		for _, q := range crits {
			var both []c10Item
			nP := 0
			for k, it := range c {
				if p.f(k, it) {
					nP++
					if q.f(k, it) {
						both = append(both, it)
					}
				}
			}
			arg := p.name + "," + q.name
			wantBool("where(p).exists(q)", arg, "%c.where("+p.src+").exists("+q.src+")", len(both) > 0)
			wantBool("where(p).all(q)", arg, "%c.where("+p.src+").all("+q.src+")", len(both) == nP)
			wantSeq("where(p).where(q)", arg, "%c.where("+p.src+").where("+q.src+")", both)
			wantInt("where(p).select(q).count", "%c.where("+p.src+").select("+q.src+").count()", nP)
		}
	}
	// select: one result per item, in order (the item itself), and a two-item projection concatenated in order
	wantSeq("select", "$this", "%c.select($this)", c)
	if res := run("%c.select(%two).count()"); !(res.OK() && len(res.Coll) == 1 && res.Coll[0] == system.Integer(2*n)) {
		fail("select", "two-per-item", res, 2*n)
	}
	// subsetting
	wantSeq("first", "-", "%c.first()", c[:1])
	wantSeq("last", "-", "%c.last()", c[n-1:])
	wantSeq("tail", "-", "%c.tail()", c[1:])
	wantSeq("last=skip(count()-1)", "-", "%c.skip(%c.count() - 1)", c[n-1:])
	for _, k := range []int{0, 1, 2, n/2 - 1, n / 2, n/2 + 1, n - 2, n - 1, n, n + 1} {
		kc := k
		if kc > n {
			kc = n
		}
		arg := fmt.Sprintf("k=%s", posClass(int64(k), int64(n)))
		wantSeq("take", arg, fmt.Sprintf("%%c.take(%d)", k), c[:kc])
		wantSeq("skip", arg, fmt.Sprintf("%%c.skip(%d)", k), c[kc:])
		if k < n {
			wantSeq("index", arg, fmt.Sprintf("%%c[%d]", k), c[k:k+1])
		} else {
			wantSeq("index", arg, fmt.Sprintf("%%c[%d]", k), nil)
		}
		wantBool("take+skip", arg, fmt.Sprintf("%%c.take(%d).count() + %%c.skip(%d).count() = %%c.count()", k, k), true)
	}
	// classes in order of first occurrence
	var classes []string
	first := map[string]int{}
	for k, it := range c {
		if _, ok := first[it.cls]; !ok {
			first[it.cls] = k
			classes = append(classes, it.cls)
		}
	}
	clsOf := func(g any) string {
		for _, it := range c {
			if c10Same(g, it.v) {
				return it.cls
			}
		}
		return ""
	}
	dupFreeOver := func(fn, arg string, res lib.Res, wantClasses map[string]bool) {
		ok := res.OK() && len(res.Coll) == len(wantClasses)
		if ok {
			seen := map[string]bool{}
			for _, g := range res.Coll {
				cl := clsOf(g)
				if cl == "" || seen[cl] || !wantClasses[cl] {
					ok = false
				}
				seen[cl] = true
			}
		}
		if !ok {
			fail(fn, arg, res, fmt.Sprintf("one item of c for each of %d classes", len(wantClasses)))
		}
	}
	all := map[string]bool{}
	for _, cl := range classes {
		all[cl] = true
	}
	rd := run("%c.distinct()")
	c10NoNil(r, "distinct", rd, core.W{"collection": lc.name})
	dupFreeOver("distinct", "-", rd, all)
	wantBool("isDistinct", "-", "%c.isDistinct()", len(classes) == n)
	wantBool("isDistinct=count-law", "-", "%c.isDistinct() = (%c.count() = %c.distinct().count())", true)
	// exclude / intersect with arguments drawn from c (items of d are always items of c)
	ds := map[string][]c10Item{"first": c[:1], "last": c[n-1:], "all": c, "second-half": c[n/2:], "one-in-the-middle": c[n/2 : n/2+1], "empty": nil}
	var alt []c10Item
	for k := 0; k < n; k += 2 {
		alt = append(alt, c[k])
	}
	ds["every-other"] = alt
	for _, dn := range []string{"first", "last", "all", "second-half", "one-in-the-middle", "every-other", "empty"} {
		d := ds[dn]
		dv := make(system.Collection, len(d))
		dcls := map[string]bool{}
		for j, it := range d {
			dv[j] = it.v
			dcls[it.cls] = true
		}
		env["d"] = dv
		var wantEx []c10Item
		inter := map[string]bool{}
		for _, it := range c {
			if dcls[it.cls] {
				inter[it.cls] = true
			} else {
				wantEx = append(wantEx, it)
			}
		}
		wantSeq("exclude", "d="+dn, "%c.exclude(%d)", wantEx)
		ri := run("%c.intersect(%d)")
		c10NoNil(r, "intersect", ri, core.W{"collection": lc.name, "d": dn})
		dupFreeOver("intersect", "d="+dn, ri, inter)
	}
}

// c10SameIDCases: all sequences of length 2..4 over four complex elements of one type: A1 and A3 are equal copies
// (same element id, same content), A2 shares the id with them but not the content, A4 shares the content but not the id.
// An element id is part of the element, it is not its identity: A1 = A3, and A2, A4 are each their own class.
func c10SameIDCases() []c10LargeCase {
	mk := func(id, fam string) *dtpb.HumanName { return &dtpb.HumanName{Id: fhir.String(id), Family: fhir.String(fam)} }
	alpha := []c10Item{
		{id: "A1", v: mk("n1", "F0"), cls: "n1/F0", typ: "HumanName"}, {id: "A2", v: mk("n1", "Lee"), cls: "n1/Lee", typ: "HumanName"},
		{id: "A3", v: mk("n1", "F0"), cls: "n1/F0", typ: "HumanName"}, {id: "A4", v: mk("n2", "F0"), cls: "n2/F0", typ: "HumanName"},
	}
	var out []c10LargeCase
	for n := 2; n <= 4; n++ {
		total := 1
		for k := 0; k < n; k++ {
			total *= len(alpha)
		}
		for code := 0; code < total; code++ {
			items := make([]c10Item, n)
			name := ""
			c := code
			for k := 0; k < n; k++ {
				items[k] = alpha[c%len(alpha)]
				name += items[k].id
				c /= len(alpha)
			}
			out = append(out, c10LargeCase{fmt.Sprintf("n=%d.same-id:%s", n, name), items})
		}
	}
	return out
}
