package checks

import (
	"fmt"
	"math"
	"math/big"
	"sort"
	"strings"

	dtpb "github.com/google/fhir/go/proto/google/fhir/proto/r4/core/datatypes_go_proto"
	"github.com/verily-src/fhirpath-go/fhirpath/system"
	"github.com/verily-src/fhirpath-go/fhirpath/verifh/core"
	"github.com/verily-src/fhirpath-go/fhirpath/verifh/lib"
	"github.com/verily-src/fhirpath-go/internal/fhir"
)

// ---- C08: exact Integer/Decimal arithmetic against math/big.

// numv is one numeric operand.
type numv struct {
	id    string
	v     any      // system.Integer / system.Decimal / FHIR element
	rat   *big.Rat // exact value
	isInt bool     // Integer-typed (System Integer or FHIR integer kinds)
	src   string   // "sys" | "fhir.integer" | ...
}

func (n numv) class() string {
	if n.rat.Sign() == 0 {
		return "zero"
	}
	if n.isInt {
		a := new(big.Rat).Abs(n.rat)
		if a.Cmp(big.NewRat(1, 1)) == 0 {
			return "one"
		}
		if a.Cmp(big.NewRat(math.MaxInt32-1, 1)) >= 0 {
			return "edge"
		}
		if a.Cmp(big.NewRat(46340, 1)) >= 0 {
			return "big"
		}
		return "small"
	}
	digits := len(strings.Trim(strings.ReplaceAll(strings.TrimPrefix(n.id, "-"), ".", ""), "0"))
	if digits > 16 {
		return "long"
	}
	if n.rat.IsInt() {
		return "whole"
	}
	return "frac"
}

func (n numv) typ() string {
	if n.isInt {
		if n.src != "sys" {
			return n.src
		}
		return "Integer"
	}
	if n.src != "sys" {
		return n.src
	}
	return "Decimal"
}

func intNum(i int64) numv {
	return numv{id: fmt.Sprint(i), v: system.Integer(int32(i)), rat: big.NewRat(i, 1), isInt: true, src: "sys"}
}
func decNum(s string) numv {
	r, ok := new(big.Rat).SetString(s)
	if !ok {
		panic("bad decimal " + s)
	}
	return numv{id: s, v: lib.Dec(s), rat: r, src: "sys"}
}

func intGrid(tier string) []numv {
	set := map[int64]bool{}
	for _, b := range lib.IntBoundary {
		set[b] = true
	}
	for k := 0; k <= 31; k++ {
		p := int64(1) << k
		for _, d := range []int64{-1, 0, 1} {
			for _, s := range []int64{1, -1} {
				v := s * (p + d)
				if v >= math.MinInt32 && v <= math.MaxInt32 {
					set[v] = true
				}
			}
		}
	}
	lim := int64(40) // both tiers
	_ = tier
	for i := -lim; i <= lim; i++ {
		set[i] = true
	}
	var ks []int64
	for k := range set {
		ks = append(ks, k)
	}
	sort.Slice(ks, func(i, j int) bool {
		ai, aj := ks[i], ks[j]
		if ai < 0 {
			ai = -ai
		}
		if aj < 0 {
			aj = -aj
		}
		if ai != aj {
			return ai < aj
		}
		return ks[i] > ks[j]
	})
	out := make([]numv, len(ks))
	for i, k := range ks {
		out[i] = intNum(k)
	}
	return out
}

var c08DecStrings = []string{"0", "0.0", "1", "1.0", "1.00", "-1.0", "0.5", "-0.5", "1.5", "-1.5", "2.5", "-2.5", "3.5", "0.25", "0.125", "0.1", "0.2", "0.3", "-0.1",
	"0.05", "0.15", "0.25", "0.005", "0.015", "0.0005", "1.005", "2.675", "0.49999", "0.50001", "-0.49999", "-0.50001",
	"3.14159", "-3.14159", "2.0", "3.0", "7.0", "-7.0", "10.0", "100.0", "0.01", "0.001",
	"0.000000000000000000000000000001", "-0.000000000000000000000000000001", "123456789.123456789012345678901234567890",
	"1234567890123456789012345678901234567890", "-1234567890123456789012345678901234567890", "1234567890123456789012345678901234567890.5",
	"99999999999.9", "-99999999999.9", "2147483647.0", "2147483647.5", "2147483646.5", "2147483648.0", "-2147483648.0", "-2147483648.5", "-2147483649.0",
	"9007199254740993.0", "0.1000000000000000055511151231257827", "1.0000000000000000001", "33.333333333333333333", "0.999", "0.9999999999999999999"}

func decPool() []numv {
	seen := map[string]bool{}
	var out []numv
	for _, s := range c08DecStrings {
		if seen[s] {
			continue
		}
		seen[s] = true
		out = append(out, decNum(s))
	}
	return out
}

// widePool: decimals around the machine word sizes a conversion could silently
// wrap at (2^32, 2^63, 2^64, 2^65, 2^128 and 3*2^64), each with offsets that
// land inside and outside the Integer range after a wrap.
func widePool() []numv {
	var out []numv
	seen := map[string]bool{}
	for _, base := range []*big.Int{new(big.Int).Lsh(big.NewInt(1), 32), new(big.Int).Lsh(big.NewInt(1), 63), new(big.Int).Lsh(big.NewInt(1), 64), new(big.Int).Lsh(big.NewInt(1), 65),
		new(big.Int).Lsh(big.NewInt(3), 64), new(big.Int).Lsh(big.NewInt(1), 128)} {
		for _, off := range []struct {
			n    int64
			frac string
		}{{0, ".0"}, {5, ".5"}, {-7, ".25"}, {math.MaxInt32, ".0"}, {math.MinInt32, ".5"}, {-1, ".75"}} {
			for _, sign := range []int64{1, -1} {
				v := new(big.Int).Add(base, big.NewInt(off.n))
				v.Mul(v, big.NewInt(sign))
				str := v.String() + off.frac
				if !seen[str] {
					seen[str] = true
					out = append(out, decNum(str))
				}
			}
		}
	}
	return out
}

var (
	minI32 = big.NewRat(math.MinInt32, 1)
	maxI32 = big.NewRat(math.MaxInt32, 1)
	eps16  = new(big.Rat).SetFrac(big.NewInt(1), new(big.Int).Exp(big.NewInt(10), big.NewInt(16), nil))
)

func inI32(r *big.Rat) bool { return r.Cmp(minI32) >= 0 && r.Cmp(maxI32) <= 0 }

func truncQuo(a, b *big.Rat) *big.Int {
	n := new(big.Int).Mul(a.Num(), b.Denom())
	d := new(big.Int).Mul(a.Denom(), b.Num())
	return new(big.Int).Quo(n, d) // truncated toward zero
}

// expectation of one arithmetic case
type c08Want struct {
	empty   bool     // expected empty (overflow or division by zero)
	why     string   // "value" | "overflow" | "divzero"
	val     *big.Rat // expected exact value
	approx  bool     // compare within 1e-16
	intType bool     // result must be Integer-typed
	decType bool     // result must be Decimal-typed
}

func c08Ref(op string, a, b numv) c08Want {
	bothInt := a.isInt && b.isInt
	switch op {
	case "+", "-", "*":
		v := new(big.Rat)
		switch op {
		case "+":
			v.Add(a.rat, b.rat)
		case "-":
			v.Sub(a.rat, b.rat)
		case "*":
			v.Mul(a.rat, b.rat)
		}
		if bothInt && !inI32(v) {
			return c08Want{empty: true, why: "overflow"}
		}
		return c08Want{why: "value", val: v, intType: bothInt, decType: !bothInt}
	case "/":
		if b.rat.Sign() == 0 {
			return c08Want{empty: true, why: "divzero"}
		}
		return c08Want{why: "value", val: new(big.Rat).Quo(a.rat, b.rat), approx: true, decType: true}
	case "div":
		if b.rat.Sign() == 0 {
			return c08Want{empty: true, why: "divzero"}
		}
		q := new(big.Rat).SetInt(truncQuo(a.rat, b.rat))
		if !inI32(q) {
			return c08Want{empty: true, why: "overflow"}
		}
		return c08Want{why: "value", val: q, intType: true}
	case "mod":
		if b.rat.Sign() == 0 {
			return c08Want{empty: true, why: "divzero"}
		}
		q := new(big.Rat).SetInt(truncQuo(a.rat, b.rat))
		m := new(big.Rat).Sub(a.rat, new(big.Rat).Mul(q, b.rat))
		return c08Want{why: "value", val: m, intType: bothInt, decType: !bothInt}
	}
	panic("op " + op)
}

// numOf extracts (value, isInteger) from a single-item result.
func numOf(v any) (*big.Rat, bool, bool) {
	switch x := v.(type) {
	case system.Integer:
		return big.NewRat(int64(x), 1), true, true
	case system.Decimal:
		r, ok := new(big.Rat).SetString(x.String())
		return r, false, ok
	}
	return nil, false, false
}

// c08Judge compares a result with the expectation; returns "" or a discrepancy tag.
func c08Judge(res lib.Res, w c08Want) string {
	if res.Panic != nil {
		return res.Panic.Key()
	}
	if res.CompileErr != nil {
		return "compile-error"
	}
	if res.Err != nil {
		return "error"
	}
	if w.empty {
		if len(res.Coll) == 0 {
			return ""
		}
		return "value-instead-of-empty"
	}
	if len(res.Coll) == 0 {
		return "empty-instead-of-value"
	}
	if len(res.Coll) != 1 {
		return "multi"
	}
	got, isInt, ok := numOf(res.Coll[0])
	if !ok {
		return "non-numeric-result"
	}
	if w.approx {
		d := new(big.Rat).Sub(got, w.val)
		if d.Abs(d).Cmp(eps16) > 0 {
			return "value!=ref(beyond-1e-16)"
		}
	} else if got.Cmp(w.val) != 0 {
		return "value!=ref"
	}
	if w.intType && !isInt {
		return "wrong-type(want-Integer)"
	}
	if w.decType && isInt {
		return "wrong-type(want-Decimal)"
	}
	return ""
}

var c08Ops = []string{"+", "-", "*", "/", "div", "mod"}

func c08Pairs(name, note string, left, right func() []numv) core.Sub {
	ls := left()
	return core.Sub{Name: name, N: len(ls), Note: note, Run: func(i int, r *core.Rec) {
		a := ls[i]
		compiled := map[string]lib.Res{}
		for _, op := range c08Ops {
			compiled[op] = lib.Compile("%a " + op + " %b")
		}
		for _, b := range right() {
			for _, op := range c08Ops {
				res := lib.EvalOpts(compiled[op], nil, lib.EnvOpts(map[string]any{"a": a.v, "b": b.v})...)
				r.Eval()
				w := c08Ref(op, a, b)
				d := c08Judge(res, w)
				r.State(fmt.Sprintf("%s|%s,%s|%s,%s|%s", op, a.typ(), b.typ(), a.class(), b.class(), w.why))
				r.Outcome(op + "|" + w.why + "|" + res.Class())
				if r.WantSample() {
					r.Sample(core.W{"a": a.id, "op": op, "b": b.id, "got": res.String(), "expect": w.why})
				}
				if d != "" {
					r.Fail(fmt.Sprintf("binop|%s|%s,%s|%s,%s|expect=%s|%s", op, a.typ(), b.typ(), a.class(), b.class(), w.why, d),
						core.W{"a": a.id, "a_type": a.typ(), "op": op, "b": b.id, "b_type": b.typ(), "got": res.String(), "want": wantStr(w)})
				}
			}
		}
		r.NontrivialByConstruction(int64(len(right()) * len(c08Ops)))
	}}
}

func wantStr(w c08Want) string {
	if w.empty {
		return "[] (" + w.why + ")"
	}
	if w.val.IsInt() {
		return w.val.Num().String()
	}
	return w.val.FloatString(20)
}

func fhirNums() []numv {
	var out []numv
	for _, i := range lib.IntBoundary {
		out = append(out, numv{id: fmt.Sprint(i), v: fhir.Integer(int32(i)), rat: big.NewRat(i, 1), isInt: true, src: "fhir.integer"})
	}
	for _, u := range []uint32{0, 1, 2, 46341, math.MaxInt32 - 1, math.MaxInt32} {
		out = append(out, numv{id: fmt.Sprint(u), v: fhir.UnsignedInt(u), rat: big.NewRat(int64(u), 1), isInt: true, src: "fhir.unsignedInt"})
		if u > 0 {
			out = append(out, numv{id: fmt.Sprint(u), v: fhir.PositiveInt(u), rat: big.NewRat(int64(u), 1), isInt: true, src: "fhir.positiveInt"})
		}
	}
	for _, s := range []string{"0", "0.0", "1.0", "-1.5", "2.5", "0.000000000000000000000000000001", "1234567890123456789012345678901234567890.5", "2147483647.5"} {
		r, _ := new(big.Rat).SetString(s)
		out = append(out, numv{id: s, v: &dtpb.Decimal{Value: s}, rat: r, src: "fhir.decimal"})
	}
	return out
}

// --- unary functions

func roundHalfAway(r *big.Rat, places int) *big.Rat {
	scale := new(big.Rat).SetInt(new(big.Int).Exp(big.NewInt(10), big.NewInt(int64(places)), nil))
	x := new(big.Rat).Mul(r, scale)
	half := big.NewRat(1, 2)
	var q *big.Int
	if x.Sign() >= 0 {
		x.Add(x, half)
		q = floorRat(x)
	} else {
		x.Sub(x, half)
		q = ceilRat(x)
	}
	return new(big.Rat).Quo(new(big.Rat).SetInt(q), scale)
}
func roundHalfUp(r *big.Rat, places int) *big.Rat {
	scale := new(big.Rat).SetInt(new(big.Int).Exp(big.NewInt(10), big.NewInt(int64(places)), nil))
	x := new(big.Rat).Mul(r, scale)
	x.Add(x, big.NewRat(1, 2))
	return new(big.Rat).Quo(new(big.Rat).SetInt(floorRat(x)), scale)
}
func floorRat(x *big.Rat) *big.Int {
	q := new(big.Int).Div(x.Num(), x.Denom()) // Euclidean: floor for positive denominator
	return q
}
func ceilRat(x *big.Rat) *big.Int {
	f := floorRat(x)
	if new(big.Rat).SetInt(f).Cmp(x) != 0 {
		f.Add(f, big.NewInt(1))
	}
	return f
}
func truncRat(x *big.Rat) *big.Int { return new(big.Int).Quo(x.Num(), x.Denom()) }

func c08Unary(r *core.Rec, n numv) {
	env := map[string]any{"a": n.v}
	run := func(src string) lib.Res {
		res := lib.Run(src, nil, env)
		r.Eval()
		return res
	}
	fail := func(fn, d string, res lib.Res, want string) {
		r.Fail(fmt.Sprintf("unary|%s|%s|%s|%s", fn, n.typ(), n.class(), d), core.W{"src": fn, "a": n.id, "a_type": n.typ(), "got": res.String(), "want": want})
	}
	// unary minus and abs: exact, overflow -> empty (Integer)
	for _, u := range []struct {
		fn, src string
		f       func(*big.Rat) *big.Rat
	}{{"neg", "-%a", func(x *big.Rat) *big.Rat { return new(big.Rat).Neg(x) }}, {"abs", "%a.abs()", func(x *big.Rat) *big.Rat { return new(big.Rat).Abs(x) }}} {
		v := u.f(n.rat)
		w := c08Want{why: "value", val: v, intType: n.isInt, decType: !n.isInt}
		if n.isInt && !inI32(v) {
			w = c08Want{empty: true, why: "overflow"}
		}
		res := run(u.src)
		r.State("unary|" + u.fn + "|" + n.typ() + "|" + n.class() + "|" + w.why)
		r.Nontrivial(u.fn, n.id, n.typ(), res.Class())
		if d := c08Judge(res, w); d != "" {
			fail(u.fn, "expect="+w.why+"|"+d, res, wantStr(w))
		}
	}
	// floor / ceiling / truncate -> Integer; empty or error when it does not fit
	for _, u := range []struct {
		fn string
		f  func(*big.Rat) *big.Int
	}{{"floor", floorRat}, {"ceiling", ceilRat}, {"truncate", truncRat}} {
		v := new(big.Rat).SetInt(u.f(n.rat))
		res := run("%a." + u.fn + "()")
		fits := inI32(v)
		r.State(fmt.Sprintf("unary|%s|%s|%s|fits=%v", u.fn, n.typ(), n.class(), fits))
		r.Nontrivial(u.fn, n.id, n.typ(), res.Class())
		if res.Panic != nil {
			fail(u.fn, res.Panic.Key(), res, wantStr(c08Want{val: v}))
			continue
		}
		if !fits {
			if res.Err == nil && len(res.Coll) != 0 {
				fail(u.fn, "expect=empty-or-error(does-not-fit)|value", res, "[] or error")
			}
			continue
		}
		if d := c08Judge(res, c08Want{why: "value", val: v, intType: true}); d != "" {
			fail(u.fn, "expect=value|"+d, res, v.Num().String())
		}
	}
	// round() and round(p): half away from zero; for negative ties half-up is accepted as well
	for p := -1; p <= 5; p++ {
		src, places := "%a.round()", 0
		if p >= 0 {
			src, places = fmt.Sprintf("%%a.round(%d)", p), p
		}
		res := run(src)
		if res.CompileErr != nil && p >= 0 {
			r.State("unary|round(p)|not-compilable") // arity is C16's subject; nothing to compare here
			continue
		}
		w1, w2 := roundHalfAway(n.rat, places), roundHalfUp(n.rat, places)
		r.State(fmt.Sprintf("unary|round|p=%d|%s|%s", p, n.typ(), n.class()))
		r.Nontrivial("round", fmt.Sprint(p), n.id, n.typ(), res.Class())
		if res.Panic != nil {
			fail("round", res.Panic.Key(), res, w1.FloatString(8))
			continue
		}
		if res.Err != nil || len(res.Coll) != 1 {
			fail("round", fmt.Sprintf("p=%d|%s", p, res.Class()), res, w1.FloatString(8))
			continue
		}
		got, _, ok := numOf(res.Coll[0])
		if !ok || (got.Cmp(w1) != 0 && got.Cmp(w2) != 0) {
			tie := ""
			if w1.Cmp(w2) != 0 {
				tie = "|negative-tie"
			}
			fail("round", fmt.Sprintf("p=%s|value!=ref%s", map[bool]string{true: "0", false: "n"}[p <= 0], tie), res, w1.FloatString(8))
		}
	}
}

func init() {
	core.Register(&core.Check{
		ID:   "C08",
		Rule: "all ordered pairs of a structured Integer grid (boundary set, +-2^k and neighbours, small range) and of a Decimal pool (0..30 fractional digits, 40 significant digits, ties, int32 edges; plus 72 decimals around the word sizes 2^32, 2^63, 2^64, 2^65, 3*2^64, 2^128) x {+,-,*,/,div,mod}, mixed Integer/Decimal and FHIR integer/positiveInt/unsignedInt/decimal operands, unary minus, abs, floor, ceiling, truncate, round(p); every case evaluated through Compile/Evaluate and compared with math/big; distinct by construction (bijective enumeration)",
		Assumptions: []string{"'/' is accepted within 1e-16 of the exact quotient (truncation or rounding of the 17th place)", "round: half away from zero; half-up also accepted for negative ties", "unsignedInt/positiveInt values above 2^31-1 are outside FHIR's value domain and not supplied"},
		Subs: func(tier string) []core.Sub {
			ints := func() []numv { return intGrid(tier) }
			bnd := func() []numv {
				var o []numv
				for _, b := range lib.IntBoundary {
					o = append(o, intNum(b))
				}
				return o
			}
			smallDec := func() []numv {
				var o []numv
				for _, d := range []string{"0.5", "-0.5", "1.0", "0.1", "-2.5", "3.0", "0.25", "100.5", "-0.001", "1.5"} {
					o = append(o, decNum(d))
				}
				return o
			}
			subs := []core.Sub{
				c08Pairs("int-x-int", "all ordered pairs of the Integer grid x 6 operators", ints, ints),
				c08Pairs("dec-x-dec", "all ordered pairs of the Decimal pool x 6 operators", decPool, decPool),
				c08Pairs("int-x-dec", "boundary Integers x Decimal pool", bnd, decPool),
				c08Pairs("int-x-wide", "boundary Integers x decimals around 2^32, 2^63, 2^64, 2^65, 3*2^64, 2^128", bnd, widePool),
				c08Pairs("wide-x-dec", "word-size decimals x Decimal pool", widePool, decPool),
				c08Pairs("dec-x-int", "Decimal pool x boundary Integers", decPool, bnd),
				c08Pairs("grid-x-smalldec", "every Integer of the grid x 10 short decimals (the promotion of each Integer to Decimal)", ints, smallDec),
				c08Pairs("smalldec-x-grid", "10 short decimals x every Integer of the grid", smallDec, ints),
				c08Pairs("fhir-x-sys", "FHIR integer/positiveInt/unsignedInt/decimal elements x (boundary Integers + Decimal pool)", fhirNums, func() []numv { return append(bnd(), decPool()...) }),
				c08Pairs("sys-x-fhir", "boundary Integers x FHIR elements", bnd, fhirNums),
			}
			un := append(append(append(intGrid(tier), decPool()...), widePool()...), fhirNums()...)
			subs = append(subs, core.Sub{Name: "unary", N: len(un), Note: "neg, abs, floor, ceiling, truncate, round(), round(0..5) on every grid/pool value", Run: func(i int, r *core.Rec) {
				c08Unary(r, un[i])
			}})
			// literal path for non-negative boundary integers
			var lits []numv
			for _, b := range lib.IntBoundary {
				if b >= 0 {
					lits = append(lits, intNum(b))
				}
			}
			subs = append(subs, core.Sub{Name: "literal-ints", N: len(lits), Note: "operands written as literals", Run: func(i int, r *core.Rec) {
				a := lits[i]
				for _, b := range lits {
					for _, op := range c08Ops {
						src := a.id + " " + op + " " + b.id
						res := lib.Run(src, nil, nil)
						r.Eval()
						w := c08Ref(op, a, b)
						r.Nontrivial(src, res.Class())
						r.State("lit|" + op + "|" + w.why)
						if d := c08Judge(res, w); d != "" {
							r.Fail(fmt.Sprintf("binop|%s|Integer,Integer|%s,%s|expect=%s|%s", op, a.class(), b.class(), w.why, d), core.W{"src": src, "got": res.String(), "want": wantStr(w)})
						}
					}
				}
			}})
			if tier == "thorough" || tier == "quick" { // depth-2 expressions in both tiers: 2 s
				sub := []numv{}
				for _, v := range []int64{0, 1, -1, 2, -2, 3, 7, 46340, 46341, -46341, 65536, math.MaxInt32, math.MinInt32, math.MaxInt32 - 1, math.MinInt32 + 1} {
					sub = append(sub, intNum(v))
				}
				for _, s := range []string{"0.0", "0.5", "-1.5", "2.5", "0.1", "3.14159", "2147483647.5", "0.000000000000000000000000000001"} {
					sub = append(sub, decNum(s))
				}
				subs = append(subs, core.Sub{Name: "depth2", N: len(sub) * len(sub), Note: "(a op1 b) op2 c over a 23-value sub-grid, all 36 operator pairs", Run: func(i int, r *core.Rec) {
					a, b := sub[i/len(sub)], sub[i%len(sub)]
					for _, c := range sub {
						for _, o1 := range c08Ops {
							w1 := c08Ref(o1, a, b)
							for _, o2 := range c08Ops {
								res := lib.Run("(%a "+o1+" %b) "+o2+" %c", nil, map[string]any{"a": a.v, "b": b.v, "c": c.v})
								r.Eval()
								var w c08Want
								if w1.empty {
									w = c08Want{empty: true, why: w1.why}
								} else {
									if w1.approx {
										continue // an inexact intermediate leaves no exact expectation
									}
									mid := numv{rat: w1.val, isInt: w1.intType}
									w = c08Ref(o2, mid, c)
								}
								r.State("depth2|" + o1 + "|" + o2 + "|" + w.why)
								if d := c08Judge(res, w); d != "" {
									r.Fail(fmt.Sprintf("depth2|%s,%s|expect=%s|%s", o1, o2, w.why, d), core.W{"a": a.id, "b": b.id, "c": c.id, "src": "(%a " + o1 + " %b) " + o2 + " %c", "got": res.String(), "want": wantStr(w)})
								}
							}
						}
					}
					r.NontrivialByConstruction(int64(len(sub) * 36))
				}})
			}
			return subs
		},
	})
}
