package checks

import (
	"errors"
	"fmt"
	"math"
	"math/big"
	"strings"
	"time"
	"unicode/utf8"
	"unsafe"

	dtpb "github.com/google/fhir/go/proto/google/fhir/proto/r4/core/datatypes_go_proto"
	"github.com/verily-src/fhirpath-go/fhirpath/system"
	"github.com/verily-src/fhirpath-go/fhirpath/verifh/core"
	"github.com/verily-src/fhirpath-go/fhirpath/verifh/lib"
	"github.com/verily-src/fhirpath-go/internal/fhir"
	"github.com/verily-src/fhirpath-go/internal/fhirconv"
	"github.com/verily-src/fhirpath-go/internal/narrow"
	"golang.org/x/exp/constraints"
	"google.golang.org/protobuf/proto"
)

// ---- C15: literals and value representations round-trip losslessly.

// source symbols of string literals: text in the source and the decoded text
// alt, when set, is a second acceptable decoding (a backslash before a character that is
// not an escape: the character has to stay intact, the backslash may be dropped or kept)
type litSym struct{ src, dec, class, alt string }

var c15Syms = []litSym{
	{src: "a", dec: "a", class: "plain"}, {src: "n", dec: "n", class: "plain"}, {src: "u", dec: "u", class: "plain"}, {src: "é", dec: "é", class: "nonascii"}, {src: " ", dec: " ", class: "plain"}, {src: `"`, dec: `"`, class: "plain"}, {src: "`", dec: "`", class: "plain"}, {src: "/", dec: "/", class: "plain"},
	{src: `\'`, dec: "'", class: "esc"}, {src: `\"`, dec: `"`, class: "esc"}, {src: "\\`", dec: "`", class: "esc"}, {src: `\\`, dec: `\`, class: "esc.backslash"}, {src: `\/`, dec: "/", class: "esc.slash"},
	{src: `\f`, dec: "\f", class: "esc"}, {src: `\n`, dec: "\n", class: "esc"}, {src: `\r`, dec: "\r", class: "esc"}, {src: `\t`, dec: "\t", class: "esc"},
	{src: "\\" + "u00e9", dec: "\u00e9", class: "esc.unicode"}, {src: "\\" + "u20ac", dec: "\u20ac", class: "esc.unicode"}, {src: "\\" + "u0041", dec: "A", class: "esc.unicode"},
	{src: "\\" + "u00E9", dec: "\u00e9", class: "esc.unicode.upper"}, {src: "\\" + "u20aC", dec: "\u20ac", class: "esc.unicode.upper"},
	{src: `\é`, dec: "é", class: "esc.unknown", alt: `\é`}, {src: `\q`, dec: "q", class: "esc.unknown", alt: `\q`},
}

func c15TemporalTexts() []struct{ kind, text, class string } {
	var out []struct{ kind, text, class string }
	add := func(kind, text, class string) {
		out = append(out, struct{ kind, text, class string }{kind, text, class})
	}
	dates := []string{"2020", "0001", "9999", "2020-01", "2020-12", "2020-13", "2020-00", "2020-02-28", "2020-02-29", "2020-02-30", "2021-02-28", "2021-02-29", "2020-04-30", "2020-04-31",
		"2020-12-31", "2020-12-32", "2020-01-00", "2020-01-15", "1066", "1650-03-04", "1677-09-20", "1677-09-22", "2262-04-11", "2262-04-12", "2300-06-07", "0100-01-01"}
	for _, d := range dates {
		add("Date", d, "date")
		add("DateTime", d+"T", "datetime.dateonly")
	}
	times := []string{"00", "10", "23", "24", "10:00", "10:59", "10:60", "10:30:00", "10:30:59", "10:30:60", "23:59:59", "24:00:00"}
	fracs := []string{"", ".0", ".25", ".250", ".2500", ".25000", ".123456", ".999", ".9999", ".045", ".007", ".000120", ".000001"}
	offs := []string{"", "Z", "+05:30", "-11:00", "+14:00", "-00:00", "+00:00", "-00:30", "+00:30", "-03:30", "-11:59"}
	for _, t := range times {
		for _, f := range fracs {
			if f != "" && strings.Count(t, ":") != 2 {
				continue
			}
			cls := fmt.Sprintf("p%d.frac%d", strings.Count(t, ":"), len(strings.TrimPrefix(f, ".")))
			add("Time", "T"+t+f, "time."+cls)
			for _, o := range offs {
				oc := "nooff"
				if o == "Z" {
					oc = "Z"
				} else if o != "" {
					oc = "off"
				}
				for _, d := range []string{"2020-01-15", "2020-02-29", "2021-12-31"} {
					add("DateTime", d+"T"+t+f+o, "datetime."+cls+"."+oc)
				}
			}
		}
	}
	return out
}

func fracAccepted(orig, got string) bool {
	if got == orig {
		return true
	}
	// an explicit cut to the millisecond (which toString also shows) is accepted, as is padding to 3 digits
	o := orig
	for len(o) < 3 {
		o += "0"
	}
	return got == o[:3]
}

// refEqualT: do two RefT denote the same value, precision and offset (with the fraction latitude)?
func refSameT(lit, got lib.RefT) string {
	if lit.Kind != got.Kind {
		return "kind"
	}
	if lit.Prec != got.Prec {
		return "precision"
	}
	if lit.Y != got.Y || lit.Mo != got.Mo || lit.D != got.D || lit.H != got.H || lit.Mi != got.Mi || lit.S != got.S {
		return "components"
	}
	if lit.Prec == 6 && !(lit.Frac == "" && (got.Frac == "" || strings.Trim(got.Frac, "0") == "")) && !fracAccepted(lit.Frac, got.Frac) {
		return "fraction"
	}
	if lit.HasOff != got.HasOff || lit.Off != got.Off {
		return "offset"
	}
	return ""
}

func showStr(v any) (string, bool) {
	switch x := v.(type) {
	case system.Date:
		return x.String(), true
	case system.DateTime:
		return x.String(), true
	case system.Time:
		return x.String(), true
	}
	return "", false
}

// ---- integer narrowing

func bigOf[T constraints.Integer](v T) *big.Int {
	var zero T
	if zero-1 < 0 {
		return big.NewInt(int64(v))
	}
	return new(big.Int).SetUint64(uint64(v))
}

func rangeOf[T constraints.Integer]() (*big.Int, *big.Int, string) {
	var zero T
	bits := uint(unsafe.Sizeof(zero) * 8)
	name := fmt.Sprintf("%T", zero)
	if zero-1 < 0 {
		hi := new(big.Int).Lsh(big.NewInt(1), bits-1)
		return new(big.Int).Neg(hi), new(big.Int).Sub(hi, big.NewInt(1)), name
	}
	hi := new(big.Int).Lsh(big.NewInt(1), bits)
	return big.NewInt(0), hi.Sub(hi, big.NewInt(1)), name
}

func narrowOne[To, From constraints.Integer](r *core.Rec, from From) {
	var got To
	var ok bool
	pi := core.Try(func() { got, ok = narrow.ToInteger[To](from) })
	r.Eval()
	lo, hi, toName := rangeOf[To]()
	_, _, fromName := rangeOf[From]()
	v := bigOf(from)
	fits := v.Cmp(lo) >= 0 && v.Cmp(hi) <= 0
	r.State(fmt.Sprintf("narrow|%s->%s|fits=%v", fromName, toName, fits))
	if pi != nil {
		r.Fail(fmt.Sprintf("narrow|%s->%s|%s", fromName, toName, pi.Key()), core.W{"value": v.String()})
		return
	}
	if ok != fits {
		r.Fail(fmt.Sprintf("narrow|%s->%s|ok=%v|representable=%v", fromName, toName, ok, fits), core.W{"value": v.String(), "from": fromName, "to": toName})
	} else if ok && bigOf(got).Cmp(v) != 0 {
		r.Fail(fmt.Sprintf("narrow|%s->%s|wrong-value", fromName, toName), core.W{"value": v.String(), "got": bigOf(got).String()})
	}
}

func narrowAllTo[From constraints.Integer](r *core.Rec, from From) {
	narrowOne[int, From](r, from)
	narrowOne[int8, From](r, from)
	narrowOne[int16, From](r, from)
	narrowOne[int32, From](r, from)
	narrowOne[int64, From](r, from)
	narrowOne[uint, From](r, from)
	narrowOne[uint8, From](r, from)
	narrowOne[uint16, From](r, from)
	narrowOne[uint32, From](r, from)
	narrowOne[uint64, From](r, from)
	narrowOne[uintptr, From](r, from)
}

// boundary values for wide sources: min/max of every narrower type +-1
func wideBoundaries() []*big.Int {
	set := map[string]*big.Int{}
	add := func(b *big.Int) {
		for _, d := range []int64{-1, 0, 1} {
			v := new(big.Int).Add(b, big.NewInt(d))
			set[v.String()] = v
		}
	}
	for _, bits := range []uint{7, 8, 15, 16, 31, 32, 63, 64} {
		p := new(big.Int).Lsh(big.NewInt(1), bits)
		add(p)
		add(new(big.Int).Neg(p))
	}
	add(big.NewInt(0))
	var out []*big.Int
	for _, v := range set {
		out = append(out, v)
	}
	return out
}

func fhirConvOne[To constraints.Integer](r *core.Rec, kind string, v int64) {
	lo, hi, toName := rangeOf[To]()
	fits := big.NewInt(v).Cmp(lo) >= 0 && big.NewInt(v).Cmp(hi) <= 0
	var got To
	var err error
	pi := core.Try(func() {
		switch kind {
		case "integer":
			got, err = fhirconv.ToInteger[To](fhir.Integer(int32(v)))
		case "unsignedInt":
			got, err = fhirconv.ToInteger[To](fhir.UnsignedInt(uint32(v)))
		case "positiveInt":
			got, err = fhirconv.ToInteger[To](fhir.PositiveInt(uint32(v)))
		}
	})
	r.Eval()
	r.State(fmt.Sprintf("fhirconv|%s->%s|fits=%v", kind, toName, fits))
	if pi != nil {
		r.Fail(fmt.Sprintf("fhirconv.ToInteger|%s->%s|%s", kind, toName, pi.Key()), core.W{"value": v})
		return
	}
	if (err == nil) != fits {
		r.Fail(fmt.Sprintf("fhirconv.ToInteger|%s->%s|err=%v|representable=%v", kind, toName, err != nil, fits), core.W{"value": v})
	} else if err == nil && bigOf(got).Cmp(big.NewInt(v)) != 0 {
		r.Fail(fmt.Sprintf("fhirconv.ToInteger|%s->%s|wrong-value", kind, toName), core.W{"value": v, "got": bigOf(got).String()})
	}
}

func init() {
	core.Register(&core.Check{
		ID:          "C15",
		Rule:        "six finite sub-spaces enumerated completely: string literals as all sequences of length 0..3/4 over 24 source symbols (every escape, quotes, backslash, non-ASCII, a backslash before a non-escape ASCII and non-ASCII character) against an own escape decoder; temporal literal texts (precision x fraction digits x offset form x boundary fields, valid and calendar-invalid); number/quantity literals; System<->FHIR primitive conversions for every precision enum x time-zone form; FHIR primitive parse/format helpers against google/fhir jsonformat, also with time.Local set to +09:00 and -03:30; integer narrowing for all 11x11 Go integer type pairs (every 8/16-bit value, boundary 32/64-bit values); distinct by construction",
		Assumptions: []string{"a fraction finer than milliseconds may be cut explicitly (shown by toString) but not changed", "google/fhir jsonformat is the reference FHIR JSON rendering"},
		Subs: func(tier string) []core.Sub {
			maxLen := 4
			if tier == "thorough" {
				maxLen = 5
			}
			// literal sequences, outer index = first two symbols (or shorter), inner = the rest
			var seqs [][]int
			var gen func(cur []int, n int)
			gen = func(cur []int, n int) {
				if len(cur) == n {
					seqs = append(seqs, append([]int{}, cur...))
					return
				}
				for i := range c15Syms {
					gen(append(cur, i), n)
				}
			}
			for n := 0; n <= 2 && n <= maxLen; n++ {
				gen(nil, n)
			}
			temporals := c15TemporalTexts()
			elems := append(append([]lib.Val{}, lib.ElementPool()...), c15ExtraElements()...)
			return []core.Sub{
				{Name: "string-literals", N: len(seqs), Note: fmt.Sprintf("prefix of <=2 symbols x all continuations up to length %d over 24 symbols", maxLen), Run: func(i int, r *core.Rec) {
					prefix := seqs[i]
					// which symbols are decoded wrongly on their own (used to key multi-symbol failures by their cause)
					symFails := make([]bool, len(c15Syms))
					for k, sy := range c15Syms {
						one := lib.Run("'"+sy.src+"'", nil, nil)
						symFails[k] = !(one.OK() && len(one.Coll) == 1 && (one.Coll[0] == system.String(sy.dec) || sy.alt != "" && one.Coll[0] == system.String(sy.alt)))
					}
					var tails [][]int
					tails = append(tails, nil)
					if len(prefix) == 2 {
						cur := [][]int{nil}
						for n := 1; n <= maxLen-2; n++ {
							var nxt [][]int
							for _, c := range cur {
								for k := range c15Syms {
									nxt = append(nxt, append(append([]int{}, c...), k))
								}
							}
							tails = append(tails, nxt...)
							cur = nxt
						}
					}
					for _, tl := range tails {
						full := append(append([]int{}, prefix...), tl...)
						var src, dec, decAlt strings.Builder
						classes := map[string]bool{}
						anyAlone := false
						for _, k := range full {
							src.WriteString(c15Syms[k].src)
							dec.WriteString(c15Syms[k].dec)
							if c15Syms[k].alt != "" {
								decAlt.WriteString(c15Syms[k].alt)
							} else {
								decAlt.WriteString(c15Syms[k].dec)
							}
							if symFails[k] {
								anyAlone = true
							}
						}
						for _, k := range full {
							// key on the symbols that fail on their own; if none does, on all classes present (a combination-only defect)
							if symFails[k] || !anyAlone {
								classes[c15Syms[k].class] = true
							}
						}
						lit := "'" + src.String() + "'"
						res := lib.Run(lit, nil, nil)
						r.Eval()
						ok := res.OK() && len(res.Coll) == 1 && (res.Coll[0] == system.String(dec.String()) || res.Coll[0] == system.String(decAlt.String()))
						if r.WantSample() {
							r.Sample(core.W{"literal": lit, "got": res.String()})
						}
						if !ok {
							// key: which symbol classes occur (sorted), so distinct escape defects get distinct keys
							var cs []string
							for _, c := range []string{"esc", "esc.backslash", "esc.slash", "esc.unicode", "esc.unicode.upper", "esc.unknown", "nonascii", "plain"} {
								if classes[c] {
									cs = append(cs, c)
								}
							}
							d := res.Class()
							if res.Panic != nil {
								d = res.Panic.Key()
							} else if res.OK() && len(res.Coll) == 1 {
								if s, isS := res.Coll[0].(system.String); isS && !utf8.ValidString(string(s)) {
									d = "invalid-utf8"
								} else {
									d = "value!=decoded"
								}
							}
							if !anyAlone {
								cs = append([]string{"combination-only"}, cs...)
							}
							r.Fail("string-literal|"+strings.Join(cs, "+")+"|"+d, core.W{"literal": lit, "got": res.String(), "want": dec.String()})
						}
					}
					r.NontrivialByConstruction(int64(len(tails)))
					r.State(fmt.Sprintf("strlit|len>=%d", len(prefix)))
				}},
				{Name: "temporal-literals", N: len(temporals), Note: "Date/DateTime/Time literal texts: valid ones denote the reference value and round-trip through toString; calendar-invalid ones are Compile errors", Run: func(i int, r *core.Rec) {
					t := temporals[i]
					ref, valid := lib.ParseRefT(t.kind, t.text)
					lit := "@" + t.text
					res := lib.Run(lit, nil, nil)
					r.Eval()
					r.State(fmt.Sprintf("temporal|%s|valid=%v", t.class, valid))
					r.Nontrivial(lit, res.Class())
					r.Sample(core.W{"literal": lit, "valid": valid, "got": res.String()})
					if res.Panic != nil {
						r.Fail("temporal-literal|"+t.class+"|"+res.Panic.Key(), core.W{"literal": lit, "got": res.String()})
						return
					}
					if !valid {
						if res.CompileErr == nil {
							r.Fail("temporal-literal|"+t.class+"|calendar-invalid-accepted", core.W{"literal": lit, "got": res.String(), "want": "Compile error"})
						}
						return
					}
					if !res.OK() || len(res.Coll) != 1 {
						r.Fail("temporal-literal|"+t.class+"|valid-rejected:"+res.Class(), core.W{"literal": lit, "got": res.String()})
						return
					}
					str, ok := showStr(res.Coll[0])
					if !ok || c13GoKind(res.Coll[0]) != t.kind {
						r.Fail("temporal-literal|"+t.class+"|wrong-type:"+c13GoKind(res.Coll[0]), core.W{"literal": lit, "got": res.String()})
						return
					}
					pt := str
					if t.kind == "Time" {
						pt = "T" + str
					}
					got, okp := lib.ParseRefT(t.kind, pt)
					if !okp {
						r.Fail("temporal-literal|"+t.class+"|string-form-unparseable", core.W{"literal": lit, "string_form": str})
						return
					}
					if d := refSameT(ref, got); d != "" {
						r.Fail("temporal-literal|"+t.class+"|denotes-other-value:"+d, core.W{"literal": lit, "string_form": str})
					}
					// the value survives its element form: System -> proto -> System keeps every field it printed (an offset-less
					// value comes back anchored at UTC - the element always names a zone -, the fields are the same); hour and minute
					// precision have no element form
					if ref.Prec != 4 && ref.Prec != 5 {
						var back string
						var okb bool
						pi := core.Try(func() {
							switch v := res.Coll[0].(type) {
							case system.Date:
								if d, err := system.DateFromProto(v.ToProtoDate()); err == nil {
									back, okb = d.String(), true
								}
							case system.DateTime:
								if d, err := system.DateTimeFromProto(v.ToProtoDateTime()); err == nil {
									back, okb = d.String(), true
								}
							case system.Time:
								back, okb = system.TimeFromProto(v.ToProtoTime()).String(), true
							}
						})
						r.Eval()
						strip := func(x string) string {
							if i := strings.Index(x, "T"); i >= 0 {
								rest := x[i:]
								if j := strings.LastIndexAny(rest, "+-Z"); j > 0 {
									return x[:i+j]
								}
							}
							return x
						}
						w := core.W{"literal": lit, "string_form": str, "after_element_round_trip": back}
						switch {
						case pi != nil:
							r.Fail("temporal-literal|"+t.class+"|to-element-and-back|"+pi.Key(), w)
						case !okb:
							r.Fail("temporal-literal|"+t.class+"|to-element-and-back|rejected", w)
						case ref.HasOff && !sameOffsetText(back, str):
							r.Fail("temporal-literal|"+t.class+"|to-element-and-back|changes-the-value", w)
						case !ref.HasOff && strip(back) != strip(str):
							r.Fail("temporal-literal|"+t.class+"|to-element-and-back|changes-the-fields", w)
						}
					}
					// canonical string form re-parses (by the implementation) to an equal value
					rt := lib.Run(lit+".toString().to"+t.kind+"() = "+lit, nil, nil)
					r.Eval()
					if !(rt.OK() && len(rt.Coll) == 1 && rt.Coll[0] == system.Boolean(true)) {
						r.Fail("temporal-literal|"+t.class+"|string-form-does-not-reparse-equal:"+rt.Class(), core.W{"src": lit + ".toString().to" + t.kind + "() = " + lit, "got": rt.String(), "string_form": str})
					}
				}},
				{Name: "number-quantity-literals", N: 1, Note: "decimal literals: every split of 2..31 digits into integer and fraction part x 4 digit patterns (about 1400 literals, each also as quantity and against its last-digit neighbour), leading/trailing zeros, integer literals at the int32 edges, every quantity unit keyword and quoted UCUM units", Run: func(_ int, r *core.Rec) {
					decs := []string{"0.0", "0.10", "00.5", "1.000", "007.250", "123456789012345678901234567890.5", "0.000000000000000000000000000001", "1.50", "100.00", "3.14159265358979323846264338327"}
					// every split of 2..31 significant digits into integer and fraction part, in four digit patterns
					// (nines, the decimal digits in order, 2^53+1 padded, alternating 1/0): the literal denotes exactly that number
					pat := func(kind, n int) string {
						var b strings.Builder
						for i := 0; i < n; i++ {
							switch kind {
							case 0:
								b.WriteByte('9')
							case 1:
								b.WriteByte("1234567890"[i%10])
							case 2:
								b.WriteByte("9007199254740993"[i%16])
							default:
								b.WriteByte("10"[i%2])
							}
						}
						return b.String()
					}
					seenDec := map[string]bool{}
					for _, d := range decs {
						seenDec[d] = true
					}
					for ip := 1; ip <= 20; ip++ {
						for fp := 1; fp <= 20 && ip+fp <= 31; fp++ {
							for kind := 0; kind < 4; kind++ {
								all := pat(kind, ip+fp)
								d := all[:ip] + "." + all[ip:]
								if !seenDec[d] {
									seenDec[d] = true
									decs = append(decs, d)
								}
							}
						}
					}
					for _, d := range decs {
						// a neighbour differing in the last digit only is a different number
						last := d[len(d)-1]
						nb := d[:len(d)-1] + string('0'+(last-'0'+1)%10)
						ne := lib.Run(d+" = "+nb, nil, nil)
						r.Eval()
						if !(ne.OK() && len(ne.Coll) == 1 && ne.Coll[0] == system.Boolean(false)) {
							r.Fail("decimal-literal|neighbour-in-the-last-digit-compares-equal|"+decClass(d), core.W{"src": d + " = " + nb, "got": ne.String()})
						}
						qs := lib.Run("("+d+" 'mg').toString()", nil, nil)
						r.Eval()
						if qs.OK() && len(qs.Coll) == 1 {
							if str, isS := qs.Coll[0].(system.String); isS {
								num := strings.SplitN(string(str), " ", 2)[0]
								g, okn := new(big.Rat).SetString(num)
								w, _ := new(big.Rat).SetString(d)
								if !okn || g.Cmp(w) != 0 {
									r.Fail("quantity-literal|value!=denoted|"+decClass(d), core.W{"literal": d + " 'mg'", "toString": string(str)})
								}
							}
						}
						res := lib.Run(d, nil, nil)
						r.Eval()
						r.Nontrivial(d, res.Class())
						want, _ := new(big.Rat).SetString(d)
						ok := false
						if res.OK() && len(res.Coll) == 1 {
							if g, isInt, okn := numOf(res.Coll[0]); okn && !isInt && g.Cmp(want) == 0 {
								ok = true
							}
						}
						if !ok {
							r.Fail("decimal-literal|"+decClass(d), core.W{"literal": d, "got": res.String()})
						}
						rt := lib.Run(d+".toString().toDecimal() = "+d, nil, nil)
						r.Eval()
						if !(rt.OK() && len(rt.Coll) == 1 && rt.Coll[0] == system.Boolean(true)) {
							r.Fail("decimal-literal|string-form-does-not-reparse-equal|"+decClass(d), core.W{"literal": d, "got": rt.String()})
						}
					}
					for _, c := range []struct {
						lit   string
						valid bool
					}{{"0", true}, {"1", true}, {"007", true}, {"2147483647", true}, {"2147483646", true}, {"2147483648", false}, {"4294967296", false}, {"99999999999999999999", false},
						// leading zeros do not make a number longer: the literal denotes the same Integer however many there are
						{"000000000042", true}, {"0000000000000000000000000000002147483647", true}, {"00000000000", true}, {"000000000002147483648", false}} {
						res := lib.Run(c.lit, nil, nil)
						r.Eval()
						r.Nontrivial(c.lit, res.Class())
						if res.Panic != nil {
							r.Fail("integer-literal|"+res.Panic.Key(), core.W{"literal": c.lit})
							continue
						}
						if c.valid {
							want, _ := new(big.Rat).SetString(c.lit)
							ok := res.OK() && len(res.Coll) == 1
							if ok {
								g, isInt, okn := numOf(res.Coll[0])
								ok = okn && isInt && g.Cmp(want) == 0
							}
							if !ok {
								r.Fail("integer-literal|valid|value!=denoted", core.W{"literal": c.lit, "got": res.String()})
							}
						} else if res.OK() && len(res.Coll) == 1 {
							// out of the Integer range: must not silently denote another number
							want, _ := new(big.Rat).SetString(c.lit)
							if g, _, okn := numOf(res.Coll[0]); !okn || g.Cmp(want) != 0 {
								r.Fail("integer-literal|out-of-range|wrapped", core.W{"literal": c.lit, "got": res.String()})
							}
						}
					}
					units := []string{"year", "years", "month", "months", "week", "weeks", "day", "days", "hour", "hours", "minute", "minutes", "second", "seconds", "millisecond", "milliseconds", "'mg'", "'kg/m2'", "'1'", "'a'", "'wk'", "'[in_i]'"}
					for _, u := range units {
						// the value of a quantity is a Decimal: a whole number beyond the Integer range is as good as any other
						for _, n := range []string{"5", "1.50", "0", "2147483647", "2147483648", "3000000000", "123456789012345678901234567890", "007"} {
							lit := n + " " + u
							res := lib.Run(lit, nil, nil)
							r.Eval()
							r.Nontrivial(lit, res.Class())
							want := n + " " + strings.Trim(u, "'")
							ok := false
							if res.OK() && len(res.Coll) == 1 {
								if q, isQ := res.Coll[0].(system.Quantity); isQ {
									parts := strings.SplitN(q.String(), " ", 2)
									gv, okv := new(big.Rat).SetString(parts[0])
									wv, _ := new(big.Rat).SetString(n)
									ok = okv && gv.Cmp(wv) == 0 && len(parts) == 2 && parts[1] == strings.Trim(u, "'")
								}
							}
							if !ok {
								uc := "calendar"
								if strings.HasPrefix(u, "'") {
									uc = "ucum"
								}
								r.Fail("quantity-literal|"+uc+"|value!=denoted", core.W{"literal": lit, "got": res.String(), "want": want})
							}
						}
					}
				}},
				{Name: "system-fhir-conversions", N: len(elems), Note: "system.From / *FromProto / ToProto* on every element of the pool: value, precision and offset preserved", Run: func(i int, r *core.Rec) {
					e := elems[i]
					c15ProtoRoundTrip(r, e)
				}},
				{Name: "proto-temporal-grid", N: len(temporals), Note: "valid full-precision texts -> proto (own builder) -> System -> proto, and fhir.Parse*/fhirconv.*ToString against jsonformat", Run: func(i int, r *core.Rec) {
					c15TemporalProto(r, temporals[i].kind, temporals[i].text, temporals[i].class)
				}},
				{Name: "parser-streaks", N: len(c15StreakKinds), Note: "the FHIR primitive parsers are functions of their text: after 24 consecutive parses of one text (each precision and zone form in turn), every probe text of the kind (all precisions, fractions of 3 and 6 digits - the forms a FHIR JSON renderer writes -, Z / + / - offsets) still parses to the element the harness builds itself", Run: func(i int, r *core.Rec) {
					k := c15StreakKinds[i]
					for _, streak := range k.texts {
						for n := 0; n < 24; n++ {
							core.Try(func() { k.parse(streak) })
							r.Eval()
						}
						for _, probe := range k.texts {
							var got proto.Message
							var err error
							pi := core.Try(func() { got, err = k.parse(probe) })
							r.Eval()
							r.State("parser-streak|" + k.name)
							r.Nontrivial(k.name, streak, probe)
							want := k.build(probe)
							w := core.W{"parser": k.name, "after_24_parses_of": streak, "text": probe, "parsed": fmt.Sprint(got), "own_builder": fmt.Sprint(want)}
							if pi != nil {
								r.Fail("parser-streak|"+k.name+"|"+pi.Key(), w)
							} else if err != nil {
								w["err"] = err.Error()
								r.Fail("parser-streak|"+k.name+"|valid-text-rejected", w)
							} else if !sameTemporalProto(got, want) {
								r.Fail("parser-streak|"+k.name+"|parses-to-another-element-after-a-streak", w)
							}
						}
					}
				}},
				{Name: "narrow-8-16bit", N: 4, Note: "every value of int8, uint8, int16, uint16 to all 11 integer types", Run: func(i int, r *core.Rec) {
					switch i {
					case 0:
						for v := math.MinInt8; v <= math.MaxInt8; v++ {
							narrowAllTo(r, int8(v))
						}
					case 1:
						for v := 0; v <= math.MaxUint8; v++ {
							narrowAllTo(r, uint8(v))
						}
					case 2:
						for v := math.MinInt16; v <= math.MaxInt16; v++ {
							narrowAllTo(r, int16(v))
						}
					case 3:
						for v := 0; v <= math.MaxUint16; v++ {
							narrowAllTo(r, uint16(v))
						}
					}
					r.NontrivialByConstruction(map[int]int64{0: 256 * 11, 1: 256 * 11, 2: 65536 * 11, 3: 65536 * 11}[i])
					r.Sample(core.W{"source_type": []string{"int8", "uint8", "int16", "uint16"}[i], "targets": 11})
				}},
				{Name: "narrow-wide", N: 1, Note: "boundary values (min/max of every narrower type +-1) of int32,int64,int,uint32,uint64,uint,uintptr to all 11 types; fhirconv.ToInteger for the 3 FHIR integer kinds", Run: func(_ int, r *core.Rec) {
					n := int64(0)
					for _, b := range wideBoundaries() {
						if b.IsInt64() {
							v := b.Int64()
							narrowAllTo(r, v)
							narrowAllTo(r, int(v))
							n += 22
							if v >= math.MinInt32 && v <= math.MaxInt32 {
								narrowAllTo(r, int32(v))
								n += 11
								c15FhirConvAll(r, "integer", v)
							}
						}
						if b.Sign() >= 0 && b.IsUint64() {
							u := b.Uint64()
							narrowAllTo(r, u)
							narrowAllTo(r, uint(u))
							narrowAllTo(r, uintptr(u))
							n += 33
							if u <= math.MaxUint32 {
								narrowAllTo(r, uint32(u))
								n += 11
								c15FhirConvAll(r, "unsignedInt", int64(u))
								c15FhirConvAll(r, "positiveInt", int64(u))
							}
						}
					}
					r.NontrivialByConstruction(n)
				}},
			}
		},
	})
}

func c15FhirConvAll(r *core.Rec, kind string, v int64) {
	fhirConvOne[int](r, kind, v)
	fhirConvOne[int8](r, kind, v)
	fhirConvOne[int16](r, kind, v)
	fhirConvOne[int32](r, kind, v)
	fhirConvOne[int64](r, kind, v)
	fhirConvOne[uint](r, kind, v)
	fhirConvOne[uint8](r, kind, v)
	fhirConvOne[uint16](r, kind, v)
	fhirConvOne[uint32](r, kind, v)
	fhirConvOne[uint64](r, kind, v)
	switch kind {
	case "integer":
		c15Named(r, kind, v, fhir.Integer(int32(v)))
	case "unsignedInt":
		c15Named(r, kind, v, fhir.UnsignedInt(uint32(v)))
	case "positiveInt":
		c15Named(r, kind, v, fhir.PositiveInt(uint32(v)))
	}
}

// c15Named: the named wrappers (ToInt8 ... ToUint) and MustConvertToInteger agree with ToInteger[T] on the same element
func c15Named[F interface {
	*dtpb.Integer | *dtpb.UnsignedInt | *dtpb.PositiveInt
}](r *core.Rec, kind string, v int64, e F) {
	type outcome struct {
		val string
		ok  bool
	}
	cmp := func(name string, named func() (string, error), generic func() (string, error), must func() string) {
		var a, b outcome
		var mustVal string
		var mustPanicked bool
		pi := core.Try(func() {
			x, err := named()
			a = outcome{x, err == nil}
			y, err2 := generic()
			b = outcome{y, err2 == nil}
			if err != nil && !errors.Is(err, fhirconv.ErrIntegerTruncated) {
				r.Fail("fhirconv.named|"+kind+"->"+name+"|error-is-not-ErrIntegerTruncated", core.W{"value": v, "err": err.Error()})
			}
		})
		if mp := core.Try(func() { mustVal = must() }); mp != nil {
			mustPanicked = true
		}
		r.Eval()
		r.State("fhirconv.named|" + kind + "->" + name)
		if pi != nil {
			r.Fail("fhirconv.named|"+kind+"->"+name+"|"+pi.Key(), core.W{"value": v})
			return
		}
		if a != b {
			r.Fail("fhirconv.named|"+kind+"->"+name+"|differs-from-ToInteger", core.W{"value": v, "named": fmt.Sprint(a), "ToInteger": fmt.Sprint(b)})
		}
		if mustPanicked == b.ok || b.ok && mustVal != b.val {
			r.Fail("fhirconv.Must|"+kind+"->"+name+"|panics-iff-error-violated", core.W{"value": v, "panicked": mustPanicked, "ToInteger": fmt.Sprint(b), "must_value": mustVal})
		}
	}
	s := func(x any, err error) (string, error) { return fmt.Sprint(x), err }
	cmp("int8", func() (string, error) { return s(fhirconv.ToInt8(e)) }, func() (string, error) { return s(fhirconv.ToInteger[int8](e)) }, func() string { return fmt.Sprint(fhirconv.MustConvertToInteger[int8](e)) })
	cmp("int16", func() (string, error) { return s(fhirconv.ToInt16(e)) }, func() (string, error) { return s(fhirconv.ToInteger[int16](e)) }, func() string { return fmt.Sprint(fhirconv.MustConvertToInteger[int16](e)) })
	cmp("int32", func() (string, error) { return s(fhirconv.ToInt32(e)) }, func() (string, error) { return s(fhirconv.ToInteger[int32](e)) }, func() string { return fmt.Sprint(fhirconv.MustConvertToInteger[int32](e)) })
	cmp("int64", func() (string, error) { return s(fhirconv.ToInt64(e)) }, func() (string, error) { return s(fhirconv.ToInteger[int64](e)) }, func() string { return fmt.Sprint(fhirconv.MustConvertToInteger[int64](e)) })
	cmp("int", func() (string, error) { return s(fhirconv.ToInt(e)) }, func() (string, error) { return s(fhirconv.ToInteger[int](e)) }, func() string { return fmt.Sprint(fhirconv.MustConvertToInteger[int](e)) })
	cmp("uint8", func() (string, error) { return s(fhirconv.ToUint8(e)) }, func() (string, error) { return s(fhirconv.ToInteger[uint8](e)) }, func() string { return fmt.Sprint(fhirconv.MustConvertToInteger[uint8](e)) })
	cmp("uint16", func() (string, error) { return s(fhirconv.ToUint16(e)) }, func() (string, error) { return s(fhirconv.ToInteger[uint16](e)) }, func() string { return fmt.Sprint(fhirconv.MustConvertToInteger[uint16](e)) })
	cmp("uint32", func() (string, error) { return s(fhirconv.ToUint32(e)) }, func() (string, error) { return s(fhirconv.ToInteger[uint32](e)) }, func() string { return fmt.Sprint(fhirconv.MustConvertToInteger[uint32](e)) })
	cmp("uint64", func() (string, error) { return s(fhirconv.ToUint64(e)) }, func() (string, error) { return s(fhirconv.ToInteger[uint64](e)) }, func() string { return fmt.Sprint(fhirconv.MustConvertToInteger[uint64](e)) })
	cmp("uint", func() (string, error) { return s(fhirconv.ToUint(e)) }, func() (string, error) { return s(fhirconv.ToInteger[uint](e)) }, func() string { return fmt.Sprint(fhirconv.MustConvertToInteger[uint](e)) })
}

func decClass(d string) string {
	c := "dec"
	if len(d) > 18 {
		c += ".long"
	}
	if strings.HasPrefix(d, "0") && !strings.HasPrefix(d, "0.") {
		c += ".leading0"
	}
	if strings.HasSuffix(d, "0") {
		c += ".trailing0"
	}
	return c
}

// c15ExtraElements: date elements that carry a time zone (the midnight of the date in that zone), and
// microsecond instants / dateTimes; the System value has to denote the same calendar date / millisecond.
func c15ExtraElements() []lib.Val {
	var out []lib.Val
	mk := func(id, kind, class, rkind, text string, v any) {
		t, ok := lib.ParseRefT(rkind, text)
		if !ok {
			panic("c15 extra element " + text)
		}
		out = append(out, lib.Val{ID: id, V: v, Kind: "fhir." + kind, Class: class, RKind: "temporal", RT: t})
	}
	for _, z := range []struct {
		name string
		secs int
	}{{"+02:00", 7200}, {"+14:00", 14 * 3600}, {"+00:30", 1800}, {"-05:00", -5 * 3600}, {"-11:30", -(11*3600 + 1800)}} {
		loc := time.FixedZone("", z.secs)
		for _, p := range []struct {
			text    string
			prec    dtpb.Date_Precision
			y, m, d int
		}{{"2020-01-01", dtpb.Date_DAY, 2020, 1, 1}, {"2020-03", dtpb.Date_MONTH, 2020, 3, 1}, {"2020", dtpb.Date_YEAR, 2020, 1, 1}} {
			us := time.Date(p.y, time.Month(p.m), p.d, 0, 0, 0, 0, loc).UnixMicro()
			mk("f.date."+p.text+z.name, "date", "fhir.date.tz", "Date", p.text, &dtpb.Date{ValueUs: us, Timezone: z.name, Precision: p.prec})
			var dp dtpb.DateTime_Precision
			switch p.prec {
			case dtpb.Date_DAY:
				dp = dtpb.DateTime_DAY
			case dtpb.Date_MONTH:
				dp = dtpb.DateTime_MONTH
			default:
				dp = dtpb.DateTime_YEAR
			}
			mk("f.dt."+p.text+z.name, "dateTime", "fhir.datetime.partial.tz", "DateTime", p.text+"T", &dtpb.DateTime{ValueUs: us, Timezone: z.name, Precision: dp})
		}
	}
	mk("f.instant.us", "instant", "fhir.instant.us", "DateTime", "2019-01-02T01:02:03.123Z", lib.ProtoInstant("2019-01-02T01:02:03.123456Z"))
	mk("f.instant.us.off", "instant", "fhir.instant.us", "DateTime", "2019-12-31T23:59:59.999-11:00", lib.ProtoInstant("2019-12-31T23:59:59.999999-11:00"))
	mk("f.dt.us", "dateTime", "fhir.datetime.us", "DateTime", "2019-01-02T01:02:03.000+05:30", lib.ProtoDateTime("2019-01-02T01:02:03.000120+05:30"))
	return out
}

// c15ProtoRoundTrip: system.From(element) denotes the element's value; System -> proto -> System is the identity.
func c15ProtoRoundTrip(r *core.Rec, e lib.Val) {
	// the repository's renderers and jsonformat agree on the element as given (whatever zone it was read in)
	if m, ok := e.V.(proto.Message); ok {
		c15RenderAgrees(r, "element|"+e.Kind+"|"+e.Class, m, core.W{"element": e.ID})
		r.Eval()
	}
	msg, ok := e.V.(proto.Message)
	if !ok || e.RKind == "complex" {
		return
	}
	var sv system.Any
	var err error
	pi := core.Try(func() { sv, err = system.From(msg) })
	r.Eval()
	r.State("from|" + e.Kind)
	r.Nontrivial(e.ID)
	r.Sample(core.W{"element": e.ID, "system_value": lib.Show(sv)})
	if pi != nil {
		r.Fail("system.From|"+e.Kind+"|"+pi.Key(), core.W{"element": e.ID})
		return
	}
	if err != nil {
		r.Fail("system.From|"+e.Kind+"|error", core.W{"element": e.ID, "err": err.Error()})
		return
	}
	bad := ""
	switch e.RKind {
	case "bool":
		if sv != system.Boolean(e.RBool) {
			bad = "value"
		}
	case "num":
		g, _, okn := numOf(sv)
		if !okn || g.Cmp(e.RNum) != 0 {
			bad = "value"
		}
	case "str":
		if sv != system.String(e.RStr) {
			bad = "value"
		}
	case "temporal":
		str, oks := showStr(sv)
		if !oks {
			bad = "type"
			break
		}
		if e.RT.Kind == "Time" {
			str = "T" + str
		}
		// the value is the value it prints: re-parsing its own string gives an equal value (nothing hidden below the layout)
		var reparsed system.Any
		var perr error
		switch e.RT.Kind {
		case "Date":
			reparsed, perr = system.ParseDate(strings.TrimPrefix(str, "@"))
		case "DateTime":
			reparsed, perr = system.ParseDateTime(str)
		case "Time":
			reparsed, perr = system.ParseTime(strings.TrimPrefix(str, "T"))
		}
		if perr == nil && reparsed != nil {
			if eq, okc := sv.(interface {
				TryEqual(system.Any) (bool, bool)
			}); okc {
				if same, def := eq.TryEqual(reparsed); !(same && def) {
					r.Fail("system.From|"+e.Kind+"|"+e.Class+"|value-is-not-equal-to-what-it-prints", core.W{"element": e.ID, "prints": str})
				}
			}
		}
		got, okp := lib.ParseRefT(e.RT.Kind, str)
		if !okp {
			bad = "string-form-unparseable:" + str
		} else if d := refSameT(e.RT, got); d != "" {
			// FHIR date/dateTime without offset are taken at UTC by the proto; offset "Z" <-> "+00:00" equivalence is by minutes
			if !(d == "offset" && !e.RT.HasOff && got.Off == 0) {
				bad = d
			}
		}
	case "qty":
		q, isQ := sv.(system.Quantity)
		if !isQ {
			bad = "type"
		} else {
			parts := strings.SplitN(q.String(), " ", 2)
			gv, okv := new(big.Rat).SetString(parts[0])
			if !okv || gv.Cmp(e.RNum) != 0 || len(parts) != 2 || parts[1] != e.RStr {
				bad = "value"
			}
		}
	}
	if bad != "" {
		r.Fail("system.From|"+e.Kind+"|"+e.Class+"|"+bad, core.W{"element": e.ID, "got": lib.Show(sv)})
	}
	// System -> proto -> System
	var back proto.Message
	pi = core.Try(func() {
		switch x := sv.(type) {
		case system.Date:
			back = x.ToProtoDate()
		case system.DateTime:
			back = x.ToProtoDateTime()
		case system.Time:
			back = x.ToProtoTime()
		case system.Decimal:
			back = x.ToProtoDecimal()
		case system.Integer:
			back = x.ToProtoInteger()
		case system.Quantity:
			back = x.ToProtoQuantity()
		}
	})
	r.Eval()
	if pi != nil {
		r.Fail("ToProto|"+e.Kind+"|"+pi.Key(), core.W{"element": e.ID})
		return
	}
	if back == nil {
		return
	}
	c15RenderAgrees(r, "ToProto|"+e.Kind+"|"+e.Class, back, core.W{"element": e.ID, "system": lib.Show(sv)})
	var sv2 system.Any
	pi = core.Try(func() { sv2, err = system.From(back) })
	if pi != nil || err != nil {
		r.Fail("ToProto|"+e.Kind+"|result-not-convertible-back", core.W{"element": e.ID})
		return
	}
	same := lib.Show(sv) == lib.Show(sv2)
	if dq, isQ := sv.(system.Quantity); isQ {
		// ToProtoQuantity keeps the unit in Quantity.unit; compare value and unit text
		q2 := back.(*dtpb.Quantity)
		gv, okv := new(big.Rat).SetString(q2.GetValue().GetValue())
		parts := strings.SplitN(dq.String(), " ", 2)
		wv, _ := new(big.Rat).SetString(parts[0])
		same = okv && gv.Cmp(wv) == 0 && q2.GetUnit().GetValue() == e.RStr
	}
	if d1, isD := sv.(system.Decimal); isD {
		g, okv := new(big.Rat).SetString(back.(*dtpb.Decimal).GetValue())
		w, _ := new(big.Rat).SetString(d1.String())
		same = okv && g.Cmp(w) == 0
	}
	if !same {
		r.Fail("ToProto|"+e.Kind+"|"+e.Class+"|round-trip-changes-value", core.W{"element": e.ID, "system": lib.Show(sv), "after_round_trip": lib.Show(sv2), "proto": fmt.Sprint(back)})
	}
}

// c15RenderAgrees: the repository's renderer and google/fhir's JSON renderer must agree on
// every temporal element the repository itself produces (ToProto* results), and a
// time-of-day element must hold microseconds since midnight, i.e. a value in [0, 24h).
func c15RenderAgrees(r *core.Rec, key string, back proto.Message, w core.W) {
	var got string
	pi := core.Try(func() {
		switch m := back.(type) {
		case *dtpb.Date:
			got = fhirconv.DateToString(m)
		case *dtpb.DateTime:
			got = fhirconv.DateTimeToString(m)
		case *dtpb.Instant:
			got = fhirconv.InstantToString(m)
		case *dtpb.Time:
			got = fhirconv.TimeToString(m)
			if m.GetValueUs() < 0 || m.GetValueUs() >= 24*3600*1000000 {
				w["value_us"] = m.GetValueUs()
				r.Fail(key+"|time-element-outside-the-day", w)
			}
		default:
			got = "\x00"
		}
	})
	if pi != nil {
		r.Fail(key+"|"+pi.Key(), w)
		return
	}
	if got == "\x00" {
		return
	}
	js, err := lib.PrimitiveJSON(back)
	if err != nil {
		return
	}
	if fmt.Sprint(js) != got {
		w["fhirconv"], w["jsonformat"] = got, fmt.Sprint(js)
		r.Fail(key+"|produced-element-renders-differently-from-jsonformat", w)
	}
}

// c15TemporalProto: for a valid FHIR-representable text build the proto with the harness's own builder and check
// (a) fhirconv.*ToString equals the jsonformat rendering, (b) fhir.Parse* of that rendering gives back the proto,
// (c) system.*FromProto -> ToProto* preserves value, precision and offset.
func c15TemporalProto(r *core.Rec, kind, text, class string) {
	ref, valid := lib.ParseRefT(kind, text)
	if !valid {
		return
	}
	// FHIR JSON text forms: date: Y, Y-M, Y-M-D; dateTime: those or full second(+fraction) precision with offset; time: hh:mm:ss[.f]; instant: full with offset
	type cand struct {
		name string
		msg  proto.Message
		json string
	}
	var cands []cand
	switch {
	case kind == "Date":
		cands = append(cands, cand{"date", lib.ProtoDate(text), text})
		cands = append(cands, cand{"dateTime", lib.ProtoDateTime(text), text})
	case kind == "Time" && ref.Prec == 6 && len(ref.Frac) <= 6:
		cands = append(cands, cand{"time", lib.ProtoTime(strings.TrimPrefix(text, "T")), strings.TrimPrefix(text, "T")})
	case kind == "DateTime" && ref.Prec == 6 && ref.HasOff && len(ref.Frac) <= 6 && ref.OffText != "-00:00":
		cands = append(cands, cand{"dateTime", lib.ProtoDateTime(text), text})
		cands = append(cands, cand{"instant", lib.ProtoInstant(text), text})
	default:
		return
	}
	// an element's zone may be spelled '', 'UTC' or 'Z' where the text says +00:00 / Z (hand-built protos): the renderers
	// agree with jsonformat on each spelling (only the rendering is compared; the parse of the rendering has its own zone text)
	if kind == "DateTime" && ref.Prec == 6 && ref.HasOff && len(ref.Frac) <= 6 && (ref.OffText == "Z" || ref.OffText == "+00:00") {
		for _, zone := range []string{"", "UTC", "Z", "+00:00"} {
			dt := proto.Clone(lib.ProtoDateTime(text)).(*dtpb.DateTime)
			dt.Timezone = zone
			in := proto.Clone(lib.ProtoInstant(text)).(*dtpb.Instant)
			in.Timezone = zone
			for _, m := range []proto.Message{dt, in} {
				js, err := lib.PrimitiveJSON(m)
				if err != nil {
					continue
				}
				var got string
				pi := core.Try(func() {
					switch x := m.(type) {
					case *dtpb.DateTime:
						got = fhirconv.DateTimeToString(x)
					case *dtpb.Instant:
						got = fhirconv.InstantToString(x)
					}
				})
				r.Eval()
				r.State("proto|zone-spelling|" + zone)
				name := string(m.ProtoReflect().Descriptor().Name())
				if pi != nil {
					r.Fail("fhir-helpers|"+name+"|zone-spelling|"+pi.Key(), core.W{"text": text, "zone": zone})
				} else if got != fmt.Sprint(js) {
					r.Fail("fhirconv.ToString|"+name+"|zone-spelling="+zone+"|differs-from-jsonformat", core.W{"text": text, "zone": zone, "fhirconv": got, "jsonformat": fmt.Sprint(js)})
				}
			}
		}
	}
	for _, c := range cands {
		r.State("proto|" + c.name + "|" + class)
		r.Nontrivial(c.name, text)
		js, err := lib.PrimitiveJSON(c.msg)
		if err != nil {
			continue // the reference renderer rejects the value (e.g. '-00:00'): outside what the element can represent
		}
		jstr := fmt.Sprint(js)
		var got string
		var parsed proto.Message
		var perr error
		pi := core.Try(func() {
			switch m := c.msg.(type) {
			case *dtpb.Date:
				got = fhirconv.DateToString(m)
				parsed, perr = fhir.ParseDate(jstr)
			case *dtpb.DateTime:
				got = fhirconv.DateTimeToString(m)
				parsed, perr = fhir.ParseDateTime(jstr)
			case *dtpb.Instant:
				got = fhirconv.InstantToString(m)
				parsed, perr = fhir.ParseInstant(jstr)
			case *dtpb.Time:
				got = fhirconv.TimeToString(m)
				parsed, perr = fhir.ParseTime(jstr)
			}
		})
		r.Eval()
		if pi != nil {
			r.Fail("fhir-helpers|"+c.name+"|"+class+"|"+pi.Key(), core.W{"text": text})
			continue
		}
		if got != jstr {
			r.Fail("fhirconv.ToString|"+c.name+"|"+class+"|differs-from-jsonformat", core.W{"text": text, "fhirconv": got, "jsonformat": jstr})
		}
		// the helpers are pure functions of the element: the same rendering and parse result whatever
		// the process's local zone is (time.Local is the only ambient input they could read)
		saved := time.Local
		for _, z := range []struct {
			name string
			loc  *time.Location
		}{{"+09:00", time.FixedZone("", 9*3600)}, {"-03:30", time.FixedZone("", -(3*3600 + 1800))}} {
			time.Local = z.loc
			var got2 string
			var parsed2 proto.Message
			var perr2 error
			pi2 := core.Try(func() {
				switch m := c.msg.(type) {
				case *dtpb.Date:
					got2 = fhirconv.DateToString(m)
					parsed2, perr2 = fhir.ParseDate(jstr)
				case *dtpb.DateTime:
					got2 = fhirconv.DateTimeToString(m)
					parsed2, perr2 = fhir.ParseDateTime(jstr)
				case *dtpb.Instant:
					got2 = fhirconv.InstantToString(m)
					parsed2, perr2 = fhir.ParseInstant(jstr)
				case *dtpb.Time:
					got2 = fhirconv.TimeToString(m)
					parsed2, perr2 = fhir.ParseTime(jstr)
				}
			})
			time.Local = saved
			r.Eval()
			if pi2 != nil {
				r.Fail("fhir-helpers|"+c.name+"|"+class+"|local-zone="+z.name+"|"+pi2.Key(), core.W{"text": text})
				continue
			}
			if got2 != got {
				r.Fail("fhirconv.ToString|"+c.name+"|"+class+"|depends-on-the-local-zone", core.W{"text": text, "local_zone": z.name, "rendering": got2, "under_UTC": got})
			}
			if (perr2 == nil) != (perr == nil) || perr2 == nil && perr == nil && !proto.Equal(parsed2, parsed) {
				r.Fail("fhir.Parse|"+c.name+"|"+class+"|depends-on-the-local-zone", core.W{"text": jstr, "local_zone": z.name, "parsed": fmt.Sprint(parsed2), "under_UTC": fmt.Sprint(parsed)})
			}
		}
		if perr != nil {
			r.Fail("fhir.Parse|"+c.name+"|"+class+"|rejects-jsonformat-output", core.W{"text": jstr, "err": perr.Error()})
		} else {
			// parse after format is the identity: same instant, precision, and offset-equivalent zone
			if !sameTemporalProto(parsed, c.msg) {
				r.Fail("fhir.Parse|"+c.name+"|"+class+"|parse(format(x))!=x", core.W{"text": jstr, "parsed": fmt.Sprint(parsed), "original": fmt.Sprint(c.msg)})
			}
		}
		// the Go-time view of the element and the constructors from a Go time are inverses: XToTime gives the instant
		// and the offset the element holds, and the element built from that time holds them again
		{
			var tm time.Time
			var terr error
			var rebuilt proto.Message
			var usGot, usWant int64
			var zoneGot, zoneWant string
			pi := core.Try(func() {
				switch m := c.msg.(type) {
				case *dtpb.Date:
					tm, terr = fhirconv.DateToTime(m)
					usWant, zoneWant = m.GetValueUs(), m.GetTimezone()
					if terr == nil {
						d := fhir.Date(tm)
						rebuilt, usGot, zoneGot = d, d.GetValueUs(), d.GetTimezone()
					}
				case *dtpb.DateTime:
					tm, terr = fhirconv.DateTimeToTime(m)
					usWant, zoneWant = m.GetValueUs(), m.GetTimezone()
					if terr == nil {
						d := fhir.DateTime(tm)
						rebuilt, usGot, zoneGot = d, d.GetValueUs(), d.GetTimezone()
					}
				case *dtpb.Instant:
					tm, terr = fhirconv.InstantToTime(m)
					usWant, zoneWant = m.GetValueUs(), m.GetTimezone()
					if terr == nil {
						d := fhir.Instant(tm)
						rebuilt, usGot, zoneGot = d, d.GetValueUs(), d.GetTimezone()
					}
				case *dtpb.Time:
					du := fhirconv.TimeToDuration(m)
					usWant = m.GetValueUs()
					usGot = du.Microseconds()
					tod, e := fhir.TimeOfDay(int64(ref.H), int64(ref.Mi), int64(ref.S), ref.Nanos()/1000)
					if e != nil || tod.GetValueUs() != usWant {
						r.Fail("fhir-time-helpers|"+c.name+"|"+class+"|TimeOfDay-differs", core.W{"text": text, "TimeOfDay": fmt.Sprint(tod), "err": fmt.Sprint(e), "want_value_us": usWant})
					}
					t2 := fhir.Time(time.Date(1999, 7, 4, ref.H, ref.Mi, ref.S, int(ref.Nanos()), time.UTC)) // documented: microseconds since the epoch modulo one day, i.e. the UTC time of day
					if t2.GetValueUs() != usWant {
						r.Fail("fhir-time-helpers|"+c.name+"|"+class+"|Time(t)-is-not-the-time-of-day", core.W{"text": text, "Time(t)": fmt.Sprint(t2), "want_value_us": usWant})
					}
				}
			})
			r.Eval()
			w := core.W{"text": text, "element": fmt.Sprint(c.msg), "go_time": tm.String(), "rebuilt": fmt.Sprint(rebuilt)}
			switch {
			case pi != nil:
				r.Fail("fhir-time-helpers|"+c.name+"|"+class+"|"+pi.Key(), w)
			case terr != nil:
				w["err"] = terr.Error()
				r.Fail("fhir-time-helpers|"+c.name+"|"+class+"|ToTime-rejects-a-valid-element", w)
			default:
				if _, isT := c.msg.(*dtpb.Time); isT {
					if usGot != usWant {
						r.Fail("fhir-time-helpers|"+c.name+"|"+class+"|TimeToDuration-differs", core.W{"text": text, "got_us": usGot, "want_us": usWant})
					}
				} else {
					if tm.UnixMicro() != usWant {
						r.Fail("fhir-time-helpers|"+c.name+"|"+class+"|ToTime-is-another-instant", w)
					}
					_, off := tm.Zone()
					if wm, ok := tzMinutes(zoneWant); ok && off != wm*60 {
						r.Fail("fhir-time-helpers|"+c.name+"|"+class+"|ToTime-is-in-another-zone", w)
					}
					gm, ok1 := tzMinutes(zoneGot)
					wm, ok2 := tzMinutes(zoneWant)
					if usGot != usWant || ok1 != ok2 || gm != wm {
						r.Fail("fhir-time-helpers|"+c.name+"|"+class+"|element-from-time-differs", w)
					}
				}
			}
		}
		// System round trip
		var back proto.Message
		pi = core.Try(func() {
			switch m := c.msg.(type) {
			case *dtpb.Date:
				d, err := system.DateFromProto(m)
				if err == nil {
					back = d.ToProtoDate()
				}
			case *dtpb.DateTime:
				d, err := system.DateTimeFromProto(m)
				if err == nil {
					back = d.ToProtoDateTime()
				}
			case *dtpb.Time:
				back = system.TimeFromProto(m).ToProtoTime()
			}
		})
		r.Eval()
		if pi != nil {
			r.Fail("system-proto|"+c.name+"|"+class+"|"+pi.Key(), core.W{"text": text})
			continue
		}
		if back != nil {
			c15RenderAgrees(r, "system-proto|"+c.name+"|"+class, back, core.W{"text": text})
			// representable wherever the System type can: microsecond digits beyond ms may be cut
			b2, _ := lib.PrimitiveJSON(back)
			want := jstr
			if fmt.Sprint(b2) != want && !msCutEqual(fmt.Sprint(b2), want) {
				r.Fail("system-proto|"+c.name+"|"+class+"|FromProto->ToProto-changes-rendering", core.W{"text": text, "before": jstr, "after": fmt.Sprint(b2)})
			}
		}
	}
}

var c15StreakKinds = []struct {
	name  string
	texts []string
	parse func(string) (proto.Message, error)
	build func(string) proto.Message
}{
	{"ParseDateTime", []string{"2019-01-02T01:02:03Z", "2019-01-02T01:02:03-04:00", "2019-01-02T01:02:03+05:30", "2020-05-06T07:08:09.123Z", "2020-05-06T07:08:09.123456Z", "2020-05-06T07:08:09.120-04:00", "2020-05-06T07:08:09.500+05:30",
		"2020-05-06T07:08:09.000001+05:30", "2020", "2020-05", "2020-05-06"},
		func(t string) (proto.Message, error) { return fhir.ParseDateTime(t) }, func(t string) proto.Message { return lib.ProtoDateTime(t) }},
	{"ParseInstant", []string{"2019-01-02T01:02:03Z", "2019-01-02T01:02:03-04:00", "2020-05-06T07:08:09.123Z", "2020-05-06T07:08:09.123456+05:30", "2020-05-06T07:08:09.120-04:00"},
		func(t string) (proto.Message, error) { return fhir.ParseInstant(t) }, func(t string) proto.Message { return lib.ProtoInstant(t) }},
	{"ParseDate", []string{"2019", "2019-01", "2019-01-02", "2020-02-29", "0001-01-01", "9999-12-31"},
		func(t string) (proto.Message, error) { return fhir.ParseDate(t) }, func(t string) proto.Message { return lib.ProtoDate(t) }},
	{"ParseTime", []string{"01:02:03", "23:59:59", "07:08:09.123", "07:08:09.123456", "07:08:09.500", "00:00:00"},
		func(t string) (proto.Message, error) { return fhir.ParseTime(t) }, func(t string) proto.Message { return lib.ProtoTime(t) }},
}

// sameOffsetText: two printed DateTimes are the same text, Z and +00:00 being one offset
func sameOffsetText(a, b string) bool {
	n := func(x string) string { return strings.Replace(x, "+00:00", "Z", 1) }
	return n(a) == n(b)
}

func tzMinutes(tz string) (int, bool) {
	switch tz {
	case "Z", "UTC", "":
		return 0, true
	}
	if len(tz) == 6 && (tz[0] == '+' || tz[0] == '-') {
		var h, m int
		if _, err := fmt.Sscanf(tz[1:], "%02d:%02d", &h, &m); err == nil {
			v := h*60 + m
			if tz[0] == '-' {
				v = -v
			}
			return v, true
		}
	}
	return 0, false
}

func sameTemporalProto(a, b proto.Message) bool {
	get := func(m proto.Message) (int64, int32, string) {
		switch x := m.(type) {
		case *dtpb.Date:
			return x.ValueUs, int32(x.Precision), x.Timezone
		case *dtpb.DateTime:
			return x.ValueUs, int32(x.Precision), x.Timezone
		case *dtpb.Instant:
			return x.ValueUs, int32(x.Precision), x.Timezone
		case *dtpb.Time:
			return x.ValueUs, int32(x.Precision), ""
		}
		return 0, -1, "?"
	}
	av, ap, az := get(a)
	bv, bp, bz := get(b)
	am, ok1 := tzMinutes(az)
	bm, ok2 := tzMinutes(bz)
	return av == bv && ap == bp && ok1 && ok2 && am == bm
}

// msCutEqual: a equals b with b's fraction cut (or padded) to milliseconds.
func msCutEqual(a, b string) bool {
	cut := func(s string) string {
		i := strings.Index(s, ".")
		if i < 0 {
			return s
		}
		j := i + 1
		for j < len(s) && s[j] >= '0' && s[j] <= '9' {
			j++
		}
		f := s[i+1 : j]
		for len(f) < 3 {
			f += "0"
		}
		return s[:i+1] + f[:3] + s[j:]
	}
	// "Z" and "+00:00" denote the same offset (the statement asks for the offset
	// to be preserved, not its spelling); false alarm fixed, see DESIGN section 5
	zone := func(s string) string {
		if strings.HasSuffix(s, "Z") {
			return strings.TrimSuffix(s, "Z") + "+00:00"
		}
		return s
	}
	return zone(cut(a)) == zone(cut(b))
}
