package checks

import (
	"fmt"
	bcrpb "github.com/google/fhir/go/proto/google/fhir/proto/r4/core/resources/bundle_and_contained_resource_go_proto"
	orgpb "github.com/google/fhir/go/proto/google/fhir/proto/r4/core/resources/organization_go_proto"
	parpb "github.com/google/fhir/go/proto/google/fhir/proto/r4/core/resources/parameters_go_proto"
	ppb "github.com/google/fhir/go/proto/google/fhir/proto/r4/core/resources/patient_go_proto"
	perpb "github.com/google/fhir/go/proto/google/fhir/proto/r4/core/resources/person_go_proto"
	"github.com/verily-src/fhirpath-go/fhirpath/verifh/ftab"
	"google.golang.org/protobuf/types/known/anypb"
	"sort"
	"strings"

	dtpb "github.com/google/fhir/go/proto/google/fhir/proto/r4/core/datatypes_go_proto"
	"github.com/verily-src/fhirpath-go/fhirpath"
	"github.com/verily-src/fhirpath-go/fhirpath/compopts"
	"github.com/verily-src/fhirpath-go/fhirpath/evalopts"
	"github.com/verily-src/fhirpath-go/fhirpath/patch"
	"github.com/verily-src/fhirpath-go/fhirpath/system"
	"github.com/verily-src/fhirpath-go/fhirpath/verifh/core"
	"github.com/verily-src/fhirpath-go/fhirpath/verifh/lib"
	"github.com/verily-src/fhirpath-go/internal/fhir"
	"google.golang.org/protobuf/proto"
)

// ---- C01: Compile, Evaluate and Patch are total: never panic or hang on any input.

var c01Tokens = []string{"1", "1.5", "'a'", "@2020", "@2020-01-01T10", "@T10:00", "`x`", "x", "Patient", "name", "$this", "$index", "$total", "%v", "%`v`", "{", "}", "(", ")", "[", "]", ".", ",",
	"+", "-", "*", "/", "&", "|", "=", "!=", "~", "!~", "<", "<=", ">", ">=", "and", "or", "xor", "implies", "is", "as", "in", "contains", "div", "mod", "day", "days", "'mg'",
	"count()", "where(", "first()", "Integer", "System.String", "'", "\\", "//", "/*", "'\\u123'", "'\\u'", "'\\'"}

var c01Bytes = []byte{0x00, 0x80, 0xC3, 0xFF, '\'', '\\', '`', '@', 'T', ':', '-', '+', '.', '/', '*', '0', '9', 'a', 'Z', ' ', '\n', '%', '$', '('}

var c01Seeds = []string{
	"Patient.name.given", "Patient.name.where(use = 'official').given.first()", "Patient.name[0].family", "1 + 2 * 3", "'a' & 'b'", "1 / 0", "5 div 2", "5 mod 0", "-1", "(1 + 2).toString()",
	"@2020-01-01 + 1 day", "@2020-01-01T10:00:00Z - 2 hours", "@T10:00 + 61 minutes", "1 'mg' + 2 'mg'", "3 days", "Patient.birthDate < today()", "now() > @2020-01-01T00:00:00Z", "Patient.active and true",
	"Patient.deceased is boolean", "Patient.multipleBirth as integer", "1 is Integer", "1 is System.Integer", "Patient is FHIR.Patient", "iif(true, 1, 2)", "iif(Patient.active, 'y')", "Patient.name.select(given.count())",
	"Patient.name.all(family.exists())", "Patient.name.exists(use = 'nickname')", "Patient.name.given.distinct().count()", "Patient.name.given.skip(1).take(1)", "Patient.name.given.intersect('Ann')", "Patient.name.given.exclude('Ann')",
	"'abc'.substring(1, 1)", "'abc'.indexOf('c')", "'abc'.replace('a', 'b')", "'abc'.matches('a.c')", "'abc'.length()", "'a,b'.toChars()", "'5'.toInteger()", "'5 mg'.toQuantity()", "'5'.toQuantity('mg')", "1.5.round(1)",
	"2.power(3)", "8.log(2)", "16.sqrt()", "1.exp()", "1.ln()", "1.5.ceiling()", "(-1.5).abs()", "'2020-01-01'.toDate()", "'2020-01-01T10:00:00Z'.toDateTime()", "'10:00'.toTime()", "true.not()", "%context.id",
	"%ucum", "%v + 1", "Patient.extension('http://u').value", "Patient.contained.id", "Patient.managingOrganization.reference", "Bundle.entry.resource.id", "{}", "{}.empty()", "(1).combine(2)", "1 | 2", "1 in (1)", "1 ~ 1",
	"Patient.name.given.join(',')", "Patient.telecom.rank.sum()", "Patient.name.children()", "Patient.descendants()", "Patient.name.ofType(HumanName)", "Patient.name.single()", "Patient.text.`div`", "'\\u00e9\\n'", "/* c */ 1 // d", "'\\u00e9'", "'a\\u0041'", "'\\ud83d\\ude00'", "'x\\''", "`a\\u0041`", "%'a\\u0041'",
}

// value pool for operands / receivers: System values, FHIR elements, {} and a multi-item collection
type c01Val struct {
	id    string
	class string
	v     any
}

func c01Pool() []c01Val {
	var out []c01Val
	for _, v := range lib.SystemPool() {
		out = append(out, c01Val{v.ID, v.Class, v.V})
	}
	for _, v := range lib.ElementPool() {
		out = append(out, c01Val{v.ID, v.Class, v.V})
	}
	out = append(out,
		c01Val{"{}", "empty", system.Collection{}},
		c01Val{"(1,2)", "multi", system.Collection{system.Integer(1), system.Integer(2)}},
		c01Val{"(nameA,1)", "multi.mixed", system.Collection{lib.NameA(), system.Integer(1)}},
		c01Val{"Patient", "resource", lib.Patient()},
		// a collection whose items are collections (the option validator accepts it item by item), equal ones included
		c01Val{"((1,2),(1,2),'x')", "multi.nested", system.Collection{system.Collection{system.Integer(1), system.Integer(2)}, system.Collection{system.Integer(1), system.Integer(2)}, system.String("x")}},
		c01Val{"(({}))", "multi.nested", system.Collection{system.Collection{system.Collection{}}}},
		// decimals whose coefficient carries a positive exponent (1e2 is the number 100 with exponent 2), as values and as elements
		c01Val{"dec.1e2", "dec.exp", lib.Dec("1e2")}, c01Val{"dec.25E+5", "dec.exp", lib.Dec("25E+5")}, c01Val{"dec.1e-7", "dec.exp", lib.Dec("1e-7")}, c01Val{"dec.-3e9", "dec.exp", lib.Dec("-3e9")},
		c01Val{"f.dec.1E+3", "fhir.dec.exp", &dtpb.Decimal{Value: "1E+3"}}, c01Val{"f.dec.1.5e3", "fhir.dec.exp", &dtpb.Decimal{Value: "1.5e3"}}, c01Val{"f.dec.1e-05", "fhir.dec.exp", &dtpb.Decimal{Value: "1e-05"}},
		c01Val{"f.qty.1.5e3", "fhir.qty.exp", &dtpb.Quantity{Value: &dtpb.Decimal{Value: "1.5e3"}, Unit: fhir.String("mg"), Code: fhir.Code("mg")}},
		// FHIR elements with missing parts (a caller can build them: they are valid protos)
		c01Val{"f.qty.novalue", "fhir.qty.partial", &dtpb.Quantity{Unit: fhir.String("mg")}},
		c01Val{"f.dec.empty", "fhir.dec.partial", &dtpb.Decimal{}},
		c01Val{"f.dec.garbage", "fhir.dec.partial", &dtpb.Decimal{Value: "abc"}},
		c01Val{"f.date.zero", "fhir.date.partial", &dtpb.Date{}},
		c01Val{"f.dt.badtz", "fhir.datetime.partial", &dtpb.DateTime{ValueUs: 1, Timezone: "Mars/Olympus", Precision: dtpb.DateTime_SECOND}},
		c01Val{"f.time.zero", "fhir.time.partial", &dtpb.Time{}},
		c01Val{"f.ref.empty", "fhir.ref.partial", &dtpb.Reference{}},
		c01Val{"f.ext.novalue", "fhir.ext.partial", &dtpb.Extension{Url: fhir.URI("http://u")}},
		c01Val{"f.ext.emptychoice", "fhir.ext.partial", &dtpb.Extension{Url: fhir.URI("http://u"), Value: &dtpb.Extension_ValueX{}}},
		c01Val{"f.uint.big", "fhir.uint.big", &dtpb.UnsignedInt{Value: 4294967295}},
		c01Val{"f.pint.big", "fhir.pint.big", &dtpb.PositiveInt{Value: 3000000000}},
	)
	// extreme System values: beyond float64 in both directions, the empty and a spaced unit, bytes that are not UTF-8
	huge := "1" + strings.Repeat("0", 400)
	tiny := "0." + strings.Repeat("0", 400) + "1"
	for _, x := range []struct{ id, class, text string }{{"dec.1e400", "dec.huge", huge + ".0"}, {"dec.-1e400", "dec.huge", "-" + huge + ".0"}, {"dec.1e-400", "dec.tiny", tiny}} {
		if d, err := system.ParseDecimal(x.text); err == nil {
			out = append(out, c01Val{x.id, x.class, d})
		} else {
			panic("c01 pool: " + err.Error())
		}
	}
	for _, x := range []struct{ id, class, num, unit string }{{"qty.emptyunit", "qty.emptyunit", "1", ""}, {"qty.spacedunit", "qty.spacedunit", "1.5", "a b"}, {"qty.huge", "qty.huge", huge, "mg"}, {"qty.neg.emptyunit", "qty.emptyunit", "-2.5", ""}} {
		if q, err := system.ParseQuantity(x.num, x.unit); err == nil {
			out = append(out, c01Val{x.id, x.class, q})
		} else {
			panic("c01 pool: " + err.Error())
		}
	}
	out = append(out, c01Val{"str.notutf8", "str.notutf8", system.String("a\xffb\xc3")}, c01Val{"str.nul", "str.nul", system.String("a\x00b")},
		c01Val{"f.str.notutf8", "fhir.str.notutf8", fhir.String("\xff\xfe")})
	return out
}

// literal forms for the temporal-arithmetic sub-space
var c01TemporalForms = []struct{ src, class string }{
	{"@2020", "date.year"}, {"@2020-02", "date.month"}, {"@2020-02-29", "date.day"},
	{"@2020T", "dt.year"}, {"@2020-02T", "dt.month"}, {"@2020-02-29T", "dt.day"}, {"@2020-02-29T10", "dt.hour"}, {"@2020-02-29T10:30", "dt.minute"}, {"@2020-02-29T10:30:15", "dt.second"}, {"@2020-02-29T10:30:15.250", "dt.ms"},
	{"@2020-02-29T10Z", "dt.hour.tz"}, {"@2020-02-29T10:30+05:30", "dt.minute.tz"}, {"@2020-02-29T23:59:59-11:00", "dt.second.tz"}, {"@2020-02-29T10:30:15.250Z", "dt.ms.tz"},
	{"@T10", "time.hour"}, {"@T10:30", "time.minute"}, {"@T23:59:59", "time.second"}, {"@T10:30:15.250", "time.ms"},
	{"Patient.birthDate", "fhir.date"}, {"@0001-01-01", "date.min"}, {"@9999-12-31T23:59:59.999Z", "dt.max"},
}

// degenerate but valid inputs: protos that the Go API lets a caller build
type c01Degen struct {
	name  string
	root  string
	mk    func() fhir.Resource
	paths []string
}

func c01Degenerate() []c01Degen {
	anyOf := func(m proto.Message) *anypb.Any {
		a, err := anypb.New(m)
		if err != nil {
			panic(err)
		}
		return a
	}
	return []c01Degen{
		{"Bundle with an entry whose resource wrapper is empty", "Bundle", func() fhir.Resource {
			return &bcrpb.Bundle{Entry: []*bcrpb.Bundle_Entry{{Resource: &bcrpb.ContainedResource{}}, {}, {FullUrl: fhir.URI("urn:x")}}}
		}, []string{"Bundle.entry.resource", "Bundle.entry[0].resource", "Bundle.entry[0].resource.id", "Bundle.entry.resource.name", "Bundle.entry[1].resource", "Bundle.entry.resource.where($this is Patient)", "Bundle.entry.resource.descendants()"}},
		{"Bundle with empty response / request / search", "Bundle", func() fhir.Resource {
			return &bcrpb.Bundle{Entry: []*bcrpb.Bundle_Entry{{Request: &bcrpb.Bundle_Entry_Request{}, Response: &bcrpb.Bundle_Entry_Response{}, Search: &bcrpb.Bundle_Entry_Search{}}}}
		}, []string{"Bundle.entry.request.method", "Bundle.entry.response.outcome", "Bundle.entry.response.outcome.id", "Bundle.entry.search.mode"}},
		{"Patient whose contained Any holds an empty wrapper", "Patient", func() fhir.Resource {
			p := lib.Patient()
			p.Contained = []*anypb.Any{anyOf(&bcrpb.ContainedResource{})}
			return p
		}, []string{"Patient.contained", "Patient.contained.id", "Patient.contained[0]", "Patient.contained.descendants()", "Patient.contained.where($this is Observation)"}},
		{"Patient whose contained Any holds a non-resource message", "Patient", func() fhir.Resource {
			p := lib.Patient()
			p.Contained = []*anypb.Any{anyOf(fhir.String("not a resource")), {TypeUrl: "type.googleapis.com/no.such.Type", Value: []byte{1, 2, 3}}, {}}
			return p
		}, []string{"Patient.contained", "Patient.contained.id", "Patient.contained[1]", "Patient.contained[2].id"}},
		{"Patient with choice wrappers that have no alternative", "Patient", func() fhir.Resource {
			p := lib.Patient()
			p.Deceased = &ppb.Patient_DeceasedX{}
			p.MultipleBirth = &ppb.Patient_MultipleBirthX{}
			p.Extension = append(p.Extension, &dtpb.Extension{Url: fhir.URI("http://e"), Value: &dtpb.Extension_ValueX{}})
			return p
		}, []string{"Patient.deceased", "Patient.multipleBirth", "Patient.multipleBirth + 1", "Patient.deceased.not()", "Patient.extension.value", "Patient.extension('http://e').value", "Patient.deceased is boolean", "Patient.deceased as boolean"}},
		{"Patient with empty elements everywhere", "Patient", func() fhir.Resource {
			return &ppb.Patient{Id: &dtpb.Id{}, Meta: &dtpb.Meta{}, Name: []*dtpb.HumanName{{}, {Given: []*dtpb.String{{}, {}}, Period: &dtpb.Period{Start: &dtpb.DateTime{}}}}, BirthDate: &dtpb.Date{}, Gender: &ppb.Patient_GenderCode{},
				ManagingOrganization: &dtpb.Reference{}, Link: []*ppb.Patient_Link{{}}, Telecom: []*dtpb.ContactPoint{{Rank: &dtpb.PositiveInt{}}}}
		}, []string{"Patient.id", "Patient.name.given", "Patient.name.period.start", "Patient.name.period.start < today()", "Patient.birthDate", "Patient.birthDate.value", "Patient.birthDate + 1 day", "Patient.gender", "Patient.gender = 'male'", "Patient.managingOrganization.reference",
			"Patient.link.other.reference", "Patient.link.type", "Patient.telecom.rank + 1", "Patient.name.given.first() & 'x'", "Patient.name.given.join(',')"}},
		{"Parameters with an empty resource wrapper", "Parameters", func() fhir.Resource {
			return &parpb.Parameters{Parameter: []*parpb.Parameters_Parameter{{Name: fhir.String("p"), Resource: anyOf(&bcrpb.ContainedResource{})}, {Value: &parpb.Parameters_Parameter_ValueX{}}, {Part: []*parpb.Parameters_Parameter{{}}}}}
		}, []string{"Parameters.parameter.resource", "Parameters.parameter.resource.id", "Parameters.parameter.value", "Parameters.parameter.part.value", "Parameters.parameter.part.resource"}},
	}
}

var c01BinOps = []string{"+", "-", "*", "/", "div", "mod", "&", "=", "!=", "<", "<=", ">", ">=", "and", "or", "xor", "implies", "|", "in", "contains", "~", "!~"}

// c01Call evaluates f and reports a panic (hangs are caught by the worker watchdog)
func c01Total(r *core.Rec, clause, class string, w core.W, f func()) bool {
	pi := core.Try(f)
	r.Eval()
	if pi != nil {
		w["panic"] = pi.Raw
		// one key per entry-point group and panic site: the locus and message identify the defect, the
		// operand classes are kept in the witness
		group := clause
		if i := strings.IndexAny(clause, ".("); i > 0 {
			group = clause[:i]
		}
		w["entry"], w["class"] = clause, class
		r.Fail(strings.Join([]string{group, pi.Key()}, "|"), w)
		return false
	}
	return true
}

// all helper entry points on one compiled expression
func c01EvalAll(r *core.Rec, clause, class string, e *fhirpath.Expression, in []fhir.Resource, w core.W, opts ...fhirpath.EvaluateOption) {
	c01Total(r, clause, class, w, func() { e.Evaluate(in, opts...) })
	c01Total(r, clause+".AsString", class, w, func() { e.EvaluateAsString(in, opts...) })
	c01Total(r, clause+".AsBool", class, w, func() { e.EvaluateAsBool(in, opts...) })
	c01Total(r, clause+".AsInt32", class, w, func() { e.EvaluateAsInt32(in, opts...) })
	c01Total(r, clause+".AsCanonical", class, w, func() { e.EvaluateAsCanonical(in, opts...) })
}

func c01Source(r *core.Rec, clause, class, src string) {
	configs := []struct {
		name string
		opts []fhirpath.CompileOption
	}{{"default", nil}, {"permissive", []fhirpath.CompileOption{compopts.Permissive()}}, {"experimental", []fhirpath.CompileOption{compopts.WithExperimentalFuncs()}}}
	for _, c := range configs {
		var e *fhirpath.Expression
		var err error
		w := core.W{"src": src, "config": c.name}
		if !c01Total(r, clause+".Compile", class, w, func() { e, err = fhirpath.Compile(src, c.opts...) }) {
			continue
		}
		r.Outcome(fmt.Sprintf("compile|%v", err == nil))
		if err != nil || e == nil {
			continue
		}
		env := []fhirpath.EvaluateOption{evalopts.OverrideTime(lib.PinnedNow), evalopts.EnvVariable("v", system.Integer(3))}
		if c.name == "default" {
			c01EvalAll(r, clause+".Evaluate", class, e, []fhir.Resource{lib.Patient()}, w, env...)
			c01EvalAll(r, clause+".Evaluate(no-input)", class, e, nil, w, env...)
		} else {
			c01Total(r, clause+".Evaluate", class, w, func() { e.Evaluate([]fhir.Resource{lib.Patient()}, env...) })
		}
	}
	var pe *patch.Expression
	var perr error
	w := core.W{"src": src, "entry": "patch.Compile"}
	if c01Total(r, clause+".patch.Compile", class, w, func() { pe, perr = patch.Compile(src) }) && perr == nil && pe != nil {
		c01Total(r, clause+".patch.Delete", class, w, func() { pe.Delete(lib.Patient()) })
		c01Total(r, clause+".patch.Replace", class, w, func() { pe.Replace(lib.Patient(), fhir.String("x")) })
		c01Total(r, clause+".patch.Insert", class, w, func() { pe.Insert(lib.Patient(), fhir.String("x"), 0) })
		c01Total(r, clause+".patch.Add", class, w, func() { pe.Add(lib.Patient(), "id", fhir.ID("x")) })
	}
}

func init() {
	pool := c01Pool()
	core.Register(&core.Check{
		ID:          "C01",
		Rule:        "source strings: all token strings of length <=3 (quick) / <=4 over a reduced alphabet (thorough) over a 58-token alphabet holding one token of every lexer rule and keyword, all byte strings of length <=3 / <=4 over 24 bytes (NUL, 0x80, 0xC3, 0xFF, quotes, backslash, ...), every single edit (delete / insert / replace with an alphabet byte at every position) of 75 seed expressions, each through fhirpath.Compile with {default, Permissive, WithExperimentalFuncs} and patch.Compile, whatever compiles is evaluated on a Patient and on no input through Evaluate and the four EvaluateAs* helpers and the four patch operations; operator trees: every unary/binary operator x every ordered pair of the value pool (System pool, FHIR element pool, {}, multi-item collections, a resource, 11 partially populated FHIR elements); function calls: every (name, arity) of both function tables x every receiver of the pool x argument tuples from a 24-value sub-pool (all tuples for arity <=2 on a receiver sub-pool, each-position sweep above); resources: every name path of the schema-covering resource family x every zero-argument function and the EvaluateAs* helpers; patch: operations x paths x values (right, sibling, wrong, nil) x indexes on hand-sized resources, nil resource; oracle: the call returns (no panic; a case that makes no progress for 45 s is a hang); non-trivial = distinct (entry point, case, outcome)",
		Assumptions: []string{"nil entries inside Evaluate's input slice, nil options and typed-nil elements are caller errors outside the domain (property text)", "a hang is a single call making no progress for 45 s"},
		Subs: func(tier string) []core.Sub {
			tokLen, byteLen := 3, 3
			toks := c01Tokens
			if tier == "thorough" {
				tokLen, byteLen = 4, 4
			}
			nTok := c10Count(len(toks), tokLen)
			nByte := c10Count(len(c01Bytes), byteLen)
			tbl := ftab.Table(true)
			var fnames []string
			for k := range tbl {
				fnames = append(fnames, k)
			}
			sort.Strings(fnames)
			names := lib.ResourceTypeNames()
			argPool := []string{"{}", "0", "1", "-1", "2147483647", "(-2147483647 - 1)", "0.5", "1000.0", "'a'", "''", "'é'", "true", "@2020", "@2020-01-01T10:00:00Z", "@T10", "1 'mg'", "3 days", "%multi", "%elem", "%complex", "$this", "Patient.name", "Integer", "HumanName"}
			// token strings are sharded by their first two tokens so that an outer index is a few thousand cases
			tokOuter := len(toks) * len(toks)
			return []core.Sub{
				{Name: "token-strings", N: tokOuter + 1, Note: fmt.Sprintf("%d token strings of length <=%d over %d tokens", nTok, tokLen, len(toks)), Run: func(i int, r *core.Rec) {
					r.State("tokens")
					if i == tokOuter {
						// lengths 0 and 1
						c01Source(r, "source", "token-string", "")
						for _, t := range toks {
							c01Source(r, "source", "token-string", t)
						}
						r.NontrivialByConstruction(int64(len(toks) + 1))
						return
					}
					a, b := toks[i/len(toks)], toks[i%len(toks)]
					c01Source(r, "source", "token-string", a+" "+b)
					c01Source(r, "source", "token-string", a+b)
					n := int64(2)
					var rec func(prefix string, depth int)
					rec = func(prefix string, depth int) {
						if depth == tokLen {
							return
						}
						for _, t := range toks {
							s := prefix + " " + t
							c01Source(r, "source", "token-string", s)
							n++
							rec(s, depth+1)
						}
					}
					rec(a+" "+b, 2)
					r.NontrivialByConstruction(n)
					if r.WantSample() {
						r.Sample(core.W{"source": a + " " + b + " " + toks[0]})
					}
				}},
				{Name: "byte-strings", N: nByte, Note: fmt.Sprintf("all %d byte strings of length <=%d over 24 bytes", nByte, byteLen), Run: func(i int, r *core.Rec) {
					seq := c10Seq(i, len(c01Bytes))
					bs := make([]byte, len(seq))
					for k, s := range seq {
						bs[k] = c01Bytes[s]
					}
					r.State("bytes")
					c01Source(r, "source", "byte-string", string(bs))
					r.NontrivialByConstruction(1)
					if r.WantSample() {
						r.Sample(core.W{"source_bytes": fmt.Sprintf("%q", bs)})
					}
				}},
				{Name: "single-edits", N: len(c01Seeds), Note: fmt.Sprintf("every single edit of %d seed expressions with 24 bytes", len(c01Seeds)), Run: func(i int, r *core.Rec) {
					seed := c01Seeds[i]
					r.State("edits")
					c01Source(r, "source", "seed", seed)
					n := int64(1)
					for p := 0; p <= len(seed); p++ {
						if p < len(seed) {
							c01Source(r, "source", "edit", seed[:p]+seed[p+1:])
							n++
						}
						for _, b := range c01Bytes {
							c01Source(r, "source", "edit", seed[:p]+string([]byte{b})+seed[p:])
							n++
							if p < len(seed) {
								c01Source(r, "source", "edit", seed[:p]+string([]byte{b})+seed[p+1:])
								n++
							}
						}
					}
					r.NontrivialByConstruction(n)
					r.Sample(core.W{"seed": seed})
				}},
				{Name: "temporal-arithmetic", N: len(c01TemporalForms), Note: "every Date/DateTime/Time literal form (each precision, with and without offset) and FHIR date element x {+,-} x every calendar keyword (singular, plural), UCUM spelling and two non-temporal units x 7 amounts, both operand orders", Run: func(i int, r *core.Rec) {
					form := c01TemporalForms[i]
					for _, u := range c09Units {
						for _, am := range []string{"0", "1", "1000", "0.5", "1.5", "2147483647", "99999999999999999999"} {
							for _, op := range []string{"+", "-"} {
								q := am + " " + u.lit
								c01Source(r, "temporal", form.class+"|"+u.class, form.src+" "+op+" "+q)
								c01Source(r, "temporal", form.class+"|"+u.class, form.src+" "+op+" (-"+q+")")
								c01Source(r, "temporal", form.class+"|"+u.class, q+" "+op+" "+form.src)
								r.State("temporal|" + form.class + "|" + u.class + "|" + op)
							}
						}
					}
				}},
				{Name: "operators", N: len(pool), Note: fmt.Sprintf("%d binary + 2 unary operators + indexer + is/as x all ordered pairs of the %d-value pool", len(c01BinOps), len(pool)), Run: func(i int, r *core.Rec) {
					a := pool[i]
					type cexpr struct {
						src string
						e   *fhirpath.Expression
					}
					var bins, uns []cexpr
					for _, op := range c01BinOps {
						if e, err := fhirpath.Compile("%a " + op + " %b"); err == nil {
							bins = append(bins, cexpr{"%a " + op + " %b", e})
						}
					}
					for _, src := range []string{"-%a", "+%a", "%a[0]", "%a[%a]", "%a is Integer", "%a as HumanName", "%a is FHIR.Quantity", "%a as System.Quantity", "%a.where($this = %a)", "%a.select($this + %a)", "iif(%a, %a, %a)", "%a.exists(%a)", "%a.all(%a)"} {
						if e, err := fhirpath.Compile(src); err == nil {
							uns = append(uns, cexpr{src, e})
						}
					}
					for _, u := range uns {
						c01EvalAll(r, "operator", a.class, u.e, nil, core.W{"src": u.src, "a": a.id}, evalopts.EnvVariable("a", a.v))
						r.State("unary|" + a.class)
					}
					for _, b := range pool {
						for _, x := range bins {
							c01Total(r, "operator", a.class+","+b.class, core.W{"src": x.src, "a": a.id, "b": b.id}, func() {
								x.e.Evaluate(nil, evalopts.EnvVariable("a", a.v), evalopts.EnvVariable("b", b.v))
							})
						}
						r.State("binary|" + a.class + "," + b.class)
					}
					r.NontrivialByConstruction(int64(len(pool)*len(bins) + len(uns)*5))
					r.Sample(core.W{"a": a.id, "operators": len(bins)})
				}},
				{Name: "functions", N: len(fnames), Note: "every (name, arity) of both tables x every receiver of the pool x argument tuples", Run: func(i int, r *core.Rec) {
					name := fnames[i]
					fn := tbl[name]
					env := func(recv any) []fhirpath.EvaluateOption {
						return []fhirpath.EvaluateOption{evalopts.OverrideTime(lib.PinnedNow), evalopts.EnvVariable("r", recv), evalopts.EnvVariable("multi", system.Collection{system.Integer(1), system.String("a")}),
							evalopts.EnvVariable("elem", fhir.String("abc")), evalopts.EnvVariable("complex", lib.NameA())}
					}
					for n := fn.Min; n <= fn.Max && n <= 4; n++ {
						var tuples [][]string
						switch {
						case n == 0:
							tuples = [][]string{nil}
						case n == 1:
							for _, x := range argPool {
								tuples = append(tuples, []string{x})
							}
						case n == 2:
							for _, x := range argPool {
								for _, y := range argPool {
									tuples = append(tuples, []string{x, y})
								}
							}
						default:
							base := make([]string, n)
							for k := range base {
								base[k] = "1"
							}
							for pos := 0; pos < n; pos++ {
								for _, x := range argPool {
									t := append([]string{}, base...)
									t[pos] = x
									tuples = append(tuples, t)
								}
							}
						}
						for ti, t := range tuples {
							src := "%r." + name + "(" + strings.Join(t, ", ") + ")"
							var e *fhirpath.Expression
							var err error
							if !c01Total(r, "function.Compile", name, core.W{"src": src}, func() { e, err = fhirpath.Compile(src, compopts.WithExperimentalFuncs()) }) || err != nil {
								continue
							}
							recvs := pool
							if n >= 2 && ti%7 != 0 {
								recvs = pool[:0]
								for k := 0; k < len(pool); k += 9 {
									recvs = append(recvs, pool[k]) // receiver sub-pool for the quadratic argument space
								}
							}
							for _, rv := range recvs {
								r.State("function|" + name + "|" + rv.class)
								c01Total(r, "function", name+"|arity="+fmt.Sprint(n)+"|receiver="+rv.class, core.W{"src": src, "receiver": rv.id}, func() { e.Evaluate([]fhir.Resource{lib.Patient()}, env(rv.v)...) })
							}
							r.NontrivialByConstruction(int64(len(recvs)))
							if r.WantSample() {
								r.Sample(core.W{"src": src, "receivers": len(recvs)})
							}
						}
					}
				}},
				{Name: "resources", N: len(names), Note: "every name path of the schema-covering family x every zero-argument function x EvaluateAs*", Run: func(i int, r *core.Rec) {
					tn := names[i]
					var zero []*fhirpath.Expression
					var zsrc []string
					for _, name := range fnames {
						if tbl[name].Min == 0 {
							if e, err := fhirpath.Compile("%x."+name+"()", compopts.WithExperimentalFuncs()); err == nil {
								zero = append(zero, e)
								zsrc = append(zsrc, "."+name+"()")
							}
						}
					}
					for _, extra := range []string{"%x = %x", "%x < %x", "%x + %x", "%x & %x", "-%x", "%x is string", "%x as Quantity", "%x[0]", "%x.where($this = %x)", "%x and %x"} {
						if e, err := fhirpath.Compile(extra); err == nil {
							zero = append(zero, e)
							zsrc = append(zsrc, extra)
						}
					}
					for vi, resm := range lib.Family(tn, 2, 2) {
						res := proto.Clone(resm).(fhir.Resource)
						tree, _, err := lib.ResourceJSON(res)
						if err != nil {
							continue
						}
						b := &c02Builder{}
						root := b.build(tree, res.ProtoReflect(), false)
						var walk func(names []string, nodes []*c02Node)
						walk = func(names []string, nodes []*c02Node) {
							path := tn
							for _, nm := range names {
								path += "." + c02Ident(nm)
							}
							var e *fhirpath.Expression
							var cerr error
							w := core.W{"type": tn, "variant": vi, "src": path}
							if c01Total(r, "resource.Compile", "path", w, func() { e, cerr = fhirpath.Compile(path) }) && cerr == nil {
								c01EvalAll(r, "resource.Evaluate", "path", e, []fhir.Resource{res}, w)
								var coll system.Collection
								if c01Total(r, "resource.Evaluate", "path", w, func() { coll, _ = e.Evaluate([]fhir.Resource{res}) }) && coll != nil {
									for _, c := range []system.Collection{coll, coll[:min(1, len(coll))]} {
										for zi, z := range zero {
											c01Total(r, "resource.function", zsrc[zi], core.W{"type": tn, "variant": vi, "path": path, "applied": zsrc[zi], "items": len(c)}, func() {
												z.Evaluate([]fhir.Resource{res}, evalopts.EnvVariable("x", c), evalopts.OverrideTime(lib.PinnedNow))
											})
										}
									}
									r.NontrivialByConstruction(int64(2 * len(zero)))
								}
							}
							r.State("resource-path")
							if r.WantSample() {
								r.Sample(core.W{"type": tn, "path": path, "functions": len(zero)})
							}
							var childNames []string
							cs := map[string]bool{}
							for _, n := range nodes {
								for _, nm := range n.names {
									if !cs[nm] {
										cs[nm] = true
										childNames = append(childNames, nm)
									}
								}
							}
							for _, nm := range childNames {
								walk(append(append([]string{}, names...), nm), c02Expand(nodes, nm))
							}
						}
						walk(nil, []*c02Node{root})
					}
				}},
				{Name: "degenerate-resources", N: len(c01Degenerate()), Note: "valid protos a caller can build although no FHIR JSON produces them (empty resource wrappers in Bundle entries / Parameters / contained, Any with foreign or garbage payload, choice wrappers without an alternative, nil list entries excluded) x navigation, children/descendants, type tests, every zero-argument function, patch operations", Run: func(i int, r *core.Rec) {
					d := c01Degenerate()[i]
					paths := append([]string{d.root, d.root + ".children()", d.root + ".descendants()", d.root + ".descendants().count()", d.root + ".children().children()", "children()", "descendants().where($this is Patient)",
						d.root + ".descendants().id", d.root + ".descendants().where($this is Element).count()", "%context.descendants().select($this as BackboneElement)"}, d.paths...)
					for _, p := range paths {
						c01Source(r, "degenerate", d.name, p)
						e, err := fhirpath.Compile(p)
						if err == nil {
							c01EvalAll(r, "degenerate.Evaluate", d.name, e, []fhir.Resource{d.mk()}, core.W{"src": p, "resource": d.name})
						}
						for _, fn := range []string{"exists()", "count()", "first()", "toString()", "children()", "distinct()", "not()", "empty()", "single()", "tail()"} {
							if e2, err := fhirpath.Compile(p + "." + fn); err == nil {
								c01Total(r, "degenerate.Evaluate", d.name, core.W{"src": p + "." + fn, "resource": d.name}, func() { e2.Evaluate([]fhir.Resource{d.mk()}) })
							}
						}
						r.State("degenerate|" + d.name)
					}
					for _, p := range d.paths {
						w := core.W{"path": p, "resource": d.name}
						c01Total(r, "degenerate.patch.Delete", d.name, w, func() { patch.Delete(d.mk(), p) })
						c01Total(r, "degenerate.patch.Replace", d.name, w, func() { patch.Replace(d.mk(), p, fhir.ID("x")) })
						c01Total(r, "degenerate.patch.Insert", d.name, w, func() { patch.Insert(d.mk(), p, fhir.ID("x"), 0) })
						c01Total(r, "degenerate.patch.Add", d.name, w, func() { patch.Add(d.mk(), p, "id", fhir.ID("x"), &patch.Options{}) })
					}
				}},
				{Name: "custom-functions", N: 1, Note: "functions added with AddFunction (0..2 typed parameters, variadic, failing, returning nil) in every composition of depth <=2 of themselves and each other, as receiver, argument, criterion, projection and operand, with arguments of every kind (right type, wrong type, empty, multi-item): compile and every entry point return", Run: func(i int, r *core.Rec) {
					opts := []fhirpath.CompileOption{
						compopts.AddFunction("inc", func(_ system.Collection, n system.Integer) (system.Collection, error) {
							return system.Collection{n + 1}, nil
						}),
						compopts.AddFunction("min", func(_ system.Collection, a, b system.Integer) (system.Collection, error) {
							if a < b {
								return system.Collection{a}, nil
							}
							return system.Collection{b}, nil
						}),
						compopts.AddFunction("size", func(in system.Collection) (system.Collection, error) {
							return system.Collection{system.Integer(int32(len(in)))}, nil
						}),
						compopts.AddFunction("tag", func(in system.Collection, s system.String) (system.Collection, error) {
							return append(system.Collection{s}, in...), nil
						}),
						compopts.AddFunction("all2", func(in system.Collection, xs ...system.Any) (system.Collection, error) {
							return system.Collection{system.Integer(int32(len(xs)))}, nil
						}),
						compopts.AddFunction("boom", func(in system.Collection) (system.Collection, error) { return nil, fmt.Errorf("boom") }),
						compopts.AddFunction("none", func(in system.Collection) (system.Collection, error) { return nil, nil }),
					}
					atoms := []string{"1", "'a'", "{}", "(1 | 2)", "Patient.name.given", "Patient.name.given.count()", "true", "1.5", "@2020-01-01", "Patient", "size()", "boom()", "none()", "Patient.name.size()"}
					calls1 := []string{"inc(%s)", "tag(%s)", "all2(%s)", "Patient.name.inc(%s)", "Patient.name.given.tag(%s)", "Patient.name.select(inc(%s))", "Patient.name.where(inc(%s) = 2)", "inc(%s) + 1", "1 + inc(%s)", "Patient.name.given[inc(%s)]", "iif(true, inc(%s), 0)", "inc(%s).size()"}
					calls2 := []string{"min(%s, %s)", "all2(%s, %s)", "Patient.name.min(%s, %s)", "min(%s, %s) = 1"}
					var progs []string
					for _, a := range atoms {
						for _, c := range calls1 {
							progs = append(progs, fmt.Sprintf(c, a))
						}
					}
					// compositions: every one-argument call applied to every one-argument call, and pairs in the two-argument ones
					inner := []string{"inc(1)", "inc(Patient.name.given.count())", "tag('x')", "min(9, 5)", "all2(1, 2)", "inc({})", "inc('a')", "boom()", "size()", "Patient.name.where(inc(given.count()) = 2).given.count()"}
					for _, in1 := range inner {
						for _, c := range calls1 {
							progs = append(progs, fmt.Sprintf(c, in1))
						}
						for _, in2 := range inner {
							for _, c := range calls2 {
								progs = append(progs, fmt.Sprintf(c, in1, in2))
							}
						}
					}
					for _, a := range atoms[:6] {
						for _, b := range atoms[:6] {
							for _, c := range calls2 {
								progs = append(progs, fmt.Sprintf(c, a, b))
							}
						}
					}
					progs = append(progs, "inc(inc(inc(1)))", "min(min(9, 5), min(3, inc(1)))", "Patient.name.select(inc(inc(given.count())))", "tag(tag('x').first())", "all2(all2(1), all2(), all2(1, 2, 3))")
					in := []fhir.Resource{lib.Patient()}
					for _, src := range progs {
						var e *fhirpath.Expression
						var err error
						w := core.W{"src": src}
						r.State("custom-functions")
						r.Nontrivial(src)
						if c01Total(r, "custom-function.Compile", "custom", w, func() { e, err = fhirpath.Compile(src, opts...) }) && err == nil && e != nil {
							c01EvalAll(r, "custom-function.Evaluate", "custom", e, in, w)
							c01Total(r, "custom-function.Evaluate-again", "custom", w, func() { e.Evaluate(in) })
							c01Total(r, "custom-function.Evaluate-no-input", "custom", w, func() { e.Evaluate(nil) })
						}
					}
				}},
				{Name: "patch", N: 1, Note: "operations x paths x values (right, sibling, wrong, nil) x indexes in [-1, len+1] on hand-sized resources; nil resource", Run: func(i int, r *core.Rec) {
					paths := []string{"Patient", "Patient.name", "Patient.name[0]", "Patient.name[0].given", "Patient.name.given[1]", "Patient.active", "Patient.deceased", "Patient.multipleBirth", "Patient.gender", "Patient.birthDate",
						"Patient.telecom.where(system = 'phone')", "Patient.telecom.first().rank", "Patient.extension('http://u')", "Patient.extension[0].value", "Patient.managingOrganization", "Patient.managingOrganization.reference",
						"Patient.generalPractitioner[1]", "Patient.contained[0]", "Patient.contained[0].id", "Patient.meta.tag", "Patient.id", "Patient.name.where(false)", "Patient.noSuch", "1", "'a'", "{}", "Patient.name.count()", "%context", "$this", "Observation.value",
						// children of primitives (every primitive kind, incl. the date-like ones that keep their value outside a `value` field)
						"Patient.birthDate.id", "Patient.birthDate.extension", "Patient.birthDate.extension[0]", "Patient.birthDate[0]", "Patient.birthDate.first()", "Patient.deceased.id", "Patient.deceased.extension[0]",
						"Patient.meta.lastUpdated.id", "Patient.meta.lastUpdated.extension[0]", "Patient.active.id", "Patient.active.extension[0]", "Patient.name[0].given[0].id", "Patient.name[0].given[0].extension[0]", "Patient.gender.extension[0]",
						"Patient.multipleBirth.id", "Patient.telecom[0].rank.extension[0]", "Patient.birthDate.extension[0].value", "Patient.birthDate.extension('http://e1').value",
						// backbone components (their message types share short names with components of other resources)
						"Patient.contact", "Patient.contact[0]", "Patient.contact[1]", "Patient.link", "Patient.link[0]", "Patient.communication[0]"}
					values := []struct {
						name string
						v    fhir.Base
					}{{"nil", nil}, {"String", fhir.String("x")}, {"Code", fhir.Code("official")}, {"Boolean", fhir.Boolean(true)}, {"Integer", fhir.Integer(-1)}, {"PositiveInt", fhir.PositiveInt(1)}, {"Decimal", &dtpb.Decimal{Value: "1.5"}},
						{"Date", lib.ProtoDate("2020-01-01")}, {"HumanName", lib.NameA()}, {"ContactPoint", &dtpb.ContactPoint{}}, {"Reference", &dtpb.Reference{}}, {"Extension", &dtpb.Extension{}}, {"Coding", fhir.Coding("s", "c")}, {"Patient", lib.Patient()},
						{"empty-Quantity", &dtpb.Quantity{}}, {"Id", fhir.ID("x")},
						{"Patient.Contact", &ppb.Patient_Contact{}}, {"Organization.Contact", &orgpb.Organization_Contact{}}, {"Person.Link", &perpb.Person_Link{}}, {"Person.GenderCode", &perpb.Person_GenderCode{Value: 1}}, {"Patient.Link", &ppb.Patient_Link{}}}
					resources := []struct {
						name string
						mk   func() fhir.Resource
					}{{"Patient", func() fhir.Resource { return lib.PatientWithContained() }}, {"Observation", func() fhir.Resource { return lib.Observation() }}, {"nil", func() fhir.Resource { return nil }},
						{"Patient(primitives with id and extensions)", func() fhir.Resource {
							ext := func() []*dtpb.Extension {
								return []*dtpb.Extension{{Url: fhir.URI("http://e1"), Value: &dtpb.Extension_ValueX{Choice: &dtpb.Extension_ValueX_StringValue{StringValue: fhir.String("x")}}}, {Url: fhir.URI("http://e2")}}
							}
							p := lib.Patient()
							p.BirthDate = lib.ProtoDate("1980-02-29")
							p.BirthDate.Id, p.BirthDate.Extension = fhir.String("bd"), ext()
							dt := lib.ProtoDateTime("2020-02-29T10:30:15+05:30")
							dt.Id, dt.Extension = fhir.String("dd"), ext()
							p.Deceased = &ppb.Patient_DeceasedX{Choice: &ppb.Patient_DeceasedX_DateTime{DateTime: dt}}
							in := lib.ProtoInstant("2020-02-29T10:30:15.250Z")
							in.Id, in.Extension = fhir.String("lu"), ext()
							p.Meta = &dtpb.Meta{LastUpdated: in}
							p.Active = &dtpb.Boolean{Value: true, Id: fhir.String("ac"), Extension: ext()}
							if len(p.Name) > 0 && len(p.Name[0].Given) > 0 {
								p.Name[0].Given[0].Id, p.Name[0].Given[0].Extension = fhir.String("g0"), ext()
							}
							p.Gender = &ppb.Patient_GenderCode{Value: 1, Extension: ext()}
							p.MultipleBirth = &ppb.Patient_MultipleBirthX{Choice: &ppb.Patient_MultipleBirthX_Integer{Integer: &dtpb.Integer{Value: 2, Id: fhir.String("mb")}}}
							if len(p.Telecom) > 0 {
								p.Telecom[0].Rank = &dtpb.PositiveInt{Value: 1, Extension: ext()}
							}
							p.Contact = []*ppb.Patient_Contact{{Name: lib.NameA()}, {Name: lib.NameB()}}
							p.Link = []*ppb.Patient_Link{{Other: &dtpb.Reference{Reference: &dtpb.Reference_Uri{Uri: fhir.String("Patient/2")}}}}
							return p
						}}}
					for _, rs := range resources {
						for _, p := range paths {
							w := func(op string, extra ...any) core.W {
								return core.W{"resource": rs.name, "path": p, "op": op, "args": fmt.Sprint(extra...)}
							}
							r.State("patch|" + rs.name)
							c01Total(r, "patch.Delete", rs.name, w("delete"), func() { patch.Delete(rs.mk(), p) })
							c01Total(r, "patch.Move", rs.name, w("move"), func() { patch.Move(rs.mk(), p, 0, 1) })
							for _, v := range values {
								c01Total(r, "patch.Replace", rs.name+"|value="+v.name, w("replace", v.name), func() { patch.Replace(rs.mk(), p, v.v) })
								for idx := -1; idx <= 4; idx++ {
									c01Total(r, "patch.Insert", rs.name+"|value="+v.name, w("insert", v.name, idx), func() { patch.Insert(rs.mk(), p, v.v, idx) })
								}
								for _, name := range []string{"name", "given", "active", "gender", "rank", "value", "valueString", "extension", "id", "reference", "noSuch", "birth_date", "", "contained", "deceased", "use", "period", "text", "contact", "link"} {
									c01Total(r, "patch.Add", rs.name+"|value="+v.name, w("add", name, v.name), func() { patch.Add(rs.mk(), p, name, v.v, &patch.Options{}) })
								}
							}
							r.NontrivialByConstruction(int64(2 + len(values)*(1+6+18)))
						}
					}
					r.Sample(core.W{"paths": len(paths), "values": len(values)})
				}},
			}
		},
	})
}
