package checks

import (
	"fmt"
	dtpb "github.com/google/fhir/go/proto/google/fhir/proto/r4/core/datatypes_go_proto"
	ppb "github.com/google/fhir/go/proto/google/fhir/proto/r4/core/resources/patient_go_proto"
	"strings"

	"github.com/verily-src/fhirpath-go/fhirpath"
	"github.com/verily-src/fhirpath-go/fhirpath/compopts"
	"github.com/verily-src/fhirpath-go/fhirpath/system"
	"github.com/verily-src/fhirpath-go/fhirpath/verifh/core"
	"github.com/verily-src/fhirpath-go/fhirpath/verifh/lib"
	"github.com/verily-src/fhirpath-go/internal/fhir"
)

// ---- C06: three-valued Boolean logic for every operand form.

// tv is a three-valued logic value plus "multi" (error expected).
type tv int

const (
	tT tv = iota
	tF
	tE     // empty
	tMulti // more than one item: must be an error
)

func (t tv) String() string { return [...]string{"true", "false", "empty", "multi"}[t] }

// boolForm is one operand form: (value class) x (source).
type boolForm struct {
	Name   string
	Src    string // expression text
	Val    tv     // three-valued meaning under singleton evaluation
	NonBoo bool   // non-Boolean singleton (counts as true)
	Pat    int    // which patient variant the form needs: bit0 active: 0 absent 1 true 2 false ; deceased same in bits
}

// The patient carries active (plain boolean element) and deceased (choice element).
// Forms name the patient configuration they need via env variables instead, to keep
// every pair evaluable on one input: the input is always the same Patient with
// active=true, deceased=false, and a second Patient variable for the other values.
func c06Forms() []boolForm {
	return []boolForm{
		// literals
		{Name: "lit.true", Src: "true", Val: tT},
		{Name: "lit.false", Src: "false", Val: tF},
		{Name: "lit.empty", Src: "{}", Val: tE},
		{Name: "lit.nonbool", Src: "'x'", Val: tT, NonBoo: true},
		{Name: "lit.nonbool.0", Src: "0", Val: tT, NonBoo: true},
		// FHIR boolean element (plain)
		{Name: "elem.true", Src: "Patient.active", Val: tT},
		{Name: "elem.false", Src: "%pf.active", Val: tF},
		{Name: "elem.empty", Src: "%pn.active", Val: tE},
		{Name: "elem.nonbool", Src: "Patient.gender", Val: tT, NonBoo: true},
		{Name: "elem.multi", Src: "Patient.name", Val: tMulti},
		{Name: "elem.multi.bool", Src: "%bools", Val: tMulti},
		// FHIR boolean choice element
		{Name: "choice.true", Src: "%pf.deceased", Val: tT},
		{Name: "choice.false", Src: "Patient.deceased", Val: tF},
		{Name: "choice.empty", Src: "%pn.deceased", Val: tE},
		{Name: "choice.nonbool", Src: "Patient.multipleBirth", Val: tT, NonBoo: true},
		// computed System Boolean
		{Name: "comp.true", Src: "(1 = 1)", Val: tT},
		{Name: "comp.false", Src: "(1 = 2)", Val: tF},
		{Name: "comp.empty", Src: "(1 = {})", Val: tE},
		{Name: "comp.nonbool", Src: "(1 + 1)", Val: tT, NonBoo: true},
		// environment variables
		{Name: "env.true", Src: "%bt", Val: tT},
		{Name: "env.false", Src: "%bf", Val: tF},
		{Name: "env.empty", Src: "%be", Val: tE},
		{Name: "env.nonbool", Src: "%bs", Val: tT, NonBoo: true},
		{Name: "env.multi", Src: "%bm", Val: tMulti},
		{Name: "env.felem.false", Src: "%bfe", Val: tF},
		// single non-Boolean items that have no System value at all: they still count as true
		{Name: "env.nonbool.qty-novalue", Src: "%qnv", Val: tT, NonBoo: true},
		{Name: "env.nonbool.bad-decimal", Src: "%dbad", Val: tT, NonBoo: true},
		{Name: "env.nonbool.complex", Src: "%cx", Val: tT, NonBoo: true},
		// function results
		{Name: "fn.true", Src: "iif(true, true, false)", Val: tT},
		{Name: "fn.false", Src: "Patient.active.not()", Val: tF},
		{Name: "fn.empty", Src: "Patient.name.first().period", Val: tE},
		{Name: "fn.nonbool", Src: "Patient.name.first()", Val: tT, NonBoo: true},
		{Name: "fn.multi", Src: "Patient.name.given", Val: tMulti},
		{Name: "fn.first.false", Src: "(false).first()", Val: tF},
		// the System value of a FHIR boolean, read with the value step
		{Name: "elemvalue.true", Src: "Patient.active.value", Val: tT},
		{Name: "elemvalue.false", Src: "%pf.active.value", Val: tF},
		{Name: "elemvalue.empty", Src: "%pn.active.value", Val: tE},
		{Name: "choicevalue.false", Src: "Patient.deceased.value", Val: tF},
	}
}

func c06Env() map[string]any {
	return map[string]any{
		"pf":    lib.PatientWith(lib.B(false), lib.B(true)),
		"pn":    lib.PatientWith(nil, nil),
		"bt":    system.Boolean(true),
		"bf":    system.Boolean(false),
		"be":    system.Collection{},
		"bs":    system.String("false"), // a non-Boolean singleton that merely looks false
		"bm":    system.Collection{system.Boolean(false), system.Boolean(false)},
		"bfe":   fhir.Boolean(false),
		"qnv":   &dtpb.Quantity{Unit: fhir.String("mg"), Code: fhir.Code("mg"), System: fhir.URI("http://unitsofmeasure.org")},
		"dbad":  &dtpb.Decimal{Value: "abc"},
		"cx":    lib.NameA(),
		"bools": system.Collection{fhir.Boolean(true), fhir.Boolean(true)},
	}
}

func refAnd(a, b tv) tv {
	switch {
	case a == tF || b == tF:
		return tF
	case a == tT && b == tT:
		return tT
	}
	return tE
}
func refOr(a, b tv) tv {
	switch {
	case a == tT || b == tT:
		return tT
	case a == tF && b == tF:
		return tF
	}
	return tE
}
func refXor(a, b tv) tv {
	if a == tE || b == tE {
		return tE
	}
	if a != b {
		return tT
	}
	return tF
}
func refImplies(a, b tv) tv {
	switch {
	case a == tF || b == tT:
		return tT
	case a == tT && b == tF:
		return tF
	}
	return tE
}
func refNot(a tv) tv {
	switch a {
	case tT:
		return tF
	case tF:
		return tT
	}
	return tE
}

// obs3 classifies a result as a three-valued outcome.
// sub-spaces registered by other files of the package (c06trees.go)
var c06ExtraSubs []core.Sub

func obs3(r lib.Res) string {
	if r.Panic != nil {
		return "panic"
	}
	if r.CompileErr != nil {
		return "compile-error"
	}
	if r.Err != nil {
		return "error"
	}
	if len(r.Coll) == 0 {
		return "empty"
	}
	if len(r.Coll) == 1 {
		if b, ok := r.Coll[0].(system.Boolean); ok {
			if b {
				return "true"
			}
			return "false"
		}
		return "nonbool:" + lib.Show(r.Coll[0])
	}
	return "multi-result"
}

func init() {
	forms := c06Forms()
	ops := []struct {
		name string
		ref  func(a, b tv) tv
	}{{"and", refAnd}, {"or", refOr}, {"xor", refXor}, {"implies", refImplies}}
	input := func() []fhir.Resource { return []fhir.Resource{lib.Patient()} }

	core.Register(&core.Check{
		ID:          "C06",
		Rule:        "complete enumeration: every operator x every ordered pair of 34 operand forms (value class x source), not() on every form, every form as where/exists/all/iif criterion and as EvaluateAsBool result, the algebraic laws on every pair, and one compiled expression per operator evaluated under every sequence of two environment bindings (rebinding); a case is non-trivial when the implementation produced a result or error that was compared against the truth table (hash of case id + outcome)",
		Assumptions: []string{"the operand forms' own meanings (e.g. Patient.active is true on the fixture) are established by navigation, which C02 checks", "nil options / typed-nil elements are outside the domain"},
		Subs: func(tier string) []core.Sub {
			return append(c06ExtraSubs, []core.Sub{
				{Name: "binary", N: len(ops) * len(forms), Note: "4 operators x 34 left forms; inner loop 34 right forms", Run: func(i int, r *core.Rec) {
					op, a := ops[i/len(forms)], forms[i%len(forms)]
					for _, b := range forms {
						src := a.Src + " " + op.name + " " + b.Src
						res := lib.Run(src, input(), c06Env())
						r.Eval()
						r.State(fmt.Sprintf("%s|%s|%s", op.name, a.Val, b.Val))
						got := obs3(res)
						r.Outcome(op.name + "|" + got)
						r.Nontrivial(src, got)
						want := "error"
						if a.Val != tMulti && b.Val != tMulti {
							want = op.ref(a.Val, b.Val).String()
						}
						if r.WantSample() {
							r.Sample(core.W{"src": src, "got": got, "want": want})
						}
						if got != want {
							r.Fail(fmt.Sprintf("table|%s|%s(%s)x%s(%s)|got=%s|want=%s", op.name, a.Val, srcKind(a), b.Val, srcKind(b), normGot(got), want),
								core.W{"src": src, "got": res.String(), "want": want, "left": a.Name, "right": b.Name})
						}
					}
				}},
				{Name: "rebinding", N: 4 + 3, Note: "one compiled expression per operator / not / iif / where over two environment variables, evaluated under every sequence of two bindings out of 6 values x 6 values (true, false, empty, non-Boolean, FHIR true, FHIR false): the truth table holds whatever the expression saw before", Run: func(i int, r *core.Rec) {
					vals := []struct {
						name string
						v    any
						t    tv
					}{{"true", system.Boolean(true), tT}, {"false", system.Boolean(false), tF}, {"empty", system.Collection{}, tE}, {"nonbool", system.String("false"), tT}, {"fhir-true", fhir.Boolean(true), tT}, {"fhir-false", fhir.Boolean(false), tF}}
					var src string
					var ref func(a, b tv) string
					if i < 4 {
						op := ops[i]
						src = "%p " + op.name + " %q"
						ref = func(a, b tv) string { return op.ref(a, b).String() }
					} else {
						switch i - 4 {
						case 0:
							src = "%p.not()"
							ref = func(a, _ tv) string { return refNot(a).String() }
						case 1:
							src = "iif(%p, true, false)"
							ref = func(a, _ tv) string { return map[tv]string{tT: "true", tF: "false", tE: "false"}[a] }
						default:
							src = "Patient.where(%p).exists()"
							ref = func(a, _ tv) string { return map[tv]string{tT: "true", tF: "false", tE: "false"}[a] }
						}
					}
					comp := lib.Compile(src)
					if !comp.OK() {
						r.Fail("rebinding|does-not-compile", core.W{"src": src})
						return
					}
					type bind struct{ p, q int }
					var binds []bind
					for p := range vals {
						for q := range vals {
							binds = append(binds, bind{p, q})
						}
					}
					for _, first := range binds {
						for _, second := range binds {
							for k, b := range []bind{first, second} {
								res := lib.EvalOpts(comp, input(), lib.EnvOpts(map[string]any{"p": vals[b.p].v, "q": vals[b.q].v})...)
								r.Eval()
								got, want := obs3(res), ref(vals[b.p].t, vals[b.q].t)
								for k2 := range res.Coll {
									res.Coll[k2] = system.String("slot-overwritten-by-the-caller") // the result belongs to the caller
								}
								r.State(fmt.Sprintf("rebinding|%s|%s|%s", src, vals[b.p].name, vals[b.q].name))
								r.Nontrivial(src, vals[b.p].name, vals[b.q].name, got)
								if got != want {
									w := core.W{"src": src, "p": vals[b.p].name, "q": vals[b.q].name, "got": res.String(), "want": want, "evaluation_no": k + 1}
									if k == 1 {
										w["earlier_binding"] = vals[first.p].name + "," + vals[first.q].name
									}
									r.Fail(fmt.Sprintf("rebinding|%s|got=%s|want=%s", src, normGot(got), want), w)
								}
							}
						}
					}
				}},
				{Name: "not", N: len(forms), Note: "not() on every form", Run: func(i int, r *core.Rec) {
					a := forms[i]
					src := "(" + a.Src + ").not()"
					res := lib.Run(src, input(), c06Env())
					r.Eval()
					got := obs3(res)
					r.State("not|" + a.Val.String())
					r.Outcome("not|" + got)
					r.Nontrivial(src, got)
					want := "error"
					if a.Val != tMulti {
						want = refNot(a.Val).String()
					}
					if a.NonBoo {
						want = "false" // non-Boolean singleton counts as true
					}
					r.Sample(core.W{"src": src, "got": got, "want": want})
					if got != want {
						r.Fail(fmt.Sprintf("not|%s(%s)|got=%s|want=%s", a.Val, srcKind(a), normGot(got), want), core.W{"src": src, "got": res.String(), "want": want})
					}
					// chains of not(): each step is singleton evaluation again (a non-Boolean singleton is true, more than one item an
					// error), so two steps are the identity on true / false / empty only, and the result is a System Boolean
					for n, chain := range []string{".not().not()", ".not().not().not()"} {
						for _, form := range []string{"(" + a.Src + ")" + chain, a.Src + chain} {
							if strings.ContainsAny(a.Src, " ") && !strings.HasPrefix(form, "(") {
								continue // an operator expression needs its parentheses
							}
							res := lib.Run(form, input(), c06Env())
							r.Eval()
							got := obs3(res)
							want := "error"
							if a.Val != tMulti {
								v := a.Val
								if a.NonBoo {
									v = tT
								}
								for k := 0; k < n+2; k++ {
									v = refNot(v)
								}
								want = v.String()
							}
							r.State("not-chain|" + a.Val.String())
							r.Nontrivial(form, got)
							ok := got == want
							if ok && res.OK() && len(res.Coll) == 1 {
								_, isB := res.Coll[0].(system.Boolean)
								ok = isB
							}
							if !ok {
								r.Fail(fmt.Sprintf("not-chain|%d|%s(%s)|got=%s|want=%s", n+2, a.Val, srcKind(a), normGot(got), want), core.W{"src": form, "got": res.String(), "want": want})
							}
						}
					}
				}},
				{Name: "criteria", N: len(forms), Note: "each form as criterion of where/exists/all/iif and through EvaluateAsBool", Run: func(i int, r *core.Rec) {
					a := forms[i]
					// criteria are evaluated with $this = the Patient, so forms keep their meaning
					type crit struct {
						name, src string
						want      func(tv) string
					}
					pass := func(t tv) string { // where keeps the item iff criterion is true
						switch t {
						case tT:
							return "value"
						case tMulti:
							return "error"
						}
						return "empty"
					}
					// inside a criterion the focus is the Patient itself: forms rooted at the
					// type name are written relative to $this (whether a root type name is
					// also accepted inside an argument is not part of this property)
					aSrc := a.Src
					if strings.HasPrefix(aSrc, "Patient.") {
						aSrc = "$this." + strings.TrimPrefix(aSrc, "Patient.")
					}
					crits := []crit{
						{"where", "Patient.where(" + aSrc + ")", pass},
						{"exists", "Patient.exists(" + aSrc + ")", func(t tv) string {
							switch t {
							case tT:
								return "true"
							case tMulti:
								return "error"
							}
							return "false"
						}},
						{"all", "Patient.all(" + aSrc + ")", func(t tv) string {
							switch t {
							case tT:
								return "true"
							case tMulti:
								return "error"
							}
							return "false"
						}},
						{"iif", "iif(" + a.Src + ", 'Y', 'N')", func(t tv) string {
							switch t {
							case tT:
								return "Y"
							case tMulti:
								return "error"
							}
							return "N"
						}},
					}
					for _, c := range crits {
						res := lib.Run(c.src, input(), c06Env())
						r.Eval()
						got := obs3(res)
						switch c.name {
						case "where":
							if res.OK() {
								if len(res.Coll) == 1 {
									got = "value"
								} else if len(res.Coll) == 0 {
									got = "empty"
								}
							}
						case "iif":
							if res.OK() && len(res.Coll) == 1 {
								if s, ok := res.Coll[0].(system.String); ok {
									got = string(s)
								}
							}
						}
						want := c.want(a.Val)
						r.State("crit|" + c.name + "|" + a.Val.String())
						r.Outcome("crit|" + c.name + "|" + got)
						r.Nontrivial(c.src, got)
						if got != want {
							r.Fail(fmt.Sprintf("criterion|%s|%s(%s)|got=%s|want=%s", c.name, a.Val, srcKind(a), normGot(got), want), core.W{"src": c.src, "got": res.String(), "want": want})
						}
					}
					// EvaluateAsBool: empty -> false, true/false as is, non-Boolean singleton -> true, multi -> error
					comp := lib.Compile(a.Src)
					if comp.CompileErr != nil || comp.Panic != nil {
						r.Fail("asbool|compile|"+a.Name, core.W{"src": a.Src, "got": comp.String()})
						return
					}
					var gotB bool
					var err error
					pi := core.Try(func() { gotB, err = comp.Expr.EvaluateAsBool(input(), lib.EnvOpts(c06Env())...) })
					r.Eval()
					got := fmt.Sprint(gotB)
					if err != nil {
						got = "error"
					}
					if pi != nil {
						got = "panic"
					}
					want := map[tv]string{tT: "true", tF: "false", tE: "false", tMulti: "error"}[a.Val]
					r.State("asbool|" + a.Val.String())
					r.Nontrivial("asbool", a.Src, got)
					if got != want {
						r.Fail(fmt.Sprintf("asbool|%s(%s)|got=%s|want=%s", a.Val, srcKind(a), got, want), core.W{"src": a.Src, "got": got, "want": want})
					}
				}},
				{Name: "criteria-by-position", N: 1, Note: "collections in which the criterion is a single value for some items and several values for another, in every order (2 and 3 names): where / exists / all fail whichever position the offending item has; exists(p) and where(p).exists() agree", Run: func(_ int, r *core.Rec) {
					one := func(f string, g ...string) *dtpb.HumanName {
						n := &dtpb.HumanName{Family: fhir.String(f)}
						for _, x := range g {
							n.Given = append(n.Given, fhir.String(x))
						}
						return n
					}
					names := []*dtpb.HumanName{one("Chu", "Ada"), one("Lee", "Bea", "Cy"), one("Ono")}
					perms := [][]int{{0, 1}, {1, 0}, {0, 1, 2}, {1, 0, 2}, {2, 0, 1}, {0, 2, 1}, {2, 1, 0}, {1, 2, 0}, {0, 2}, {2, 0}}
					for _, pm := range perms {
						p := &ppb.Patient{Id: fhir.ID("p")}
						multi := false
						for _, k := range pm {
							p.Name = append(p.Name, names[k])
							multi = multi || k == 1
						}
						for _, crit := range []string{"given", "given.exists() and given", "given.select($this.exists())", "iif(family = 'Chu', true, given)", "given or false"} {
							run := func(src string) string {
								res := lib.Run(src, []fhir.Resource{p}, nil)
								r.Eval()
								return obs3(res)
							}
							wh, ex, whex, al := run("Patient.name.where("+crit+").count()"), run("Patient.name.exists("+crit+")"), run("Patient.name.where("+crit+").exists()"), run("Patient.name.all("+crit+")")
							r.State(fmt.Sprintf("criteria-by-position|multi=%v", multi))
							r.Nontrivial(fmt.Sprint(pm), crit, wh, ex, al)
							w := core.W{"order_of_names": fmt.Sprint(pm), "criterion": crit, "where(p).count()": wh, "exists(p)": ex, "where(p).exists()": whex, "all(p)": al}
							if ex != whex {
								r.Fail("criteria-by-position|exists(p)!=where(p).exists()|"+normGot(ex)+"-vs-"+normGot(whex), w)
							}
							if multi && crit != "iif(family = 'Chu', true, given)" && (wh != "error" || whex != "error") {
								r.Fail("criteria-by-position|multi-item-criterion-accepted-by-where", w)
							}
							// the same operand inside a projection: the operator's error is the evaluation's error, whichever item raises it
							if multi && (strings.Contains(crit, " and ") || strings.Contains(crit, " or ")) {
								for _, proj := range []string{"Patient.name.select(" + crit + ")", "Patient.name.select((" + crit + ").not())", "Patient.name.select(given.not())", "Patient.name.select(iif(given, 'y', 'n'))", "Patient.name.select(given xor true)", "Patient.name.select(true implies given)"} {
									if got := run(proj); got != "error" {
										w2 := core.W{"order_of_names": fmt.Sprint(pm), "src": proj, "got": got, "want": "error (an operand of more than one item)"}
										r.Fail("criteria-by-position|multi-item-operand-accepted-inside-select", w2)
									}
								}
							}
						}
					}
				}},
				{Name: "laws", N: len(forms), Note: "commutativity, De Morgan, implies = not-or on every ordered pair, on the implementation's own outputs", Run: func(i int, r *core.Rec) {
					a := forms[i]
					for _, b := range forms {
						ev := func(src string) string {
							res := lib.Run(src, input(), c06Env())
							r.Eval()
							return obs3(res)
						}
						law := func(name, l, rr string) {
							gl, gr := ev(l), ev(rr)
							r.Nontrivial(name, l, gl, gr)
							r.State("law|" + name)
							if gl != gr {
								r.Fail(fmt.Sprintf("law|%s|%s(%s)x%s(%s)|%s!=%s", name, a.Val, srcKind(a), b.Val, srcKind(b), normGot(gl), normGot(gr)),
									core.W{"lhs": l, "rhs": rr, "lhs_result": gl, "rhs_result": gr})
							}
						}
						A, Bb := "("+a.Src+")", "("+b.Src+")"
						for _, op := range []string{"and", "or", "xor"} {
							law("commutative-"+op, A+" "+op+" "+Bb, Bb+" "+op+" "+A)
						}
						law("demorgan-and", "("+A+" and "+Bb+").not()", A+".not() or "+Bb+".not()")
						law("demorgan-or", "("+A+" or "+Bb+").not()", A+".not() and "+Bb+".not()")
						law("implies", A+" implies "+Bb, A+".not() or "+Bb)
						// the same symmetry when the expression is compiled with Permissive (choice elements stay wrapped there, a wrapped
						// Boolean is a non-Boolean singleton - whatever an operand is worth, it is worth the same on either side)
						for _, op := range []string{"and", "or", "xor"} {
							l, rr := A+" "+op+" "+Bb, Bb+" "+op+" "+A
							gl := obs3(lib.Run(l, input(), c06Env(), compopts.Permissive()))
							gr := obs3(lib.Run(rr, input(), c06Env(), compopts.Permissive()))
							r.Eval()
							r.Eval()
							r.State("law|permissive-commutative-" + op)
							r.Nontrivial("permissive", l, gl, gr)
							if gl != gr {
								r.Fail(fmt.Sprintf("law|permissive-commutative-%s|%s(%s)x%s(%s)|%s!=%s", op, a.Val, srcKind(a), b.Val, srcKind(b), normGot(gl), normGot(gr)),
									core.W{"lhs": l, "rhs": rr, "lhs_result": gl, "rhs_result": gr, "compile_option": "Permissive"})
							}
						}
					}
				}},
				{Name: "custom-fn-source", N: 3, Note: "operands produced by a user-registered function", Run: func(i int, r *core.Rec) {
					vals := []struct {
						v system.Collection
						t tv
					}{{system.Collection{system.Boolean(true)}, tT}, {system.Collection{system.Boolean(false)}, tF}, {system.Collection{}, tE}}
					a := vals[i]
					fn := func(in system.Collection) (system.Collection, error) { return a.v, nil }
					for _, b := range vals {
						fb := func(in system.Collection) (system.Collection, error) { return b.v, nil }
						for _, op := range ops {
							src := "fa() " + op.name + " fb()"
							res := lib.Run(src, input(), nil, fhirpath.CompileOption(compopts.AddFunction("fa", fn)), compopts.AddFunction("fb", fb))
							r.Eval()
							got, want := obs3(res), op.ref(a.t, b.t).String()
							r.Nontrivial(src, a.t.String(), b.t.String(), got)
							if got != want {
								r.Fail(fmt.Sprintf("table|%s|%s(customfn)x%s(customfn)|got=%s|want=%s", op.name, a.t, b.t, normGot(got), want), core.W{"src": src, "got": res.String(), "want": want})
							}
						}
					}
				}},
			}...)
		},
	})
}

func srcKind(f boolForm) string {
	for i, c := range f.Name {
		if c == '.' {
			return f.Name[:i]
		}
	}
	return f.Name
}

func normGot(g string) string {
	if len(g) > 8 && g[:8] == "nonbool:" {
		return "nonbool"
	}
	return g
}
