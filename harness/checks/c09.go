package checks

import (
	"errors"
	"fmt"
	"math"
	"math/big"
	"strings"

	"github.com/verily-src/fhirpath-go/fhirpath/system"
	"github.com/verily-src/fhirpath-go/fhirpath/verifh/core"
	"github.com/verily-src/fhirpath-go/fhirpath/verifh/lib"
)

// ---- C09: date/time arithmetic matches calendar arithmetic and preserves precision.

// unit ranks: year 0, month 1, week/day 2, hour 3, minute 4, second 5, millisecond 6
type c09Unit struct {
	text  string // unit as held by the Quantity
	lit   string // literal spelling after the number ("" = not expressible as a keyword)
	rank  int
	mult  int64  // week = 7 days
	class string // keyword | ucum | nontemporal
	canon string // canonical keyword (plural) for ucum equivalents
}

var c09Units = func() []c09Unit {
	var us []c09Unit
	kw := []struct {
		s    string
		rank int
		mult int64
	}{{"year", 0, 1}, {"month", 1, 1}, {"week", 2, 7}, {"day", 2, 1}, {"hour", 3, 1}, {"minute", 4, 1}, {"second", 5, 1}, {"millisecond", 6, 1}}
	for _, k := range kw {
		us = append(us, c09Unit{k.s, k.s, k.rank, k.mult, "keyword", k.s + "s"}, c09Unit{k.s + "s", k.s + "s", k.rank, k.mult, "keyword", k.s + "s"})
	}
	for _, u := range []struct {
		s, canon string
		rank     int
		mult     int64
	}{{"a", "years", 0, 1}, {"mo", "months", 1, 1}, {"wk", "weeks", 2, 7}, {"d", "days", 2, 1}, {"h", "hours", 3, 1}, {"min", "minutes", 4, 1}, {"s", "seconds", 5, 1}, {"ms", "milliseconds", 6, 1}} {
		us = append(us, c09Unit{u.s, "'" + u.s + "'", u.rank, u.mult, "ucum", u.canon})
	}
	us = append(us, c09Unit{"mg", "'mg'", -1, 1, "nontemporal", ""}, c09Unit{"1", "'1'", -1, 1, "nontemporal", ""})
	return us
}()

var c09Amounts = []string{"0", "1", "11", "12", "13", "23", "24", "25", "59", "60", "61", "365", "366", "1000", "1.5", "0.999", "-1", "-13", "20000", "106751", "106752", "110000",
	// ascending (the monotonicity pass reads them in this order); around 2^63 ns counted in hours, seconds, minutes and milliseconds (a duration's span) and around 2^63 / 1000
	"2562047", "2562048", "3000000", "9223372", "9223373", "10000000", "100000000", "153722867", "153722868", "9223372036", "9223372037", "9999999999", "9223372036854", "9223372036855"}

func c09AmountClass(a string) string {
	switch {
	case a == "0":
		return "zero"
	case strings.HasPrefix(a, "-"):
		return "negative"
	case strings.Contains(a, "."):
		return "fractional"
	}
	return "whole"
}

// precision rank of a value on the unit scale
func c09PrecRank(t lib.RefT) int {
	r := t.Prec - 1
	if t.Prec == 6 && t.Frac != "" {
		r = 6
	}
	return r
}

func c09Trunc(r *big.Rat) int64 {
	q := new(big.Int).Quo(r.Num(), r.Denom()) // Quo truncates toward zero
	return q.Int64()
}

// c09Ref is the reference calendar computation of the statement.
// status: "value" | "error" (non-temporal unit) | "out-of-range".
// lossy reports month-end clamping or truncation of the amount (the round-trip law is then not demanded).
func c09Ref(t lib.RefT, sign int, amount string, u c09Unit) (out lib.RefT, status string, lossy bool) {
	if u.rank < 0 {
		return t, "error", false
	}
	amt, _ := new(big.Rat).SetString(amount)
	if sign < 0 {
		amt.Neg(amt)
	}
	pr := c09PrecRank(t)
	// amount as a count of the unit (weeks become days); seconds keep milliseconds
	rank := u.rank
	cnt := new(big.Rat).Set(amt)
	if rank == 5 { // seconds keep their milliseconds; every other unit drops the fraction of the amount itself
		cnt.Mul(cnt, big.NewRat(1000, 1))
		rank = 6
	}
	whole := new(big.Rat).SetInt64(c09Trunc(cnt))
	if whole.Cmp(cnt) != 0 {
		lossy = true
	}
	n := c09Trunc(cnt) * u.mult // 1.5 weeks is 1 week = 7 days
	// convert a unit finer than the value's precision to whole units of that precision
	div := func(d int64) {
		if n%d != 0 {
			lossy = true
		}
		n /= d // Go's integer division truncates toward zero: fractions dropped
	}
	for rank > pr {
		switch rank {
		case 6:
			div(1000)
			rank = 5
		case 5:
			div(60)
			rank = 4
		case 4:
			div(60)
			rank = 3
		case 3:
			div(24)
			rank = 2
		case 2:
			if pr == 0 {
				div(365)
				rank = 0
			} else {
				div(30)
				rank = 1
			}
		case 1:
			div(12)
			rank = 0
		}
	}
	out = t
	clampDay := func() {
		if out.Prec >= 3 {
			if dim := lib.DaysInMonth(out.Y, out.Mo); out.D > dim {
				out.D = dim
				lossy = true
			}
		}
	}
	switch rank {
	case 0:
		out.Y += int(n)
		clampDay()
	case 1:
		if t.Kind == "Time" {
			return t, "coarser-than-time", false
		}
		m := int64(out.Y)*12 + int64(out.Mo-1) + n
		y := m / 12
		mo := m % 12
		if mo < 0 {
			mo += 12
			y--
		}
		out.Y, out.Mo = int(y), int(mo)+1
		clampDay()
	case 2:
		if t.Kind == "Time" {
			return t, "coarser-than-time", false
		}
		out.Y, out.Mo, out.D = lib.CivilFromDays(lib.DaysFromCivil(t.Y, t.Mo, t.D) + n)
	default:
		// hours / minutes / milliseconds on the local clock (a fixed offset has no transitions)
		var per int64
		switch rank {
		case 3:
			per = 3600000
		case 4:
			per = 60000
		case 5:
			per = 1000
		case 6:
			per = 1
		}
		frac := t.Nanos() / 1e6
		ms := int64(t.H)*3600000 + int64(t.Mi)*60000 + int64(t.S)*1000 + frac + n*per
		days := ms / 86400000
		ms %= 86400000
		if ms < 0 {
			ms += 86400000
			days--
		}
		if t.Kind != "Time" {
			out.Y, out.Mo, out.D = lib.CivilFromDays(lib.DaysFromCivil(t.Y, t.Mo, t.D) + days)
		}
		out.H, out.Mi, out.S = int(ms/3600000), int(ms/60000%60), int(ms/1000%60)
		if t.Frac != "" {
			out.Frac = fmt.Sprintf("%03d", ms%1000)
		}
	}
	if t.Kind == "Time" && rank == 0 {
		return t, "coarser-than-time", false
	}
	if t.Kind != "Time" && (out.Y < 1 || out.Y > 9999) {
		return out, "out-of-range", lossy
	}
	return out, "value", lossy
}

type c09Value struct {
	kind  string
	text  string // literal text without '@'
	ref   lib.RefT
	class string // finding-key class: kind.precision[.offset]
}

var c09Offsets = []struct{ name, s string }{{"nooff", ""}, {"Z", "Z"}, {"plus", "+05:30"}, {"minus", "-11:00"}}
var c09Times = []struct{ h, m, s, ms string }{{"00", "00", "00", "000"}, {"12", "30", "15", "250"}, {"23", "59", "59", "999"}}

// c09ValuesFor returns every value anchored at the civil date (y,m,d). Year- and
// month-precision values are generated only on the first day they cover.
func c09ValuesFor(y, m, d int) []c09Value {
	var out []c09Value
	add := func(kind, text, class string) {
		r, ok := lib.ParseRefT(kind, text)
		if !ok {
			panic("c09 value " + kind + " " + text)
		}
		out = append(out, c09Value{kind, text, r, class})
	}
	ds := fmt.Sprintf("%04d-%02d-%02d", y, m, d)
	if m == 1 && d == 1 {
		add("Date", ds[:4], "Date.year")
		add("DateTime", ds[:4]+"T", "DateTime.year")
	}
	if d == 1 {
		add("Date", ds[:7], "Date.month")
		add("DateTime", ds[:7]+"T", "DateTime.month")
	}
	add("Date", ds, "Date.day")
	add("DateTime", ds+"T", "DateTime.day")
	for _, t := range c09Times {
		for _, o := range c09Offsets {
			add("DateTime", ds+"T"+t.h+o.s, "DateTime.hour."+o.name)
			add("DateTime", ds+"T"+t.h+":"+t.m+o.s, "DateTime.minute."+o.name)
			add("DateTime", ds+"T"+t.h+":"+t.m+":"+t.s+o.s, "DateTime.second."+o.name)
			add("DateTime", ds+"T"+t.h+":"+t.m+":"+t.s+"."+t.ms+o.s, "DateTime.ms."+o.name)
		}
	}
	return out
}

func c09TimeValues() []c09Value {
	var out []c09Value
	for _, t := range c09Times {
		for p, text := range []string{"T" + t.h, "T" + t.h + ":" + t.m, "T" + t.h + ":" + t.m + ":" + t.s, "T" + t.h + ":" + t.m + ":" + t.s + "." + t.ms} {
			r, _ := lib.ParseRefT("Time", text)
			out = append(out, c09Value{"Time", text, r, "Time." + []string{"hour", "minute", "second", "ms"}[p]})
		}
	}
	return out
}

// the days explored
func c09Days(tier string) [][3]int {
	var out [][3]int
	if tier == "thorough" {
		for z := lib.DaysFromCivil(2019, 1, 1); z <= lib.DaysFromCivil(2022, 12, 31); z++ {
			y, m, d := lib.CivilFromDays(z)
			out = append(out, [3]int{y, m, d})
		}
	} else {
		for y := 2019; y <= 2022; y++ {
			for m := 1; m <= 12; m++ {
				dim := lib.DaysInMonth(y, m)
				seen := map[int]bool{}
				for _, d := range []int{1, 2, 3, 15, dim - 2, dim - 1, dim, 27, 28} {
					if d >= 1 && d <= dim && !seen[d] {
						seen[d] = true
						out = append(out, [3]int{y, m, d})
					}
				}
			}
		}
	}
	// the year 0001 / 9999 edges and the non-leap century years inside the supported range
	out = append(out, [3]int{1, 1, 1}, [3]int{1, 12, 31}, [3]int{9999, 1, 1}, [3]int{9999, 12, 31}, [3]int{2000, 2, 29}, [3]int{2096, 2, 29}, [3]int{2100, 2, 28}, [3]int{1900, 3, 1}, [3]int{2104, 2, 29})
	return out
}

// apply runs the real system.{Date,DateTime,Time}.{Add,Sub}
func c09Apply(v c09Value, sign int, q system.Quantity) (text string, err error, pi *core.PanicInfo) {
	pi = core.Try(func() {
		switch v.kind {
		case "Date":
			x := system.MustParseDate(v.text)
			var r system.Date
			if sign > 0 {
				r, err = x.Add(q)
			} else {
				r, err = x.Sub(q)
			}
			text = r.String()
		case "DateTime":
			x := system.MustParseDateTime(v.text)
			var r system.DateTime
			if sign > 0 {
				r, err = x.Add(q)
			} else {
				r, err = x.Sub(q)
			}
			text = r.String()
		case "Time":
			x := system.MustParseTime(strings.TrimPrefix(v.text, "T"))
			var r system.Time
			if sign > 0 {
				r, err = x.Add(q)
			} else {
				r, err = x.Sub(q)
			}
			text = "T" + r.String()
		}
	})
	return
}

func c09RelClass(v c09Value, u c09Unit) string {
	if u.rank < 0 {
		return "nontemporal"
	}
	pr := c09PrecRank(v.ref)
	rel := "equal"
	if u.rank < pr {
		rel = "coarser"
	} else if u.rank > pr {
		rel = "finer"
	}
	return u.class + "." + rel
}

// c09BeyondDurationSpan: the amount, in an hour / minute / second / millisecond unit, exceeds what 64-bit nanoseconds hold
func c09BeyondDurationSpan(amount string, u c09Unit) bool {
	ns := map[int]int64{3: 3600e9, 4: 60e9, 5: 1e9, 6: 1e6}[u.rank]
	if ns == 0 {
		return false
	}
	a, ok := new(big.Rat).SetString(amount)
	if !ok {
		return false
	}
	a.Abs(a)
	a.Mul(a, new(big.Rat).SetInt64(ns))
	return a.Cmp(new(big.Rat).SetInt64(math.MaxInt64)) > 0
}

// judge compares one implementation outcome with the reference and returns a discrepancy ("" = fine)
func c09Judge(v c09Value, sign int, amount string, u c09Unit, gotText string, gotErr error, pi *core.PanicInfo) string {
	if pi != nil {
		return pi.Key()
	}
	want, status, _ := c09Ref(v.ref, sign, amount, u)
	switch status {
	case "error":
		if gotErr == nil {
			return "non-temporal-unit-accepted"
		}
		return ""
	case "out-of-range":
		return "" // totality only at the 0001/9999 edges
	case "coarser-than-time":
		if gotErr != nil || gotText == v.ref.Text() {
			return "" // adding whole days to a time of day: an error or the unchanged time are both legitimate
		}
		return "time-changed-by-calendar-unit"
	}
	finer := u.rank > c09PrecRank(v.ref)
	if gotErr != nil && errors.Is(gotErr, system.ErrIntOverflow) && c09BeyondDurationSpan(amount, u) {
		return "" // latitude: a clock amount that does not fit 64-bit nanoseconds (about 292 years) may be refused; it must not wrap
	}
	if gotErr != nil {
		if u.class == "ucum" || finer {
			return "" // latitude: UCUM spellings and units finer than the precision may be rejected instead of converted
		}
		return "error-for-supported-unit"
	}
	if gotText == want.Text() {
		return ""
	}
	got, ok := lib.ParseRefT(v.kind, gotText)
	if !ok {
		return "result-not-a-" + v.kind
	}
	switch {
	case got.Prec != v.ref.Prec || (got.Frac != "") != (v.ref.Frac != ""):
		return "precision-changed"
	case got.OffText != v.ref.OffText:
		return "offset-changed"
	case gotText == v.ref.Text():
		return "silently-unchanged"
	}
	return "value!=calendar"
}

func init() {
	timeVals := c09TimeValues()
	core.Register(&core.Check{
		ID:          "C09",
		Rule:        "start values: the first/last three days, the 15th and the 27th/28th of every month of 2019-2022 (quick) / every day of 2019-2022 (thorough) plus the 0001/9999 edges and the century leap-day cases x every precision (Date 3; DateTime year..millisecond) x offsets {none, Z, +05:30, -11:00} x 3 times of day; Time at 4 precisions x 3 times of day; x 26 units (16 calendar keywords, 8 UCUM spellings, 'mg', '1') x 24 amounts {0,1,11,12,13,23,24,25,59,60,61,365,366,1000,1.5,0.999,-1,-13,20000,106751,106752,110000,3000000,9999999999} (a clock amount beyond 64-bit nanoseconds may be refused with the overflow error, never wrapped) x {+,-}, by direct calls of system.{Date,DateTime,Time}.{Add,Sub}; every (type, precision, unit, op) also through Compile/Evaluate as 'x + q' / 'x - q' with literal and environment-variable operands; compared with an independent proleptic-Gregorian day-count model (no package time); monotonicity and (x+q)-q=x on the implementation's own outputs; Quantity +,- within one unit; distinct by construction (the enumeration is a bijection)",
		Assumptions: []string{"reference model: harness/lib/reftime.go + c09Ref (1 year = 365 days, 1 month = 30 days, fractions dropped, month-end clamping, Time wraps)", "latitude: a UCUM-spelled unit or a unit finer than the value's precision may be answered with an error instead of the converted amount; the 0001/9999 edges are checked for totality only"},
		Subs: func(tier string) []core.Sub {
			days := c09Days(tier)
			return []core.Sub{
				{Name: "date-datetime-direct", N: len(days), Note: fmt.Sprintf("%d days x precisions x offsets x times x 26 units x 18 amounts x 2 ops, direct Add/Sub", len(days)), Run: func(i int, r *core.Rec) {
					d := days[i]
					c09Bulk(r, c09ValuesFor(d[0], d[1], d[2]))
				}},
				{Name: "neighbour-offsets-direct", N: 1, Note: "DateTimes in 11 further offsets (several within one hour of each other and of the grid's offsets) x 26 units x 24 amounts x 2 ops, direct Add/Sub in one process", Run: func(i int, r *core.Rec) {
					c09Bulk(r, c09NeighbourOffsetValues())
				}},
				{Name: "time-direct", N: len(timeVals), Note: "Time at 4 precisions x 3 times of day x 26 units x 18 amounts x 2 ops", Run: func(i int, r *core.Rec) {
					c09Bulk(r, timeVals[i:i+1])
				}},
				{Name: "evaluated", N: len(c09EvalValues()), Note: "every (type, precision, offset) x every unit x {+,-} x 4 amounts through Compile/Evaluate with literal and environment operands", Run: func(i int, r *core.Rec) {
					v := c09EvalValues()[i]
					for _, u := range c09Units {
						for _, amount := range []string{"1", "13", "25", "1.5"} {
							for _, sign := range []int{1, -1} {
								op := "+"
								if sign < 0 {
									op = "-"
								}
								for _, form := range []string{"literal", "env"} {
									var src string
									env := map[string]any{}
									if form == "literal" {
										src = "@" + v.text + " " + op + " " + amount + " " + u.lit
									} else {
										switch v.kind {
										case "Date":
											env["x"] = system.MustParseDate(v.text)
										case "DateTime":
											env["x"] = system.MustParseDateTime(v.text)
										default:
											env["x"] = system.MustParseTime(strings.TrimPrefix(v.text, "T"))
										}
										env["q"] = lib.Qty(amount, u.text)
										src = "%x " + op + " %q"
									}
									res := lib.Run(src, nil, env)
									r.Eval()
									r.State("eval|" + v.class + "|" + c09RelClass(v, u) + "|" + op)
									r.Outcome("eval|" + res.Class())
									r.Nontrivial(src, v.text, amount, u.text, res.String())
									if r.WantSample() {
										r.Sample(core.W{"src": src, "x": v.text, "q": amount + " " + u.text, "got": res.String()})
									}
									var gotText string
									var gotErr error
									if res.CompileErr != nil {
										gotErr = res.CompileErr
									} else if res.Err != nil {
										gotErr = res.Err
									} else if res.Panic == nil {
										if len(res.Coll) != 1 {
											r.Fail(strings.Join([]string{"evaluated", v.class, c09RelClass(v, u), op, "result-" + res.Class()}, "|"), core.W{"src": src, "x": v.text, "q": amount + " " + u.text, "got": res.String()})
											continue
										}
										switch x := res.Coll[0].(type) {
										case system.Date:
											gotText = x.String()
										case system.DateTime:
											gotText = x.String()
										case system.Time:
											gotText = "T" + x.String()
										default:
											gotText = lib.Show(x)
										}
									}
									// the result also has to BE the wrapped / computed value when compared, not only print like it
									if want, st, _ := c09Ref(v.ref, sign, amount, u); st == "value" && gotErr == nil && res.Panic == nil && gotText == want.Text() {
										env["r"] = res.Coll[0]
										cmp := lib.Run("%r = @"+want.Text(), nil, env)
										r.Eval()
										if b, ok := c10Boolean(cmp); !ok || b != "true" {
											r.Fail(strings.Join([]string{"evaluated", v.class, c09RelClass(v, u), op, c09AmountClass(amount), "result-prints-right-but-is-not-equal-to-it"}, "|"), core.W{"src": src, "x": v.text, "q": amount + " " + u.text, "result": gotText, "result = @" + want.Text(): cmp.String()})
										}
									}
									if d := c09Judge(v, sign, amount, u, gotText, gotErr, res.Panic); d != "" {
										want, _, _ := c09Ref(v.ref, sign, amount, u)
										r.Fail(strings.Join([]string{"evaluated", v.class, c09RelClass(v, u), op, c09AmountClass(amount), d}, "|"), core.W{"src": src, "x": v.text, "q": amount + " " + u.text, "got": res.String(), "want": want.Text()})
									}
								}
							}
						}
					}
				}},
				{Name: "chains", N: len(c09EvalValues()), Note: "x op q1 op q2 with two quantity literals of one unit (every keyword unit x 6 amount pairs x 4 operator pairs) written as a chain, with parentheses and in two evaluations: all three equal the reference applied twice (a chain is two steps, not one step by the sum)", Run: func(i int, r *core.Rec) {
					v := c09EvalValues()[i]
					show := func(res lib.Res) string {
						if res.OK() && len(res.Coll) == 1 {
							switch x := res.Coll[0].(type) {
							case system.Date:
								return x.String()
							case system.DateTime:
								return x.String()
							case system.Time:
								return "T" + x.String()
							}
						}
						return res.Class() + ":" + res.String()
					}
					for _, u := range c09Units {
						if u.class != "keyword" {
							continue
						}
						for _, am := range [][2]string{{"1", "1"}, {"2", "2"}, {"12", "12"}, {"30", "30"}, {"1", "2"}, {"500", "500"}} {
							for _, ops := range [][2]int{{1, 1}, {-1, -1}, {1, -1}, {-1, 1}} {
								opS := func(k int) string {
									if k < 0 {
										return "-"
									}
									return "+"
								}
								q1, q2 := am[0]+" "+u.lit, am[1]+" "+u.lit
								chain := lib.Run("@"+v.text+" "+opS(ops[0])+" "+q1+" "+opS(ops[1])+" "+q2, nil, nil)
								paren := lib.Run("(@"+v.text+" "+opS(ops[0])+" "+q1+") "+opS(ops[1])+" "+q2, nil, nil)
								r.Eval()
								r.Eval()
								r.State("chain|" + v.class + "|" + c09RelClass(v, u) + "|" + opS(ops[0]) + opS(ops[1]))
								r.Nontrivial(chain.Src, show(chain))
								key := func(d string) string {
									return strings.Join([]string{"chain", v.class, c09RelClass(v, u), opS(ops[0]) + opS(ops[1]), d}, "|")
								}
								if show(chain) != show(paren) {
									r.Fail(key("chain!=parenthesised"), core.W{"chain": chain.Src, "chain_result": show(chain), "parenthesised": paren.Src, "parenthesised_result": show(paren)})
									continue
								}
								// reference: two steps
								mid, st1, _ := c09Ref(v.ref, ops[0], am[0], u)
								if st1 != "value" {
									continue
								}
								want, st2, _ := c09Ref(mid, ops[1], am[1], u)
								if st2 != "value" {
									continue
								}
								if chain.OK() && show(chain) != want.Text() {
									r.Fail(key("value!=two-reference-steps"), core.W{"chain": chain.Src, "got": show(chain), "want": want.Text(), "after_first_step": mid.Text()})
								}
							}
						}
					}
				}},
				{Name: "quantity-arithmetic", N: 1, Note: "all ordered pairs of a quantity pool x {+,-}: only within one unit", Run: func(i int, r *core.Rec) {
					pool := []struct{ n, u string }{{"1", "mg"}, {"2.5", "mg"}, {"1", "kg"}, {"3", "days"}, {"1", "day"}, {"1", "week"}, {"7", "days"}, {"1", "1"}, {"0", "mg"}, {"-1", "mg"},
						// units that differ only in letter case, only by a trailing s, or by a prefix: different units all the same
						{"1", "Mg"}, {"1", "ms"}, {"1", "m"}, {"1", "Ms"}, {"1", "Pa"}, {"1", "pa"}, {"1", "Day"}, {"1", "g"}, {"1", "mm"}, {"1", "mms"}}
					for _, a := range pool {
						for _, b := range pool {
							for _, op := range []string{"+", "-"} {
								res := lib.Run("%a "+op+" %b", nil, map[string]any{"a": lib.Qty(a.n, a.u), "b": lib.Qty(b.n, b.u)})
								r.Eval()
								r.State("qty|" + fmt.Sprint(a.u == b.u))
								r.Nontrivial(a.n, a.u, op, b.n, b.u, res.String())
								r.Sample(core.W{"a": a.n + " " + a.u, "b": b.n + " " + b.u, "op": op, "got": res.String()})
								w := core.W{"a": a.n + " " + a.u, "b": b.n + " " + b.u, "op": op, "got": res.String()}
								if res.Panic != nil {
									r.Fail("quantity|"+res.Panic.Key(), w)
									continue
								}
								if a.u != b.u {
									if res.OK() && len(res.Coll) > 0 {
										r.Fail("quantity|different-units-combined|"+op, w)
									}
									continue
								}
								ra, _ := new(big.Rat).SetString(a.n)
								rb, _ := new(big.Rat).SetString(b.n)
								if op == "+" {
									ra.Add(ra, rb)
								} else {
									ra.Sub(ra, rb)
								}
								ok := res.OK() && len(res.Coll) == 1
								if ok {
									q, isQ := res.Coll[0].(system.Quantity)
									ok = isQ
									if isQ {
										parts := strings.SplitN(q.String(), " ", 2)
										gv, okv := new(big.Rat).SetString(parts[0])
										ok = okv && gv.Cmp(ra) == 0 && len(parts) == 2 && parts[1] == a.u
									}
								}
								if !ok {
									r.Fail("quantity|same-unit-wrong-result|"+op, w)
								}
							}
						}
					}
				}},
			}
		},
	})
}

func c09EvalValues() []c09Value {
	vs := c09ValuesFor(2020, 1, 1)
	vs = append(vs, c09ValuesFor(2020, 1, 31)...)
	vs = append(vs, c09TimeValues()...)
	vs = append(vs, c09NeighbourOffsetValues()...)
	return vs
}

// offsets that share their hour with another offset of the grid or with each other (+05:30 / +05:00 / +05:45,
// -11:00 / -11:30, -03:00 / -03:30), sub-hour offsets around UTC and the extremes
var c09NeighbourOffsets = []string{"+05:00", "+05:45", "-11:30", "-03:00", "-03:30", "+00:30", "-00:30", "+14:00", "-12:00", "+09:30", "+09:00"}

func c09NeighbourOffsetValues() []c09Value {
	var out []c09Value
	for _, day := range []string{"2020-01-31", "2020-03-30"} {
		for _, o := range c09NeighbourOffsets {
			for _, f := range []struct{ text, class string }{{day + "T10:00:00" + o, "DateTime.second.neighbour-offset"}, {day + "T23:45" + o, "DateTime.minute.neighbour-offset"}, {day + "T00:15:30.250" + o, "DateTime.ms.neighbour-offset"}} {
				r, ok := lib.ParseRefT("DateTime", f.text)
				if !ok {
					panic("c09 neighbour offset value " + f.text)
				}
				out = append(out, c09Value{"DateTime", f.text, r, f.class})
			}
		}
	}
	return out
}

// c09Bulk runs the full units x amounts x ops grid on the values by direct calls.
func c09Bulk(r *core.Rec, vals []c09Value) {
	for _, v := range vals {
		for _, u := range c09Units {
			rel := c09RelClass(v, u)
			for _, sign := range []int{1, -1} {
				op := "+"
				if sign < 0 {
					op = "-"
				}
				r.State("direct|" + v.class + "|" + rel + "|" + op)
				type outc struct {
					amount string
					text   string
					ok     bool
				}
				var outs []outc
				for _, amount := range c09Amounts {
					q := lib.Qty(amount, u.text) // built without the repository's constructor
					text, gerr, pi := c09Apply(v, sign, q)
					r.Eval()
					if r.WantSample() {
						r.Sample(core.W{"x": v.text, "op": op, "q": amount + " " + u.text, "got": text, "err": fmt.Sprint(gerr)})
					}
					outs = append(outs, outc{amount, text, gerr == nil && pi == nil})
					if d := c09Judge(v, sign, amount, u, text, gerr, pi); d != "" {
						want, _, _ := c09Ref(v.ref, sign, amount, u)
						r.Outcome(d)
						r.Fail(strings.Join([]string{"direct", v.class, rel, op, c09AmountClass(amount), d}, "|"), core.W{"x": v.text, "op": op, "q": amount + " " + u.text, "got": text, "err": fmt.Sprint(gerr), "want": want.Text()})
						continue
					}
					r.Outcome("agrees")
					// (x op q) inverse-op q = x whenever the model reports no clamping or truncation
					if _, st, lossy := c09Ref(v.ref, sign, amount, u); st == "value" && !lossy && gerr == nil && pi == nil && v.kind != "Time" {
						mid := c09Value{v.kind, text, lib.RefT{}, v.class}
						if mr, ok := lib.ParseRefT(v.kind, text); ok {
							mid.ref = mr
							back, berr, bpi := c09Apply(mid, -sign, q)
							r.Eval()
							if bpi != nil || berr != nil || back != v.ref.Text() {
								r.Fail(strings.Join([]string{"direct", v.class, rel, op, c09AmountClass(amount), "round-trip-(x op q) inverse q != x"}, "|"), core.W{"x": v.text, "op": op, "q": amount + " " + u.text, "x op q": text, "back": back, "err": fmt.Sprint(berr)})
							}
						}
					}
				}
				// monotone in the amount (non-negative whole amounts in ascending order), Date/DateTime only
				if v.kind != "Time" && u.rank >= 0 {
					var prev *lib.RefT
					prevAmt := ""
					for _, o := range outs {
						if !o.ok || strings.ContainsAny(o.amount, ".-") {
							continue
						}
						cur, ok := lib.ParseRefT(v.kind, o.text)
						if !ok {
							continue
						}
						if prev != nil {
							c, def, _ := lib.CompareRefT(*prev, cur)
							if def && ((sign > 0 && c > 0) || (sign < 0 && c < 0)) {
								r.Fail(strings.Join([]string{"direct", v.class, rel, op, "not-monotone-in-amount"}, "|"), core.W{"x": v.text, "op": op, "unit": u.text, "amounts": prevAmt + " then " + o.amount, "results": prev.Text() + " then " + cur.Text()})
								break
							}
						}
						cc := cur
						prev, prevAmt = &cc, o.amount
					}
				}
			}
		}
		r.NontrivialByConstruction(int64(len(c09Units) * len(c09Amounts) * 2))
	}
}
