package checks

import (
	"fmt"
	"strings"

	"github.com/verily-src/fhirpath-go/fhirpath/patch"
	"github.com/verily-src/fhirpath-go/fhirpath/system"
	"github.com/verily-src/fhirpath-go/fhirpath/verifh/core"
	"github.com/verily-src/fhirpath-go/fhirpath/verifh/lib"
	"github.com/verily-src/fhirpath-go/internal/fhir"
)

// ---- C11: parsing respects FHIRPath precedence, associativity and token boundaries.

// precedence levels of the FHIRPath grammar, tightest first (the harness's own copy of the table)
const (
	lvTerm = iota
	lvInvocation
	lvIndexer
	lvPolarity
	lvMul
	lvAdd
	lvType
	lvUnion
	lvIneq
	lvEq
	lvMember
	lvAnd
	lvOr
	lvImplies
)

type c11Kind struct {
	name  string
	shape string // bin | pre | post | idx | fn1 | fn3
	toks  []string
	level int
}

var c11Bin = []c11Kind{
	{"*", "bin", []string{"*"}, lvMul}, {"/", "bin", []string{"/"}, lvMul}, {"div", "bin", []string{"div"}, lvMul}, {"mod", "bin", []string{"mod"}, lvMul},
	{"+", "bin", []string{"+"}, lvAdd}, {"-", "bin", []string{"-"}, lvAdd}, {"&", "bin", []string{"&"}, lvAdd},
	{"|", "bin", []string{"|"}, lvUnion},
	{"<", "bin", []string{"<"}, lvIneq}, {"<=", "bin", []string{"<="}, lvIneq}, {">", "bin", []string{">"}, lvIneq}, {">=", "bin", []string{">="}, lvIneq},
	{"=", "bin", []string{"="}, lvEq}, {"!=", "bin", []string{"!="}, lvEq}, {"~", "bin", []string{"~"}, lvEq}, {"!~", "bin", []string{"!~"}, lvEq},
	{"in", "bin", []string{"in"}, lvMember}, {"contains", "bin", []string{"contains"}, lvMember},
	{"and", "bin", []string{"and"}, lvAnd},
	{"or", "bin", []string{"or"}, lvOr}, {"xor", "bin", []string{"xor"}, lvOr},
	{"implies", "bin", []string{"implies"}, lvImplies},
}

var c11Other = []c11Kind{
	{"neg", "pre", []string{"-"}, lvPolarity}, {"pos", "pre", []string{"+"}, lvPolarity},
	{".count()", "post", []string{".", "count", "(", ")"}, lvInvocation},
	{".given", "post", []string{".", "given"}, lvInvocation},
	{".Patient", "post", []string{".", "Patient"}, lvInvocation},
	{".div", "post", []string{".", "div"}, lvInvocation},     // member steps spelled like keywords: rejected by the grammar
	{".day", "post", []string{".", "day"}, lvInvocation},     // in every rendering and under every decoration alike
	{".`div`", "post", []string{".", "`div`"}, lvInvocation}, // the delimited spelling is a member step
	{".not()", "post", []string{".", "not", "(", ")"}, lvInvocation},
	{"is", "post", []string{"is", "Integer"}, lvType},
	{"as", "post", []string{"as", "System", ".", "String"}, lvType},
	{"[]", "idx", nil, lvIndexer},
	{".where()", "fn1", []string{"where"}, lvInvocation},
	{".select()", "fn1", []string{"select"}, lvInvocation},
	{"iif()", "fn3", []string{"iif"}, lvTerm},
}

// one representative per precedence level, for the deeper (thorough) enumeration
var c11Reduced = []string{"*", "+", "&", "|", "<", "=", "in", "and", "or", "implies", "neg", ".count()", "is", "[]", ".where()"}

type c11Node struct {
	k    *c11Kind
	kids []*c11Node
	leaf string
}

func (n *c11Node) level() int {
	if n.k == nil {
		return lvTerm
	}
	return n.k.level
}

// c11Gen returns all trees with exactly n operator nodes over the kinds (leaves unassigned).
func c11Gen(n int, kinds []*c11Kind, memo map[int][]*c11Node) []*c11Node {
	if t, ok := memo[n]; ok {
		return t
	}
	var out []*c11Node
	if n == 0 {
		out = []*c11Node{{}}
		memo[0] = out
		return out
	}
	for _, k := range kinds {
		switch k.shape {
		case "pre", "post":
			for _, c := range c11Gen(n-1, kinds, memo) {
				out = append(out, &c11Node{k: k, kids: []*c11Node{c}})
			}
		case "bin", "idx", "fn1":
			for a := 0; a <= n-1; a++ {
				for _, l := range c11Gen(a, kinds, memo) {
					for _, r := range c11Gen(n-1-a, kinds, memo) {
						out = append(out, &c11Node{k: k, kids: []*c11Node{l, r}})
					}
				}
			}
		case "fn3":
			for a := 0; a <= n-1; a++ {
				for b := 0; a+b <= n-1; b++ {
					for _, x := range c11Gen(a, kinds, memo) {
						for _, y := range c11Gen(b, kinds, memo) {
							for _, z := range c11Gen(n-1-a-b, kinds, memo) {
								out = append(out, &c11Node{k: k, kids: []*c11Node{x, y, z}})
							}
						}
					}
				}
			}
		}
	}
	memo[n] = out
	return out
}

var c11Leaves = []string{"1", "'a'", "%v", "true", "name", "2.5", "Patient", "$this", "{}", "1 'mg'", "@2020-01-01", "exists()", "2147483648", "0", "%ext", "id", "%vsn"}

// render returns the token list of the tree. full=true parenthesises every
// non-leaf sub-expression; full=false uses the fewest parentheses the
// precedence table (left associative) allows. leafNo rotates through the leaves.
func c11Render(n *c11Node, full bool, leafNo *int) []string {
	if n.k == nil {
		if n.leaf == "" {
			l := c11Leaves[*leafNo%len(c11Leaves)]
			*leafNo++
			return c11LeafTokens(l)
		}
		return c11LeafTokens(n.leaf)
	}
	wrap := func(c *c11Node, need bool) []string {
		t := c11Render(c, full, leafNo)
		if c.k != nil && (full || need) || c.k == nil && full && c11WrapLeaves {
			return append(append([]string{"("}, t...), ")")
		}
		return t
	}
	var out []string
	switch n.k.shape {
	case "bin":
		out = append(out, wrap(n.kids[0], n.kids[0].level() > n.k.level)...)
		out = append(out, n.k.toks...)
		out = append(out, wrap(n.kids[1], n.kids[1].level() >= n.k.level)...)
	case "pre":
		out = append(out, n.k.toks...)
		out = append(out, wrap(n.kids[0], n.kids[0].level() > lvPolarity)...)
	case "post":
		lim := n.k.level
		if lim == lvInvocation {
			lim = lvIndexer // a[0].b chains without parentheses
		}
		out = append(out, wrap(n.kids[0], n.kids[0].level() > lim)...)
		out = append(out, n.k.toks...)
	case "idx":
		out = append(out, wrap(n.kids[0], n.kids[0].level() > lvIndexer)...)
		out = append(out, "[")
		out = append(out, wrap(n.kids[1], false)...)
		out = append(out, "]")
	case "fn1":
		out = append(out, wrap(n.kids[0], n.kids[0].level() > lvIndexer)...)
		out = append(out, ".", n.k.toks[0], "(")
		out = append(out, wrap(n.kids[1], false)...)
		out = append(out, ")")
	case "fn3":
		out = append(out, n.k.toks[0], "(")
		for i, c := range n.kids {
			if i > 0 {
				out = append(out, ",")
			}
			out = append(out, wrap(c, false)...)
		}
		out = append(out, ")")
	}
	return out
}

// c11WrapLeaves makes the full rendering parenthesise the leaves (terms) as well.
var c11WrapLeaves bool

// nesting constructs for the deep-nesting sub-space: build(d, wrap) nests the construct d times; every
// sub-expression is additionally wrapped in `wrap` redundant pairs of parentheses
type c11Chain struct {
	name  string
	build func(d, wrap int) string
}

func c11Paren(s string, wrap int) string {
	return strings.Repeat("(", wrap) + s + strings.Repeat(")", wrap)
}

var c11Chains = []c11Chain{
	{"iif-in-criterion", func(d, w int) string {
		s := c11Paren("true", w)
		for k := 0; k < d; k++ {
			s = c11Paren("iif("+s+", "+c11Paren("true", w)+", "+c11Paren("false", w)+")", w)
		}
		return s
	}},
	{"where-in-where", func(d, w int) string {
		s := c11Paren("true", w)
		for k := 0; k < d; k++ {
			s = c11Paren("$this.where("+s+").exists()", w)
		}
		return "Patient.name.where(" + s + ").count()"
	}},
	{"select-in-select", func(d, w int) string {
		s := c11Paren("$this", w)
		for k := 0; k < d; k++ {
			s = c11Paren("$this.select("+s+")", w)
		}
		return "Patient.name.given.select(" + s + ").count()"
	}},
	{"right-nested-plus", func(d, w int) string {
		s := c11Paren("1", w)
		for k := 0; k < d; k++ {
			s = c11Paren("1 + "+c11Paren(s, 1), w)
		}
		return s
	}},
	{"left-nested-and", func(d, w int) string {
		s := c11Paren("true", w)
		for k := 0; k < d; k++ {
			s = c11Paren(c11Paren(s, 1)+" and true", w)
		}
		return s
	}},
	{"polarity", func(d, w int) string {
		s := c11Paren("1", w)
		for k := 0; k < d; k++ {
			s = c11Paren("-"+c11Paren(s, 1), w)
		}
		return s
	}},
	{"indexer-in-indexer", func(d, w int) string {
		s := c11Paren("0", w)
		for k := 0; k < d; k++ {
			s = c11Paren("Patient.name["+s+"].given.count() - 2", w)
		}
		return "Patient.name[" + s + "].family"
	}},
	{"function-chain", func(d, w int) string {
		s := c11Paren("Patient.name", w)
		for k := 0; k < d; k++ {
			s = c11Paren(s+".first()", w)
		}
		return s + ".family"
	}},
}

func c11LeafTokens(l string) []string {
	switch l {
	case "{}":
		return []string{"{", "}"}
	case "1 'mg'":
		return []string{"1", "'mg'"}
	case "exists()":
		return []string{"exists", "(", ")"}
	}
	return []string{l}
}

func c11Word(b byte) bool {
	return b == '_' || b >= '0' && b <= '9' || b >= 'a' && b <= 'z' || b >= 'A' && b <= 'Z'
}

// separable reports whether tokens a and b can be written without anything between them.
func c11Separable(a, b string) bool {
	x, y := a[len(a)-1], b[0]
	if (c11Word(x) || x == '\'') && (c11Word(y) || y == '\'' || y == '@' || y == '%' || y == '$') {
		return false
	}
	switch string([]byte{x, y}) {
	case "//", "/*", "<=", ">=", "!=", "!~", "*/":
		return false
	}
	if x >= '0' && x <= '9' && y == '.' || x == '.' && y >= '0' && y <= '9' {
		return false // 1 . 5 must not become the number 1.5; "1." + identifier is kept apart as well
	}
	if strings.HasPrefix(a, "@") && (y == '-' || y == '+' || y == '.' || y == ':' || c11Word(y)) {
		return false // a date literal must not absorb what follows
	}
	return true
}

func c11Join(toks []string, sep func(i int) string) string {
	var sb strings.Builder
	for i, t := range toks {
		if i > 0 {
			sb.WriteString(sep(i))
		}
		sb.WriteString(t)
	}
	return sb.String()
}

type c11Out struct {
	ok   bool
	ast  string
	str  string
	evs  []string
	desc string
	pan  *core.PanicInfo
}

func c11Compile(r *core.Rec, src string, eval bool) c11Out {
	res := lib.Compile(src)
	r.Eval()
	o := c11Out{}
	if res.Panic != nil {
		o.pan, o.desc = res.Panic, res.String()
		return o
	}
	if res.CompileErr != nil {
		o.desc = res.String()
		return o
	}
	o.ok = true
	o.ast = lib.DumpAST(res.Expr)
	o.str = res.Expr.String()
	if eval {
		for _, in := range [][]fhir.Resource{{lib.Patient()}, nil} {
			ev := lib.EvalOpts(res, in, lib.EnvOpts(map[string]any{"v": system.Integer(3), "ext": system.Integer(10), "vsn": system.Integer(4)})...)
			r.Eval()
			if ev.Panic != nil {
				o.pan = ev.Panic
			}
			s := ev.String()
			if ev.Err != nil {
				s = "ERROR" // error texts may mention the source position; the class is compared
			}
			o.evs = append(o.evs, s)
		}
	}
	return o
}

func c11Shape(n *c11Node) string {
	if n.k == nil {
		return "_"
	}
	parts := make([]string, len(n.kids))
	for i, c := range n.kids {
		parts[i] = c11Shape(c)
	}
	return n.k.name + "(" + strings.Join(parts, ",") + ")"
}

// levels of the operator nodes on the path pattern, used as abstract state
func c11Levels(n *c11Node) string {
	if n.k == nil {
		return ""
	}
	s := fmt.Sprint(n.k.level)
	for i, c := range n.kids {
		if c.k != nil {
			s += fmt.Sprintf("[%d:%s]", i, c11Levels(c))
		}
	}
	return s
}

var c11TrailTokens = []string{"1", "2.5", "'a'", "x", "Patient", "true", "$this", "$index", "%v", "@2020", "@T10:00", "{", "}", "(", ")", "[", "]", ".", ",", "+", "-", "*", "/", "&", "|", "=", "!=", "<", "and", "or", "is", "as", "in", "contains", "div", "day", "days", "'", "\\", "`", "`x`", "/*", "*/", "// c", "/* c */", ";", "#", "!", "?", ":", "\x00", "é"}

type c11Trees struct {
	all     []*c11Node
	small   []*c11Node // <= 2 operator nodes
	kindsBy map[string]*c11Kind
}

var c11Cache = map[string]*c11Trees{}

func c11Build(tier string) *c11Trees {
	if t, ok := c11Cache[tier]; ok {
		return t
	}
	t := &c11Trees{kindsBy: map[string]*c11Kind{}}
	var kinds []*c11Kind
	for i := range c11Bin {
		kinds = append(kinds, &c11Bin[i])
	}
	for i := range c11Other {
		kinds = append(kinds, &c11Other[i])
	}
	for _, k := range kinds {
		t.kindsBy[k.name] = k
	}
	memo := map[int][]*c11Node{}
	for n := 0; n <= 3; n++ {
		g := c11Gen(n, kinds, memo)
		t.all = append(t.all, g...)
		if n <= 2 {
			t.small = append(t.small, g...)
		}
	}
	if tier == "thorough" {
		var red []*c11Kind
		for _, nm := range c11Reduced {
			red = append(red, t.kindsBy[nm])
		}
		t.all = append(t.all, c11Gen(4, red, map[int][]*c11Node{})...)
	}
	c11Cache[tier] = t
	return t
}

func init() {
	decorations := []struct{ name, s string }{{"space", " "}, {"newline", "\n"}, {"tab", "\t"}, {"block-comment", "/* c */"}, {"line-comment", "// c\n"}, {"nothing", ""},
		// the text of a comment is not source: brackets, quotes and comment openers inside it mean nothing
		{"block-comment-brackets", "/* :-) ] { */"}, {"block-comment-open-bracket", "/* ( [ */"}, {"line-comment-brackets", "// (see [1}\n"}, {"block-comment-quote", "/* it's `x */"}, {"block-comment-slashes", "/* // */"}, {"line-comment-crlf", "// c\r\n"},
		// characters of more than one byte before a token: positions in the source are positions of characters
		{"block-comment-nonascii", "/* prénoms § 4.1 😀 */"}, {"line-comment-nonascii", "// é€\n"}}
	// a line comment may also end with the source
	eofDecorations := []struct{ name, s string }{{"line-comment-at-eof", "// c"}, {"empty-line-comment-at-eof", "//"}, {"line-comment-cr-at-eof", "// c\r"}, {"line-comment-brackets-at-eof", " // )"}}
	core.Register(&core.Check{
		ID:          "C11",
		Rule:        "all expression trees with <=3 operator nodes over 22 binary operator tokens (all 13 precedence levels), polarity, invocation, indexer, is/as, function-argument and parenthesised positions (quick; thorough adds all trees with 4 operator nodes over one representative per level); leaves rotate through 17 leaf terms (incl. the out-of-range number 2147483648), trees with <=2 nodes with every rotation; each tree is rendered minimally parenthesised (harness's own precedence table), fully parenthesised, and fully parenthesised including the leaf terms: both compile or both fail, identical AST dumps, identical evaluation on 2 inputs; all trees with <=2 nodes x 6 token-gap decorations applied to all gaps and to each single gap; x 52 trailing tokens; Expression.String(); deep nesting (8 constructs x depth 1..12 / 1..30 with 0, 1, 2, 4 redundant pairs of parentheses around every sub-expression: same acceptance and evaluation); an operand-order table evaluated against hand-written results; non-trivial = distinct (tree, rendering, outcome)",
		Assumptions: []string{"the precedence table (13 levels, left associative) in checks/c11.go was transcribed from the FHIRPath N1 grammar", "AST equality is judged on the reflective dump of the private expression tree including implementation function names"},
		Subs: func(tier string) []core.Sub {
			tr := c11Build(tier)
			return []core.Sub{
				{Name: "renderings", N: len(tr.all), Note: fmt.Sprintf("%d trees; minimal vs full parenthesisation", len(tr.all)), Run: func(i int, r *core.Rec) {
					t := tr.all[i]
					// trees with <=2 operator nodes are rendered with every rotation of the leaf list, larger ones with the first
					offsets := 1
					if i < len(tr.small) {
						offsets = len(c11Leaves)
					}
					one := func(off int) {
						a, b := off, off
						minT, fullT := c11Render(t, false, &a), c11Render(t, true, &b)
						sp := func(int) string { return " " }
						minS, fullS := c11Join(minT, sp), c11Join(fullT, sp)
						m, f := c11Compile(r, minS, true), c11Compile(r, fullS, true)
						r.State("levels|" + c11Levels(t))
						r.Outcome(fmt.Sprintf("%v|%v", m.ok, f.ok))
						r.Nontrivial(minS, fmt.Sprint(m.ok), m.ast)
						if r.WantSample() {
							r.Sample(core.W{"tree": c11Shape(t), "minimal": minS, "full": fullS, "compiles": m.ok})
						}
						w := core.W{"tree": c11Shape(t), "minimal": minS, "full": fullS, "minimal_outcome": m.desc, "full_outcome": f.desc}
						if m.pan != nil || f.pan != nil {
							p := m.pan
							if p == nil {
								p = f.pan
							}
							r.Fail("renderings|"+p.Key(), w)
							return
						}
						if m.ok != f.ok {
							r.Fail(fmt.Sprintf("renderings|only-one-compiles|root=%s|minimal=%v", t.k.name, m.ok), w)
							return
						}
						if !m.ok {
							return
						}
						if m.ast != f.ast {
							w["minimal_ast"], w["full_ast"] = core.Short(m.ast, 600), core.Short(f.ast, 600)
							r.Fail("renderings|ast-differs|levels="+c11Levels(t), w)
						}
						if strings.Join(m.evs, "\x00") != strings.Join(f.evs, "\x00") {
							w["minimal_eval"], w["full_eval"] = m.evs, f.evs
							r.Fail("renderings|evaluation-differs|levels="+c11Levels(t), w)
						}
						// third rendering: the leaves (terms) parenthesised as well
						c := off
						c11WrapLeaves = true
						leafS := c11Join(c11Render(t, true, &c), sp)
						c11WrapLeaves = false
						l := c11Compile(r, leafS, true)
						w["full_with_leaves"], w["full_with_leaves_outcome"] = leafS, l.desc
						if l.pan != nil {
							r.Fail("renderings|"+l.pan.Key(), w)
						} else if l.ok != m.ok {
							r.Fail(fmt.Sprintf("renderings|only-one-compiles|root=%s|leaves-parenthesised=%v", t.k.name, l.ok), w)
						} else if strings.Join(m.evs, "\x00") != strings.Join(l.evs, "\x00") {
							w["minimal_eval"], w["full_with_leaves_eval"] = m.evs, l.evs
							r.Fail("renderings|evaluation-differs-with-parenthesised-leaves|levels="+c11Levels(t), w)
						}
						if m.str != minS || f.str != fullS {
							r.Fail("string()-is-not-the-source", core.W{"source": minS, "String()": m.str})
						}
						// patch.Compile accepts exactly the same sources
						var perr error
						pi := core.Try(func() { _, perr = patch.Compile(minS) })
						r.Eval()
						if pi != nil {
							r.Fail("patch.Compile|"+pi.Key(), w)
						} else if perr != nil {
							r.Fail("patch.Compile-rejects-what-Compile-accepts|root="+t.k.name, core.W{"src": minS, "err": perr.Error()})
						}
					}
					for off := 0; off < offsets; off++ {
						one(off)
					}
				}},
				{Name: "decorations", N: len(tr.small), Note: "trees with <=2 operator nodes x 4 leaf assignments x 12 decorations (white space, comments, comments whose text holds brackets, quotes and comment openers) x (all gaps | each single gap | before the first / after the last token) + 4 comments that end with the source", Run: func(i int, r *core.Rec) {
					t := tr.small[i]
					// four leaf assignments: starting at the literal 1, at the element name, at the resource type name, at an external constant followed by an element name
					for _, off := range []int{0, 4, 6, 14} {
						off := off
						func() {
							a := off
							toks := c11Render(t, false, &a)
							base := c11Compile(r, c11Join(toks, func(int) string { return " " }), false)
							if base.pan != nil {
								return // reported by the renderings sub-space
							}
							for _, d := range decorations {
								gapText := func(g int) string {
									if d.s == "" && !c11Separable(toks[g-1], toks[g]) {
										return " "
									}
									if strings.HasPrefix(d.s, "/") && strings.HasSuffix(toks[g-1], "/") {
										return " " + d.s // '/' followed by a comment opener would itself read as '//'
									}
									return d.s
								}
								variants := []func(int) string{gapText} // all gaps
								for g := 1; g < len(toks); g++ {
									g := g
									variants = append(variants, func(j int) string {
										if j == g {
											return gapText(j)
										}
										return " "
									})
								}
								for vi, v := range variants {
									src := c11Join(toks, v)
									o := c11Compile(r, src, false)
									mode := "single-gap"
									if vi == 0 {
										mode = "all-gaps"
									}
									r.State("decoration|" + d.name + "|" + mode)
									r.Outcome(fmt.Sprintf("%s|%v", d.name, o.ok))
									r.Nontrivial(src, fmt.Sprint(o.ok))
									if r.WantSample() {
										r.Sample(core.W{"source": src, "decoration": d.name, "compiles": o.ok})
									}
									w := core.W{"tree": c11Shape(t), "source": src, "decoration": d.name, "mode": mode, "plain_outcome": base.desc, "decorated_outcome": o.desc}
									if o.pan != nil {
										r.Fail("decoration|"+d.name+"|"+o.pan.Key(), w)
										continue
									}
									if o.ok != base.ok {
										r.Fail(fmt.Sprintf("decoration|%s|%s|changes-acceptance|plain=%v", d.name, mode, base.ok), w)
										continue
									}
									if o.ok && o.ast != base.ast {
										r.Fail(fmt.Sprintf("decoration|%s|%s|ast-differs", d.name, mode), w)
									}
									if o.ok && o.str != src {
										r.Fail("string()-is-not-the-source", core.W{"source": src, "String()": o.str})
									}
								}
								// the same decoration before the first and after the last token
								if d.s != "" {
									plain := c11Join(toks, func(int) string { return " " })
									edges := []struct{ name, src string }{{"leading", d.s + plain}, {"trailing", plain + d.s}, {"both", d.s + plain + d.s}}
									if d.name == "space" { // once per tree: the comments that end with the source
										for _, e := range eofDecorations {
											edges = append(edges, struct{ name, src string }{e.name, plain + e.s}, struct{ name, src string }{e.name + "-after-newline", plain + "\n" + e.s})
										}
									}
									for _, edge := range edges {
										o := c11Compile(r, edge.src, false)
										r.State("decoration|" + d.name + "|edge-" + edge.name)
										r.Nontrivial(edge.src, fmt.Sprint(o.ok))
										w := core.W{"tree": c11Shape(t), "source": edge.src, "decoration": d.name, "mode": "edge-" + edge.name, "plain_outcome": base.desc, "decorated_outcome": o.desc}
										if o.pan != nil {
											r.Fail("decoration|"+d.name+"|"+o.pan.Key(), w)
											continue
										}
										if o.ok != base.ok {
											r.Fail(fmt.Sprintf("decoration|%s|edge-%s|changes-acceptance|plain=%v", d.name, edge.name, base.ok), w)
											continue
										}
										if o.ok && o.ast != base.ast {
											r.Fail(fmt.Sprintf("decoration|%s|edge-%s|ast-differs", d.name, edge.name), w)
										}
										if o.ok && o.str != edge.src {
											r.Fail("string()-is-not-the-source|edge-"+edge.name, core.W{"source": edge.src, "String()": o.str})
										}
									}
								}
							}
						}()
					}
				}},
				{Name: "deep-nesting", N: len(c11Chains), Note: "8 nesting constructs x depth 1..12 (quick) / 1..30 (thorough) x {minimal, every sub-expression wrapped in 1, 2 or 4 redundant pairs of parentheses}: same acceptance, same evaluation", Run: func(i int, r *core.Rec) {
					ch := c11Chains[i]
					maxD := 12
					if tier == "thorough" {
						maxD = 30
					}
					for d := 1; d <= maxD; d++ {
						var base c11Out
						var baseSrc string
						for _, wrap := range []int{0, 1, 2, 4} {
							src := ch.build(d, wrap)
							o := c11Compile(r, src, true)
							r.State(fmt.Sprintf("deep|%s|wrap=%d", ch.name, wrap))
							r.Nontrivial(ch.name, fmt.Sprint(d), fmt.Sprint(wrap), fmt.Sprint(o.ok))
							w := core.W{"construct": ch.name, "depth": d, "redundant_parentheses": wrap, "source": core.Short(src, 400), "outcome": core.Short(o.desc, 200)}
							if o.pan != nil {
								r.Fail("deep-nesting|"+ch.name+"|"+o.pan.Key(), w)
								break
							}
							if wrap == 0 {
								base, baseSrc = o, src
								continue
							}
							w["minimal_source"], w["minimal_outcome"] = core.Short(baseSrc, 400), core.Short(base.desc, 200)
							if o.ok != base.ok {
								r.Fail(fmt.Sprintf("deep-nesting|%s|only-one-rendering-compiles|minimal=%v", ch.name, base.ok), w)
								break
							}
							if o.ok && strings.Join(o.evs, "\x00") != strings.Join(base.evs, "\x00") {
								r.Fail("deep-nesting|"+ch.name+"|evaluation-differs", w)
								break
							}
						}
					}
				}},
				{Name: "trailing-tokens", N: len(tr.small), Note: fmt.Sprintf("every compiling source with <=2 operator nodes x %d trailing tokens", len(c11TrailTokens)), Run: func(i int, r *core.Rec) {
					t := tr.small[i]
					a := 0
					src := c11Join(c11Render(t, false, &a), func(int) string { return " " })
					base := c11Compile(r, src, false)
					if !base.ok {
						return
					}
					for _, tok := range c11TrailTokens {
						for _, gap := range []string{" ", ""} {
							if gap == "" && !c11Separable(src, tok) {
								continue
							}
							ext := src + gap + tok
							o := c11Compile(r, ext, false)
							r.State("trail|" + tok)
							r.Outcome(fmt.Sprintf("trail|%v", o.ok))
							r.Nontrivial(ext, fmt.Sprint(o.ok))
							if r.WantSample() {
								r.Sample(core.W{"source": ext, "compiles": o.ok})
							}
							if o.pan != nil {
								r.Fail("trailing|"+o.pan.Key(), core.W{"source": ext})
								continue
							}
							if !o.ok {
								continue
							}
							isComment := strings.HasPrefix(tok, "//") || tok == "/* c */"
							if !isComment && o.ast == base.ast {
								r.Fail("trailing|unparsed-tail-accepted|token="+tok, core.W{"source": ext, "prefix": src, "note": "compiles to the same AST as the prefix alone"})
							}
							if isComment && o.ast != base.ast {
								r.Fail("trailing|comment-changes-ast", core.W{"source": ext})
							}
							if o.str != ext {
								r.Fail("string()-is-not-the-source", core.W{"source": ext, "String()": o.str})
							}
						}
					}
				}},
				{Name: "operand-order", N: len(c11Order), Note: "hand-written results that depend on operand order, grouping and associativity", Run: func(i int, r *core.Rec) {
					c := c11Order[i]
					res := lib.Run(c.src, []fhir.Resource{lib.Patient()}, map[string]any{"v": system.Integer(3)})
					r.Eval()
					r.State("order|" + c.src)
					r.Nontrivial(c.src, res.String())
					r.Sample(core.W{"src": c.src, "got": res.String(), "want": c.want})
					if res.String() != c.want {
						r.Fail("operand-order|"+c.src, core.W{"src": c.src, "got": res.String(), "want": c.want})
					}
				}},
			}
		},
	})
}

var c11Order = []struct{ src, want string }{
	{"7 - 2", "[Integer:5]"}, {"7 - 2 - 1", "[Integer:4]"}, {"7 - (2 - 1)", "[Integer:6]"}, {"7 div 2", "[Integer:3]"}, {"7 mod 2", "[Integer:1]"},
	{"8 / 2 / 2", "[Decimal:2]"}, {"8 / (2 / 2)", "[Decimal:8]"}, {"2 + 3 * 4", "[Integer:14]"}, {"(2 + 3) * 4", "[Integer:20]"}, {"2 * 3 + 4", "[Integer:10]"},
	{"10 - 2 * 3", "[Integer:4]"}, {"-2 + 5", "[Integer:3]"}, {"-(2 + 5)", "[Integer:-7]"}, {"- 2 * 3", "[Integer:-6]"}, {"5 - -2", "[Integer:7]"},
	{"'a' & 'b'", `[String:"ab"]`}, {"'a' & 'b' & 'c'", `[String:"abc"]`}, {"'a' + 'b'", `[String:"ab"]`},
	{"1 < 2", "[Boolean:true]"}, {"2 < 1", "[Boolean:false]"}, {"1 <= 1", "[Boolean:true]"}, {"2 > 1", "[Boolean:true]"}, {"1 >= 2", "[Boolean:false]"},
	{"1 + 1 = 2", "[Boolean:true]"}, {"1 < 2 = true", "[Boolean:true]"}, {"1 = 1 and 2 = 3", "[Boolean:false]"}, {"1 + 2 < 2 * 2", "[Boolean:true]"},
	{"true implies false", "[Boolean:false]"}, {"false implies true", "[Boolean:true]"}, {"false implies false implies false", "[Boolean:false]"},
	{"true or false and false", "[Boolean:true]"}, {"(true or false) and false", "[Boolean:false]"}, {"true xor true or true", "[Boolean:true]"},
	{"false and false implies false", "[Boolean:true]"}, {"false and (false implies false)", "[Boolean:false]"},
	{"1 is Integer", "[Boolean:true]"}, {"1 + 1 is Integer", "[Boolean:true]"}, {"1 is Integer = true", "[Boolean:true]"}, {"1 is Integer and true", "[Boolean:true]"},
	{"%v - 1", "[Integer:2]"}, {"1 - %v", "[Integer:-2]"}, {"%v.select($this - 1)", "[Integer:2]"},
	{"Patient.name[1].family", `[String#` + "" + ``}, // placeholder replaced below
	{"Patient.name.given[1]", ""}, {"Patient.name[0].given[1]", ""}, {"Patient.name.family.count()", "[Integer:3]"}, {"Patient.name.given.count() - 1", "[Integer:4]"},
	{"iif(true, 1, 2)", "[Integer:1]"}, {"iif(false, 1, 2)", "[Integer:2]"}, {"iif(1 < 2, 'y', 'n')", `[String:"y"]`},
	{"Patient.name.where(family = 'Jones').given.count()", "[Integer:1]"}, {"Patient.name.select(given.count())", "[Integer:2, Integer:1, Integer:2]"},
	{"Patient.name.count() > 2 and Patient.active", "[Boolean:true]"}, {"(1).not()", "[Boolean:false]"}, {"true.not() or true", "[Boolean:true]"},
}

func init() {
	// results that are FHIR elements are rendered by the harness from the same hand-sized Patient
	p := lib.Patient()
	for i := range c11Order {
		switch c11Order[i].src {
		case "Patient.name[1].family":
			c11Order[i].want = "[" + lib.Show(p.Name[1].Family) + "]"
		case "Patient.name.given[1]":
			c11Order[i].want = "[" + lib.Show(p.Name[0].Given[1]) + "]"
		case "Patient.name[0].given[1]":
			c11Order[i].want = "[" + lib.Show(p.Name[0].Given[1]) + "]"
		}
	}
}
