package checks

import (
	"fmt"

	bcrpb "github.com/google/fhir/go/proto/google/fhir/proto/r4/core/resources/bundle_and_contained_resource_go_proto"
	opb "github.com/google/fhir/go/proto/google/fhir/proto/r4/core/resources/observation_go_proto"
	ppb "github.com/google/fhir/go/proto/google/fhir/proto/r4/core/resources/patient_go_proto"
	"github.com/verily-src/fhirpath-go/fhirpath/verifh/core"
	"github.com/verily-src/fhirpath-go/internal/bundle"
	"github.com/verily-src/fhirpath-go/internal/containedresource"
	"github.com/verily-src/fhirpath-go/internal/fhir"
	"google.golang.org/protobuf/proto"
)

// ---- C20, wrapper reuse: unwrapping is a function of what the wrapper holds NOW. One ContainedResource wrapper (and one
// bundle entry) is given a sequence of contents - by assigning the oneof, by proto.Reset + proto.Merge, by Unmarshal of
// another wrapper's bytes - and after every step Unwrap / TypeOf / ID / URIString / bundle.UnwrapEntry / bundle.Unwrap
// must describe the current content. All histories of <= 3 steps over 5 contents x 3 ways of replacing.

func c20ReuseSub() core.Sub {
	mkContents := func() []fhir.Resource {
		return []fhir.Resource{
			&ppb.Patient{Id: fhir.ID("p1")}, &opb.Observation{Id: fhir.ID("o1")}, &ppb.Patient{Id: fhir.ID("p2")}, &opb.Observation{Id: fhir.ID("p1")}, nil,
		}
	}
	ways := []string{"assign-oneof", "reset-merge", "unmarshal"}
	nC, nW := 5, len(ways)
	step := nC * nW
	total := step + step*step + step*step*step
	return core.Sub{Name: "wrapper-reuse", N: 1, Note: fmt.Sprintf("one contained-resource wrapper and one bundle entry re-filled along every history of <=3 steps over 5 contents (two Patients, two Observations - one sharing its id with a Patient -, nothing) x 3 ways of replacing (%d histories): after every step Unwrap, TypeOf, ID, URIString, bundle.UnwrapEntry and bundle.Unwrap describe the current content", total), Run: func(_ int, r *core.Rec) {
		for length := 1; length <= 3; length++ {
			n := 1
			for k := 0; k < length; k++ {
				n *= step
			}
			for code := 0; code < n; code++ {
				contents := mkContents()
				cr := &bcrpb.ContainedResource{}
				entry := &bcrpb.Bundle_Entry{Resource: cr}
				bdl := &bcrpb.Bundle{Entry: []*bcrpb.Bundle_Entry{entry}}
				hist := ""
				c := code
				for k := 0; k < length; k++ {
					ci, wi := (c%step)/nW, (c%step)%nW
					c /= step
					want := contents[ci]
					hist += fmt.Sprintf("%s(%d);", ways[wi], ci)
					var src *bcrpb.ContainedResource
					if want != nil {
						src = containedresource.Wrap(proto.Clone(want).(fhir.Resource))
					} else {
						src = &bcrpb.ContainedResource{}
					}
					switch ways[wi] {
					case "assign-oneof":
						if want != nil {
							cr.OneofResource = containedresource.Wrap(want).OneofResource
						} else {
							cr.OneofResource = nil
						}
					case "reset-merge":
						proto.Reset(cr)
						proto.Merge(cr, src)
					case "unmarshal":
						b, err := proto.Marshal(src)
						if err != nil {
							panic(err)
						}
						proto.Reset(cr)
						if err := proto.Unmarshal(b, cr); err != nil {
							panic(err)
						}
					}
					var got fhir.Resource
					var typ, id, uri string
					var fromEntry fhir.Resource
					var fromBundle []fhir.Resource
					pi := core.Try(func() {
						got = containedresource.Unwrap(cr)
						if want != nil {
							typ, id, uri = string(containedresource.TypeOf(cr)), containedresource.ID(cr), containedresource.URIString(cr)
						}
						fromEntry = bundle.UnwrapEntry(entry)
						fromBundle = bundle.Unwrap(bdl)
					})
					r.Eval()
					r.State(fmt.Sprintf("reuse|step%d|%s|content%d", k+1, ways[wi], ci))
					w := core.W{"history": hist}
					if pi != nil {
						r.Fail("wrapper-reuse|"+pi.Key(), w)
						break
					}
					bad := ""
					switch {
					case want == nil:
						if got != nil && !isNilResource(got) {
							bad = "unwrap-of-an-emptied-wrapper-is-a-resource"
						}
					case got == nil || !proto.Equal(got, want):
						bad = "unwrap-is-not-the-current-content"
					case typ != string(want.ProtoReflect().Descriptor().Name()):
						bad = "typeof-is-not-the-current-type"
					case id != want.GetId().GetValue():
						bad = "id-is-not-the-current-id"
					case uri != typ+"/"+id:
						bad = "uri-is-not-the-current-identity"
					case fromEntry == nil || !proto.Equal(fromEntry, want):
						bad = "bundle-entry-unwraps-to-something-else"
					case len(fromBundle) != 1 || !proto.Equal(fromBundle[0], want):
						bad = "bundle-unwraps-to-something-else"
					}
					if bad != "" {
						w["got"] = fmt.Sprintf("%T %v type=%s id=%s uri=%s", got, got, typ, id, uri)
						w["want"] = fmt.Sprintf("%T %v", want, want)
						r.Fail(fmt.Sprintf("wrapper-reuse|step%d|%s|%s", k+1, ways[wi], bad), w)
						break
					}
				}
			}
		}
		r.NontrivialByConstruction(int64(total))
	}}
}

func isNilResource(x fhir.Resource) bool {
	defer func() { recover() }()
	return x == nil || !x.ProtoReflect().IsValid()
}
