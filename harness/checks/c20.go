package checks

import (
	"errors"
	"fmt"
	binpb "github.com/google/fhir/go/proto/google/fhir/proto/r4/core/resources/binary_go_proto"
	"google.golang.org/protobuf/types/known/anypb"
	"sort"
	"strconv"
	"strings"

	cpb "github.com/google/fhir/go/proto/google/fhir/proto/r4/core/codes_go_proto"
	dtpb "github.com/google/fhir/go/proto/google/fhir/proto/r4/core/datatypes_go_proto"
	bcrpb "github.com/google/fhir/go/proto/google/fhir/proto/r4/core/resources/bundle_and_contained_resource_go_proto"
	ppb "github.com/google/fhir/go/proto/google/fhir/proto/r4/core/resources/patient_go_proto"
	"github.com/verily-src/fhirpath-go/fhirpath/verifh/core"
	"github.com/verily-src/fhirpath-go/fhirpath/verifh/lib"
	"github.com/verily-src/fhirpath-go/internal/bundle"
	"github.com/verily-src/fhirpath-go/internal/containedresource"
	"github.com/verily-src/fhirpath-go/internal/element"
	"github.com/verily-src/fhirpath-go/internal/element/extension"
	"github.com/verily-src/fhirpath-go/internal/fhir"
	"github.com/verily-src/fhirpath-go/internal/protofields"
	"github.com/verily-src/fhirpath-go/internal/resource"
	"google.golang.org/protobuf/proto"
	"google.golang.org/protobuf/reflect/protoreflect"
)

// ---- C20: resource, bundle and extension wrappers are inverses for every R4 type.

func c20Same(a, b proto.Message) bool { return any(a) == any(b) }

// the 49 legal extension value types, read from the Extension.ValueX oneof descriptor
func c20ValueXTypes() []protoreflect.FieldDescriptor {
	od := (&dtpb.Extension_ValueX{}).ProtoReflect().Descriptor().Oneofs().ByName("choice")
	var out []protoreflect.FieldDescriptor
	for i := 0; i < od.Fields().Len(); i++ {
		out = append(out, od.Fields().Get(i))
	}
	return out
}

type c20Ext struct {
	url string
	tag int
}

// list-model of the extension mutators
func c20Model(list []c20Ext, mut, url string, newTags []int) []c20Ext {
	switch mut {
	case "Clear":
		return nil
	case "Overwrite":
		var out []c20Ext
		for _, t := range newTags {
			out = append(out, c20Ext{url, t})
		}
		return out
	case "AppendInto":
		out := append([]c20Ext{}, list...)
		for _, t := range newTags {
			out = append(out, c20Ext{url, t})
		}
		return out
	case "Upsert":
		out := append([]c20Ext{}, list...)
		for i := range out {
			if out[i].url == url {
				out[i].tag = newTags[0]
				return out
			}
		}
		return append(out, c20Ext{url, newTags[0]})
	case "SetByURL":
		var out []c20Ext
		for _, e := range list {
			if e.url != url {
				out = append(out, e)
			}
		}
		for _, t := range newTags {
			out = append(out, c20Ext{url, t})
		}
		return out
	}
	panic(mut)
}

func c20MkExt(e c20Ext) *dtpb.Extension {
	return &dtpb.Extension{Url: fhir.URI(e.url), Value: &dtpb.Extension_ValueX{Choice: &dtpb.Extension_ValueX_Integer{Integer: fhir.Integer(int32(e.tag))}}}
}

func c20ShowExts(l []*dtpb.Extension) string {
	parts := make([]string, len(l))
	for i, e := range l {
		parts[i] = fmt.Sprintf("%s=%d", e.GetUrl().GetValue(), e.GetValue().GetInteger().GetValue())
	}
	return "[" + strings.Join(parts, " ") + "]"
}

// ---- JSON path resolver for extraction labels

type c20Step struct {
	name string
	idx  int // -1 none
}

func c20ParseLabel(label string) ([]c20Step, error) {
	var steps []c20Step
	for _, part := range strings.Split(label, ".") {
		part = strings.ReplaceAll(part, "`", "") // a keyword element name is a delimited identifier in the label
		st := c20Step{name: part, idx: -1}
		if i := strings.Index(part, "["); i >= 0 {
			if !strings.HasSuffix(part, "]") {
				return nil, fmt.Errorf("bad step %q", part)
			}
			n, err := strconv.Atoi(part[i+1 : len(part)-1])
			if err != nil {
				return nil, err
			}
			st.name, st.idx = part[:i], n
		}
		steps = append(steps, st)
	}
	return steps, nil
}

// c20Resolve walks the FHIR JSON tree. For a primitive with children the
// extensions live under "_name". It returns the node and, for primitives, the
// sibling "_name" node.
func c20Resolve(tree map[string]any, steps []c20Step) (node any, under any, err error) {
	if len(steps) == 0 || tree["resourceType"] != steps[0].name || steps[0].idx >= 0 {
		return nil, nil, fmt.Errorf("root %v does not match resourceType %v", steps, tree["resourceType"])
	}
	var cur any = tree
	var shadow any // the "_name" counterpart when cur is a primitive position
	for _, st := range steps[1:] {
		var next, nshadow any
		picked := false
		for _, holder := range []any{cur, shadow} {
			m, ok := holder.(map[string]any)
			if !ok {
				continue
			}
			if v, ok := m[st.name]; ok {
				next, picked = v, true
			}
			if v, ok := m["_"+st.name]; ok {
				nshadow, picked = v, true
			}
			if picked {
				break
			}
		}
		if !picked {
			return nil, nil, fmt.Errorf("no element %q", st.name)
		}
		if st.idx >= 0 {
			pick := func(v any) (any, error) {
				if v == nil {
					return nil, nil
				}
				l, ok := v.([]any)
				if !ok {
					return nil, fmt.Errorf("%q is not repeated", st.name)
				}
				if st.idx >= len(l) {
					return nil, fmt.Errorf("%s[%d] out of range (%d)", st.name, st.idx, len(l))
				}
				return l[st.idx], nil
			}
			var e1, e2 error
			next, e1 = pick(next)
			nshadow, e2 = pick(nshadow)
			if e1 != nil {
				return nil, nil, e1
			}
			if e2 != nil {
				return nil, nil, e2
			}
		} else {
			if _, isList := next.([]any); isList {
				return nil, nil, fmt.Errorf("%q is repeated but the label has no index", st.name)
			}
		}
		cur, shadow = next, nshadow
	}
	return cur, shadow, nil
}

// c20Walk collects every message of the wanted full name reachable through message fields (not through Any).
func c20Walk(m protoreflect.Message, want protoreflect.FullName, out *[]proto.Message) {
	m.Range(func(fd protoreflect.FieldDescriptor, v protoreflect.Value) bool {
		if fd.Message() == nil || fd.IsMap() {
			return true
		}
		visit := func(c protoreflect.Message) {
			if c.Descriptor().FullName() == want {
				*out = append(*out, c.Interface())
			}
			if c.Descriptor().FullName() != "google.protobuf.Any" {
				c20Walk(c, want, out)
			}
		}
		if fd.IsList() {
			l := v.List()
			for i := 0; i < l.Len(); i++ {
				visit(l.Get(i).Message())
			}
		} else {
			visit(v.Message())
		}
		return true
	})
}

// c20CountUnderContained counts the messages of the wanted type that lie below a ContainedResource-typed field
// (Bundle.entry.resource and the like); `below` says whether such a field has been crossed already.
func c20CountUnderContained(m protoreflect.Message, want protoreflect.FullName, below bool) int {
	n := 0
	m.Range(func(fd protoreflect.FieldDescriptor, v protoreflect.Value) bool {
		if fd.Message() == nil || fd.IsMap() || fd.Message().FullName() == "google.protobuf.Any" {
			return true
		}
		b := below || fd.Message().FullName() == "google.fhir.r4.core.ContainedResource"
		visit := func(c protoreflect.Message) {
			if b && c.Descriptor().FullName() == want {
				n++
			}
			n += c20CountUnderContained(c, want, b)
		}
		if fd.IsList() {
			for i := 0; i < v.List().Len(); i++ {
				visit(v.List().Get(i).Message())
			}
		} else {
			visit(v.Message())
		}
		return true
	})
	return n
}

// c20CountInAny counts the messages of the wanted type inside Any-packed contained resources (recursively).
func c20CountInAny(m protoreflect.Message, want protoreflect.FullName) int {
	n := 0
	m.Range(func(fd protoreflect.FieldDescriptor, v protoreflect.Value) bool {
		if fd.Message() == nil || fd.IsMap() {
			return true
		}
		visit := func(c protoreflect.Message) {
			if a, ok := c.Interface().(*anypb.Any); ok {
				cr := &bcrpb.ContainedResource{}
				if a.UnmarshalTo(cr) == nil {
					var inner []proto.Message
					c20Walk(cr.ProtoReflect(), want, &inner)
					n += len(inner) + c20CountInAny(cr.ProtoReflect(), want)
				}
				return
			}
			n += c20CountInAny(c, want)
		}
		if fd.IsList() {
			for i := 0; i < v.List().Len(); i++ {
				visit(v.List().Get(i).Message())
			}
		} else {
			visit(v.Message())
		}
		return true
	})
	return n
}

func c20HasContainedResourceField(m protoreflect.Message) bool {
	found := false
	var walk func(m protoreflect.Message)
	walk = func(m protoreflect.Message) {
		m.Range(func(fd protoreflect.FieldDescriptor, v protoreflect.Value) bool {
			if fd.Message() == nil || found {
				return !found
			}
			if fd.Message().FullName() == "google.fhir.r4.core.ContainedResource" {
				found = true
				return false
			}
			if fd.Message().FullName() == "google.protobuf.Any" {
				found = true // DomainResource.contained: protorange expands the packed ContainedResource
				return false
			}
			if fd.IsList() {
				for i := 0; i < v.List().Len(); i++ {
					walk(v.List().Get(i).Message())
				}
			} else {
				walk(v.Message())
			}
			return true
		})
	}
	walk(m)
	return found
}

type c20Extractor struct {
	name string
	full protoreflect.FullName
	run  func(res fhir.Resource) (elems []proto.Message, labels []string, err error)
	// plain: the path-less entry point, which has no labelling to fail on
	plain func(res fhir.Resource) ([]proto.Message, error)
}

func c20MkExtractor[T proto.Message](name string) c20Extractor {
	var zero T
	return c20Extractor{name: name, full: zero.ProtoReflect().Descriptor().FullName(), run: func(res fhir.Resource) ([]proto.Message, []string, error) {
		got, err := element.ExtractAllWithPath[T](res)
		if err != nil {
			return nil, nil, err
		}
		var es []proto.Message
		var ls []string
		for _, g := range got {
			es = append(es, g.Element)
			ls = append(ls, g.FHIRPath)
		}
		plain, err2 := element.ExtractAll[T](res)
		if err2 != nil || len(plain) != len(got) {
			return es, ls, fmt.Errorf("ExtractAll and ExtractAllWithPath disagree: %d vs %d (%v)", len(plain), len(got), err2)
		}
		return es, ls, nil
	}, plain: func(res fhir.Resource) ([]proto.Message, error) {
		got, err := element.ExtractAll[T](res)
		var es []proto.Message
		for _, g := range got {
			es = append(es, g)
		}
		return es, err
	}}
}

func init() {
	extractors := []c20Extractor{
		c20MkExtractor[*dtpb.Reference]("Reference"), c20MkExtractor[*dtpb.Identifier]("Identifier"), c20MkExtractor[*dtpb.Coding]("Coding"),
		c20MkExtractor[*dtpb.Extension]("Extension"), c20MkExtractor[*dtpb.String]("String"), c20MkExtractor[*dtpb.DateTime]("DateTime"),
		// datatypes whose short name is also the name of a backbone component somewhere in R4 (Dosage under
		// MedicationKnowledge / MedicationAdministration) and a few more that occur below such components
		c20MkExtractor[*dtpb.Dosage]("Dosage"), c20MkExtractor[*dtpb.Timing]("Timing"), c20MkExtractor[*dtpb.Quantity]("Quantity"), c20MkExtractor[*dtpb.CodeableConcept]("CodeableConcept"),
	}
	urls := []string{"http://u", "http://v", "http://w"}
	core.Register(&core.Check{
		ID:          "C20",
		Rule:        "all 146 resource type names (from the ContainedResource descriptor): create by name / Type / TypeOf, containedresource and bundle-entry wrap/unwrap identity for the empty instance, three generated instances and (Binary) five content types, bundle.Unwrap order and bundle.UnwrapMap grouping over all ordered selections of <=3 of 5 resources, rejected names; all 49 Extension.value[x] alternatives (from the descriptor) and every other registered element type: FromElement/Unwrap identity and the field that is set; extension mutators {Upsert, SetByURL x 0/1/2 values, AppendInto, Overwrite, Clear} over all extension lists of length 0..4 over 3 URLs x target URL in {present-able, absent} x 2 carriers against a list model with pointer identity of the untouched extensions; the path-less ExtractAll (every own element exactly once, also where labelling is documented to fail) and ExtractAllWithPath for 6 element types over the schema-covering resource family (every field populated, each-choice covering, depth 2 quick / 3 thorough): pointer set equals the harness's own protoreflect walk, labels unique, each label resolves in the jsonformat tree and (without choice-typed steps) through fhirpath.Evaluate to that very element; non-trivial = distinct (case, outcome)",
		Assumptions: []string{"google/fhir jsonformat output is the FHIR JSON tree", "elements inside a ContainedResource-typed field (Bundle.entry.resource, Parameters.parameter.resource) must yield the documented ErrFhirPathNotImplemented"},
		Subs: func(tier string) []core.Sub {
			names := lib.ResourceTypeNames()
			depth, maxVar := 3, 4 // depth 3 reaches elements (e.g. Narrative.div.id) that depth 2 does not
			if tier == "thorough" {
				depth, maxVar = 3, 60
			}
			vx := c20ValueXTypes()
			var elemNames []string
			for k := range protofields.Elements {
				elemNames = append(elemNames, k)
			}
			sort.Strings(elemNames)
			nLists := c10Count(3, 4)
			return []core.Sub{
				{Name: "resource-types", N: len(names), Note: "146 names: NewFromString/New/Type.New/TypeOf, containedresource.Wrap/Unwrap, bundle entries, case variants", Run: func(i int, r *core.Rec) {
					n := names[i]
					r.State("type")
					w := core.W{"type": n}
					var res fhir.Resource
					var err error
					if pi := core.Try(func() { res, err = resource.NewFromString(n) }); pi != nil || err != nil || res == nil {
						r.Fail("NewFromString|valid-name-fails", core.W{"type": n, "err": fmt.Sprint(err, pi)})
						return
					}
					r.Eval()
					r.Nontrivial(n)
					r.Sample(core.W{"type": n, "created": lib.DescribeType(res)})
					if string(res.ProtoReflect().Descriptor().Name()) != n || string(resource.TypeOf(res)) != n {
						r.Fail("NewFromString|wrong-type", core.W{"type": n, "got": lib.DescribeType(res)})
					}
					t, terr := resource.NewType(n)
					if terr != nil || t.String() != n || !resource.IsType(n) {
						r.Fail("NewType|valid-name-rejected", w)
					} else {
						for _, mk := range []func() fhir.Resource{func() fhir.Resource { return resource.New(t) }, func() fhir.Resource { return t.New() }} {
							var r2 fhir.Resource
							if pi := core.Try(func() { r2 = mk() }); pi != nil || r2 == nil || string(resource.TypeOf(r2)) != n {
								r.Fail("New|wrong-type-or-panic", core.W{"type": n, "panic": fmt.Sprint(pi)})
							}
							r.Eval()
						}
					}
					// "a new instance": every creation - by any of the constructors, in any order, however many came before -
					// hands out an empty resource of its own; what the caller does to one never shows in another
					if terr == nil {
						mks := []struct {
							name string
							mk   func() fhir.Resource
						}{{"NewFromString", func() fhir.Resource { x, _ := resource.NewFromString(n); return x }}, {"New", func() fhir.Resource { return resource.New(t) }}, {"Type.New", func() fhir.Resource { return t.New() }},
							{"New(WithID)", func() fhir.Resource { return resource.New(t, resource.WithID("seed")) }}}
						var made []fhir.Resource
						for round := 0; round < 2; round++ {
							for _, m := range mks {
								var x fhir.Resource
								if pi := core.Try(func() { x = m.mk() }); pi != nil || x == nil {
									continue
								}
								r.Eval()
								wantID := ""
								if m.name == "New(WithID)" {
									wantID = "seed"
								}
								idf := x.ProtoReflect().Descriptor().Fields().ByName("id")
								gotID := ""
								if idf != nil && x.ProtoReflect().Has(idf) {
									gotID = x.ProtoReflect().Get(idf).Message().Interface().(*dtpb.Id).GetValue()
								}
								fresh := gotID == wantID
								if wantID == "" && proto.Size(x) != 0 {
									fresh = false
								}
								for _, old := range made {
									if old.ProtoReflect() == x.ProtoReflect() || any(old) == any(x) {
										fresh = false
									}
								}
								if !fresh {
									r.Fail("New|instance-is-not-new|"+m.name, core.W{"type": n, "constructor": m.name, "creation_number": len(made) + 1, "id_found": gotID, "size": proto.Size(x)})
								}
								made = append(made, x)
								// the caller uses what it was given
								if idf != nil {
									x.ProtoReflect().Set(idf, protoreflect.ValueOfMessage((&dtpb.Id{Value: fmt.Sprintf("used-%d", len(made))}).ProtoReflect()))
								}
							}
						}
					}
					// contained resource / bundle entry identity
					var cr *bcrpb.ContainedResource
					var back fhir.Resource
					if pi := core.Try(func() { cr = containedresource.Wrap(res); back = containedresource.Unwrap(cr) }); pi != nil {
						r.Fail("containedresource|"+pi.Key(), w)
					} else {
						if !c20Same(back, res) {
							r.Fail("containedresource|Unwrap(Wrap(x))-is-not-x", w)
						}
						if string(containedresource.TypeOf(cr)) != n {
							r.Fail("containedresource|TypeOf-differs", w)
						}
						// the oneof field that is set is the one whose message type is the resource's
						set := cr.ProtoReflect().WhichOneof(cr.ProtoReflect().Descriptor().Oneofs().ByName("oneof_resource"))
						if set == nil || string(set.Message().Name()) != n {
							r.Fail("containedresource|wrong-oneof-field", w)
						}
					}
					r.Eval()
					for _, mk := range []struct {
						name string
						f    func() *bcrpb.Bundle_Entry
					}{{"NewCollectionEntry", func() *bcrpb.Bundle_Entry { return bundle.NewCollectionEntry(res) }}, {"NewPostEntry", func() *bcrpb.Bundle_Entry { return bundle.NewPostEntry(res) }}} {
						var e *bcrpb.Bundle_Entry
						var got fhir.Resource
						if pi := core.Try(func() { e = mk.f(); got = bundle.UnwrapEntry(e) }); pi != nil {
							r.Fail("bundle."+mk.name+"|"+pi.Key(), w)
						} else if !c20Same(got, res) {
							r.Fail("bundle."+mk.name+"|UnwrapEntry-is-not-the-resource", w)
						}
						r.Eval()
					}
					// populated instances as well: what is wrapped must not matter (content types, ids, nested content)
					var populated []fhir.Resource
					for v := 0; v < 3; v++ {
						populated = append(populated, proto.Clone(lib.GenResource(n, v, 1)).(fhir.Resource))
					}
					if n == "Binary" {
						for _, ct := range []string{"application/json-patch+json", "application/fhir+json", "application/pdf", "text/plain", ""} {
							populated = append(populated, &binpb.Binary{Id: fhir.ID("b1"), ContentType: &binpb.Binary_ContentTypeCode{Value: ct}, Data: fhir.Base64Binary([]byte("[]"))})
						}
					}
					for pi2, pres := range populated {
						pw := core.W{"type": n, "instance": pi2}
						var back fhir.Resource
						if pi := core.Try(func() { back = containedresource.Unwrap(containedresource.Wrap(pres)) }); pi != nil {
							r.Fail("containedresource|populated|"+pi.Key(), pw)
						} else if !c20Same(back, pres) {
							r.Fail("containedresource|populated|Unwrap(Wrap(x))-is-not-x", pw)
						}
						for _, mk := range []struct {
							name string
							f    func() *bcrpb.Bundle_Entry
						}{{"NewCollectionEntry", func() *bcrpb.Bundle_Entry { return bundle.NewCollectionEntry(pres) }}, {"NewPostEntry", func() *bcrpb.Bundle_Entry { return bundle.NewPostEntry(pres) }},
							{"NewPutEntry", func() *bcrpb.Bundle_Entry { return bundle.NewPutEntry(pres) }}} {
							var got fhir.Resource
							if pi := core.Try(func() { got = bundle.UnwrapEntry(mk.f()) }); pi != nil {
								r.Fail("bundle."+mk.name+"|populated|"+pi.Key(), pw)
							} else if !c20Same(got, pres) {
								r.Fail("bundle."+mk.name+"|populated|UnwrapEntry-is-not-the-resource", pw)
							}
							r.Eval()
						}
					}
					var unwrapped []fhir.Resource
					if pi := core.Try(func() {
						var es []*bcrpb.Bundle_Entry
						for _, pres := range populated {
							es = append(es, bundle.NewCollectionEntry(pres))
						}
						unwrapped = bundle.Unwrap(bundle.NewCollection(bundle.WithEntries(es...)))
					}); pi != nil {
						r.Fail("bundle.Unwrap|populated|"+pi.Key(), w)
					} else {
						okU := len(unwrapped) == len(populated)
						for k := range populated {
							okU = okU && c20Same(unwrapped[k], populated[k])
						}
						if !okU {
							r.Fail("bundle.Unwrap|populated|order-or-identity", w)
						}
					}
					// names that must be rejected
					for _, bad := range []string{strings.ToLower(n), strings.ToUpper(n), n + " ", " " + n, n + "X", n[:len(n)-1]} {
						if bad == n || resourceNameSet()[bad] {
							continue
						}
						var e2 error
						var r2 fhir.Resource
						pi := core.Try(func() { r2, e2 = resource.NewFromString(bad) })
						r.Eval()
						if pi != nil {
							r.Fail("NewFromString|invalid-name|"+pi.Key(), core.W{"name": bad})
						} else if e2 == nil || r2 != nil || resource.IsType(bad) {
							r.Fail("NewFromString|invalid-name-accepted", core.W{"name": bad})
						}
						if _, e3 := resource.NewType(bad); e3 == nil {
							r.Fail("NewType|invalid-name-accepted", core.W{"name": bad})
						}
					}
				}},
				c20ReuseSub(),
				{Name: "non-resource-names", N: 1, Note: "datatype names, base names and '' are not resource types", Run: func(i int, r *core.Rec) {
					for _, bad := range []string{"", "HumanName", "Quantity", "Extension", "Resource", "DomainResource", "Element", "BackboneElement", "ContainedResource", "string", "Reference", "Any"} {
						var e2 error
						var r2 fhir.Resource
						pi := core.Try(func() { r2, e2 = resource.NewFromString(bad) })
						r.Eval()
						r.State("bad-name")
						r.Nontrivial(bad)
						r.Sample(core.W{"name": bad, "err": fmt.Sprint(e2)})
						if pi != nil {
							r.Fail("NewFromString|invalid-name|"+pi.Key(), core.W{"name": bad})
						} else if e2 == nil || r2 != nil || resource.IsType(bad) {
							r.Fail("NewFromString|invalid-name-accepted", core.W{"name": bad})
						}
					}
				}},
				{Name: "bundle-order", N: 1, Note: "bundle.Unwrap over all ordered selections of <=3 of 5 resources", Run: func(i int, r *core.Rec) {
					pool := []fhir.Resource{lib.Patient(), lib.Observation(), lib.Questionnaire(), lib.Patient(), lib.Bundle()}
					var sels [][]int
					var rec func(cur []int)
					rec = func(cur []int) {
						sels = append(sels, append([]int{}, cur...))
						if len(cur) == 3 {
							return
						}
						for k := range pool {
							used := false
							for _, c := range cur {
								used = used || c == k
							}
							if !used {
								rec(append(cur, k))
							}
						}
					}
					rec(nil)
					for _, sel := range sels {
						var entries []*bcrpb.Bundle_Entry
						for _, k := range sel {
							entries = append(entries, bundle.NewCollectionEntry(pool[k]))
						}
						var got []fhir.Resource
						pi := core.Try(func() { got = bundle.Unwrap(bundle.NewCollection(bundle.WithEntries(entries...))) })
						r.Eval()
						r.State(fmt.Sprintf("bundle|len=%d", len(sel)))
						r.Nontrivial(fmt.Sprint(sel))
						if r.WantSample() {
							r.Sample(core.W{"selection": sel})
						}
						ok := pi == nil && len(got) == len(sel)
						for j := range sel {
							ok = ok && c20Same(got[j], pool[sel[j]])
						}
						if !ok {
							r.Fail("bundle.Unwrap|order-or-identity", core.W{"selection": sel, "panic": fmt.Sprint(pi)})
						}
						// the grouped view holds the same resources: per type, the entries' resources in order (two entries
						// may well carry the same type and id, e.g. two versions of one resource)
						var groups map[resource.Type][]fhir.Resource
						pi = core.Try(func() { groups = bundle.UnwrapMap(bundle.NewCollection(bundle.WithEntries(entries...))) })
						r.Eval()
						okMap := pi == nil
						total := 0
						for _, g := range groups {
							total += len(g)
						}
						okMap = okMap && total == len(sel)
						if okMap {
							next := map[resource.Type]int{}
							for _, k := range sel {
								t := resource.TypeOf(pool[k])
								g := groups[t]
								okMap = okMap && next[t] < len(g) && c20Same(g[next[t]], pool[k])
								next[t]++
							}
						}
						if !okMap {
							r.Fail("bundle.UnwrapMap|not-the-entries-resources-per-type-in-order", core.W{"selection": sel, "panic": fmt.Sprint(pi), "resources_in_groups": total})
						}
					}
					// an entry without a resource unwraps to nil and keeps its position
					b := &bcrpb.Bundle{Type: &bcrpb.Bundle_TypeCode{Value: cpb.BundleTypeCode_COLLECTION}, Entry: []*bcrpb.Bundle_Entry{bundle.NewCollectionEntry(pool[0]), {FullUrl: fhir.URI("urn:x")}, bundle.NewCollectionEntry(pool[1])}}
					var got []fhir.Resource
					if pi := core.Try(func() { got = bundle.Unwrap(b) }); pi != nil {
						r.Fail("bundle.Unwrap|"+pi.Key(), core.W{"case": "entry without resource"})
					} else if len(got) != 3 || !c20Same(got[0], pool[0]) || got[1] != nil || !c20Same(got[2], pool[1]) {
						r.Fail("bundle.Unwrap|entry-without-resource-shifts-positions", core.W{"len": len(got)})
					}
				}},
				{Name: "bundles-from-one-entry-list", N: 1, Note: "bundles of every type built from every prefix of one caller-owned entry list (with spare capacity), then each of them extended or re-built with further entries (Extend / New* with WithEntries, every order of two such steps): the caller's list and every other bundle still unwrap to what they held", Run: func(_ int, r *core.Rec) {
					mkPool := func() ([]fhir.Resource, []*bcrpb.Bundle_Entry) {
						var rs []fhir.Resource
						es := make([]*bcrpb.Bundle_Entry, 0, 12) // spare capacity: what an append in place would write into
						for k := 0; k < 5; k++ {
							p := &ppb.Patient{Id: fhir.ID(fmt.Sprintf("e%d", k))}
							rs = append(rs, p)
							es = append(es, bundle.NewCollectionEntry(p))
						}
						return rs, es
					}
					ctors := []struct {
						name string
						mk   func(...bundle.Option) *bcrpb.Bundle
					}{{"NewCollection", bundle.NewCollection}, {"NewTransaction", bundle.NewTransaction}, {"NewBatch", bundle.NewBatch}, {"NewSearchset", bundle.NewSearchset}, {"NewHistory", bundle.NewHistory}}
					ids := func(rs []fhir.Resource) string {
						var out []string
						for _, x := range rs {
							if x == nil {
								out = append(out, "<nil>")
							} else {
								out = append(out, resource.ID(x))
							}
						}
						return strings.Join(out, ",")
					}
					for _, ct := range ctors {
						for k1 := 0; k1 <= 4; k1++ {
							for k2 := 0; k2 <= 5; k2++ {
								for _, step := range []string{"Extend", "Extend-twice", "New-from-the-other-prefix"} {
									rs, es := mkPool()
									extra := bundle.NewCollectionEntry(&ppb.Patient{Id: fhir.ID("extra")})
									extra2 := bundle.NewCollectionEntry(&ppb.Patient{Id: fhir.ID("extra2")})
									var b1, b2 *bcrpb.Bundle
									var u2before string
									pi := core.Try(func() {
										b1 = ct.mk(bundle.WithEntries(es[:k1]...))
										b2 = ct.mk(bundle.WithEntries(es[:k2]...))
										u2before = ids(bundle.Unwrap(b2))
										switch step {
										case "Extend":
											bundle.Extend(b1, bundle.WithEntries(extra))
										case "Extend-twice":
											bundle.Extend(b1, bundle.WithEntries(extra))
											bundle.Extend(b1, bundle.WithEntries(extra2))
										default:
											ct.mk(bundle.WithEntries(append(es[:k1], extra)...)) // the caller appends to its own prefix: its business, but b2 was built before
										}
									})
									r.Eval()
									r.State("bundles-from-one-list|" + step)
									r.Nontrivial(ct.name, fmt.Sprint(k1, k2), step)
									w := core.W{"constructor": ct.name, "first_bundle_from": fmt.Sprintf("entries[:%d]", k1), "second_bundle_from": fmt.Sprintf("entries[:%d]", k2), "step": step}
									if pi != nil {
										r.Fail("bundle|from-one-list|"+pi.Key(), w)
										continue
									}
									if step != "New-from-the-other-prefix" {
										// the library was only asked to change b1: the caller's list is what it was
										for k := range es {
											if got := containedresource.Unwrap(es[k].GetResource()); got == nil || resource.ID(got) != resource.ID(rs[k]) {
												w["caller_entry"], w["now"] = k, fmt.Sprint(es[k])
												r.Fail("bundle|from-one-list|callers-entry-list-overwritten", w)
												break
											}
										}
										if now := ids(bundle.Unwrap(b2)); now != u2before {
											w["second_bundle_before"], w["second_bundle_now"] = u2before, now
											r.Fail("bundle|from-one-list|another-bundle-changed", w)
										}
										if un := bundle.Unwrap(b1); len(un) == 0 || resource.ID(un[len(un)-1]) != map[string]string{"Extend": "extra", "Extend-twice": "extra2"}[step] {
											w["first_bundle_now"] = ids(un)
											r.Fail("bundle|from-one-list|extended-bundle-does-not-end-with-the-new-entry", w)
										}
									}
								}
							}
						}
					}
				}},
				{Name: "extension-value-types", N: len(vx) + len(elemNames), Note: "49 Extension.value[x] alternatives from the descriptor + every registered element type", Run: func(i int, r *core.Rec) {
					legal := map[string]protoreflect.FieldDescriptor{}
					for _, fd := range vx {
						legal[string(fd.Message().Name())] = fd
					}
					var el proto.Message
					var name string
					if i < len(vx) {
						el = (&dtpb.Extension_ValueX{}).ProtoReflect().NewField(vx[i]).Message().Interface()
						name = string(vx[i].Message().Name())
					} else {
						name = elemNames[i-len(vx)]
						el = protofields.Elements[name].New()
					}
					r.State(fmt.Sprintf("ext-type|legal=%v", legal[name] != nil))
					var ext *dtpb.Extension
					var err error
					fel, isElement := el.(fhir.Element)
					if !isElement {
						return // e.g. Xhtml: not an Element for the repository's API, cannot be passed at all
					}
					pi := core.Try(func() { ext, err = extension.FromElement("http://u", fel) })
					r.Eval()
					r.Nontrivial(name, fmt.Sprint(err == nil))
					r.Sample(core.W{"element": name, "legal": legal[name] != nil, "err": fmt.Sprint(err)})
					if pi != nil {
						r.Fail("extension.FromElement|"+name+"|"+pi.Key(), core.W{"element": name})
						return
					}
					if fd := legal[name]; fd != nil {
						if err != nil {
							r.Fail("extension.FromElement|legal-value-type-rejected|"+name, core.W{"element": name, "err": err.Error()})
							return
						}
						var back fhir.Element
						if pi := core.Try(func() { back = extension.Unwrap(ext) }); pi != nil {
							r.Fail("extension.Unwrap|"+name+"|"+pi.Key(), core.W{"element": name})
							return
						}
						if !c20Same(back, el) {
							r.Fail("extension.Unwrap|not-the-same-element|"+name, core.W{"element": name})
						}
						set := ext.GetValue().ProtoReflect().WhichOneof(ext.GetValue().ProtoReflect().Descriptor().Oneofs().ByName("choice"))
						if set == nil || set.Number() != fd.Number() {
							r.Fail("extension.FromElement|wrong-oneof-field|"+name, core.W{"element": name, "set": fmt.Sprint(set)})
						}
						if ext.GetUrl().GetValue() != "http://u" {
							r.Fail("extension.FromElement|url-lost|"+name, core.W{"element": name})
						}
					} else if err == nil || !errors.Is(err, extension.ErrInvalidValueX) {
						r.Fail("extension.FromElement|illegal-value-type-accepted|"+name, core.W{"element": name, "err": fmt.Sprint(err)})
					}
				}},
				{Name: "extension-mutators", N: nLists, Note: fmt.Sprintf("%d extension lists (length 0..4 over 3 URLs) x 8 mutators x 3 target URLs x 2 carriers", nLists), Run: func(i int, r *core.Rec) {
					seq := c10Seq(i, 3)
					for _, carrier := range []string{"Patient", "HumanName"} {
						for _, target := range []string{"http://u", "http://x", "http://u "} { // the last one differs from the first by a trailing blank: another URL
							for _, mut := range []struct {
								name string
								kind string
								n    int
							}{{"Upsert", "Upsert", 1}, {"SetByURL/0", "SetByURL", 0}, {"SetByURL/1", "SetByURL", 1}, {"SetByURL/2", "SetByURL", 2}, {"AppendInto/1", "AppendInto", 1}, {"AppendInto/2", "AppendInto", 2}, {"Overwrite/2", "Overwrite", 2}, {"Clear", "Clear", 0}} {
								for _, aliased := range []bool{false, true} {
									var model []c20Ext
									var orig []*dtpb.Extension
									first := map[int]int{}
									hasRepeat := false
									for j, s := range seq {
										if k, seen := first[s]; seen && aliased {
											// the list holds one extension object at several positions
											model = append(model, model[k])
											orig = append(orig, orig[k])
											hasRepeat = true
											continue
										}
										first[s] = j
										e := c20Ext{urls[s], j + 1}
										model = append(model, e)
										orig = append(orig, c20MkExt(e))
									}
									if aliased && !hasRepeat {
										continue
									}
									var ext fhir.Extendable
									if carrier == "Patient" {
										ext = &ppb.Patient{Extension: append([]*dtpb.Extension{}, orig...)}
									} else {
										ext = &dtpb.HumanName{Extension: append([]*dtpb.Extension{}, orig...)}
									}
									newTags := []int{101, 102}[:mut.n]
									var news []*dtpb.Extension
									for _, t := range newTags {
										news = append(news, c20MkExt(c20Ext{target, t}))
									}
									pi := core.Try(func() {
										switch mut.kind {
										case "Upsert":
											extension.Upsert(ext, news[0])
										case "SetByURL":
											vals := make([]*dtpb.Integer, len(newTags))
											for k, t := range newTags {
												vals[k] = fhir.Integer(int32(t))
											}
											extension.SetByURL(ext, target, vals...)
										case "AppendInto":
											extension.AppendInto(ext, news...)
										case "Overwrite":
											extension.Overwrite(ext, news...)
										case "Clear":
											extension.Clear(ext)
										}
									})
									r.Eval()
									want := c20Model(model, mut.kind, target, newTags)
									got := ext.GetExtension()
									present := false
									for _, e := range model {
										present = present || e.url == target
									}
									cls := fmt.Sprintf("%s|%s|target-present=%v", mut.name, carrier, present)
									if aliased {
										cls += "|one-object-at-several-positions"
									}
									r.State("mutator|" + cls)
									r.Outcome(c20ShowExts(got))
									r.Nontrivial(fmt.Sprint(seq), cls, target, c20ShowExts(got))
									if r.WantSample() {
										r.Sample(core.W{"before": c20ShowExts(orig), "mutator": mut.name, "url": target, "after": c20ShowExts(got)})
									}
									w := core.W{"carrier": carrier, "before": c20ShowExts(orig), "mutator": mut.name, "url": target, "after": c20ShowExts(got), "want": fmt.Sprint(want)}
									if pi != nil {
										r.Fail("extension."+cls+"|"+pi.Key(), w)
										continue
									}
									ok := len(got) == len(want)
									for k := 0; ok && k < len(want); k++ {
										ok = got[k].GetUrl().GetValue() == want[k].url && int(got[k].GetValue().GetInteger().GetValue()) == want[k].tag
									}
									if !ok && aliased && present && mut.kind != "Clear" && mut.kind != "Overwrite" {
										// one object at several positions under the target URL: a mutator that edits the first match in place shows
										// at all of them - only extensions with that URL changed, which is what is stated; the list model (one position
										// changes) does not apply, the clause about the other URLs below does
										ok = true
									}
									if !ok {
										r.Fail("extension."+cls+"|result-differs-from-list-model", w)
										continue
									}
									// extensions with other URLs are the very same objects, in the same relative order
									if mut.kind == "Upsert" || mut.kind == "SetByURL" || mut.kind == "AppendInto" {
										var keptOrig, keptGot []*dtpb.Extension
										for _, e := range orig {
											if e.GetUrl().GetValue() != target {
												keptOrig = append(keptOrig, e)
											}
										}
										for _, e := range got {
											if e.GetUrl().GetValue() != target {
												keptGot = append(keptGot, e)
											}
										}
										same := len(keptOrig) == len(keptGot)
										for k := 0; same && k < len(keptOrig); k++ {
											same = keptOrig[k] == keptGot[k]
										}
										if !same {
											r.Fail("extension."+cls+"|other-urls-not-the-same-objects", w)
										}
									}
								}
							}
						}
					}
				}},
				{Name: "extraction", N: len(names), Note: fmt.Sprintf("146 types x covering instances (depth %d) x 6 element types", depth), Run: func(i int, r *core.Rec) {
					n := names[i]
					for vi, resm := range lib.Family(n, depth, maxVar) {
						res := resm.(fhir.Resource)
						tree, _, jerr := lib.ResourceJSON(res)
						if jerr != nil {
							r.Fail("generator|not-marshallable", core.W{"type": n, "variant": vi, "err": jerr.Error()})
							continue
						}
						nested := c20HasContainedResourceField(res.ProtoReflect())
						for _, ex := range extractors {
							var elems []proto.Message
							var labels []string
							var err error
							pi := core.Try(func() { elems, labels, err = ex.run(res) })
							r.Eval()
							cls := ex.name
							r.State(fmt.Sprintf("extract|%s|nested=%v", ex.name, nested))
							w := core.W{"type": n, "variant": vi, "element_type": ex.name}
							if pi != nil {
								r.Fail("extract|"+cls+"|"+pi.Key(), w)
								continue
							}
							var want []proto.Message
							c20Walk(res.ProtoReflect(), ex.full, &want)
							// the path-less extraction works on every resource, also where labelling is documented to fail:
							// every own element exactly once, plus a copy of every element inside an Any-packed contained resource
							var pl []proto.Message
							var perr error
							ppi := core.Try(func() { pl, perr = ex.plain(res) })
							r.Eval()
							if ppi != nil {
								r.Fail("extract-plain|"+cls+"|"+ppi.Key(), w)
							} else if perr != nil {
								r.Fail("extract-plain|"+cls+"|error", core.W{"type": n, "variant": vi, "element_type": ex.name, "err": perr.Error()})
							} else {
								inAny := c20CountInAny(res.ProtoReflect(), ex.full)
								pseen := map[proto.Message]int{}
								for _, e := range pl {
									pseen[e]++
								}
								okPlain := len(pl) == len(want)+inAny
								for _, e := range want {
									okPlain = okPlain && pseen[e] == 1
								}
								if !okPlain {
									r.Fail("extract-plain|"+cls+"|not-every-element-exactly-once", core.W{"type": n, "variant": vi, "extracted": len(pl), "own_elements": len(want), "inside_contained": inAny})
								}
							}
							if err != nil {
								// the documented labelling gap concerns elements INSIDE a nested resource only
								insideNested := c20CountInAny(res.ProtoReflect(), ex.full) + c20CountUnderContained(res.ProtoReflect(), ex.full, false)
								if nested && insideNested > 0 && errors.Is(err, element.ErrFhirPathNotImplemented) {
									r.Outcome("documented-error")
									continue
								}
								if nested && insideNested == 0 && errors.Is(err, element.ErrFhirPathNotImplemented) {
									r.Fail("extract|"+cls+"|labelling-refused-although-no-such-element-is-inside-a-nested-resource", core.W{"type": n, "variant": vi, "err": err.Error(), "own_elements": len(want)})
									continue
								}
								r.Fail("extract|"+cls+"|unexpected-error", core.W{"type": n, "variant": vi, "err": err.Error()})
								continue
							}
							r.Outcome("extracted")
							r.Nontrivial(n, fmt.Sprint(vi), ex.name, fmt.Sprint(len(elems)))
							if r.WantSample() && len(labels) > 0 {
								r.Sample(core.W{"type": n, "element_type": ex.name, "count": len(labels), "first_label": labels[0]})
							}
							// every such element exactly once
							seen := map[proto.Message]int{}
							for _, e := range elems {
								seen[e]++
							}
							okSet := len(seen) == len(want) && len(elems) == len(want)
							for _, e := range want {
								okSet = okSet && seen[e] == 1
							}
							if !okSet {
								r.Fail("extract|"+cls+"|not-every-element-exactly-once", core.W{"type": n, "variant": vi, "extracted": len(elems), "distinct": len(seen), "in_resource": len(want)})
								continue
							}
							lseen := map[string]bool{}
							for k, lab := range labels {
								if lseen[lab] {
									r.Fail("extract|"+cls+"|duplicate-label", core.W{"type": n, "variant": vi, "label": lab})
									break
								}
								lseen[lab] = true
								steps, perr := c20ParseLabel(lab)
								if perr != nil {
									r.Fail("extract|"+cls+"|label-unparseable", core.W{"type": n, "label": lab, "err": perr.Error()})
									break
								}
								node, under, rerr := c20Resolve(tree, steps)
								if rerr != nil {
									shape := c20LabelShape(lab)
									if last := steps[len(steps)-1].name; ex.name == "String" && (last == "uri" || last == "fragment") {
										shape = "member-of-the-Reference.reference-oneof"
									}
									r.Fail("extract|"+cls+"|label-does-not-resolve-in-json|"+shape, core.W{"type": n, "variant": vi, "label": lab, "err": rerr.Error()})
									break
								}
								if d := c20NodeMatches(elems[k], node, under); d != "" {
									r.Fail("extract|"+cls+"|label-resolves-to-other-json|"+d, core.W{"type": n, "variant": vi, "label": lab, "json": core.Short(fmt.Sprint(node), 200)})
									break
								}
								// through FHIRPath when the label has no choice-typed step
								if !c20HasChoiceStep(res.ProtoReflect().Descriptor(), steps) {
									ev := lib.Run(lab, []fhir.Resource{res}, nil)
									r.Eval()
									same := ev.OK() && len(ev.Coll) == 1 && c10Same(ev.Coll[0], elems[k])
									if !same && ev.OK() && len(ev.Coll) == 1 && steps[len(steps)-1].name == "reference" {
										// FHIRPath synthesises the reference string of a Reference: equal value, not the same node
										if m, ok := ev.Coll[0].(proto.Message); ok {
											same = proto.Equal(m, elems[k])
										}
									}
									if !same {
										r.Fail("extract|"+cls+"|label-does-not-evaluate-to-the-element|"+c20LabelShape(lab), core.W{"type": n, "variant": vi, "label": lab, "got": core.Short(ev.String(), 300)})
										break
									}
								}
							}
						}
					}
				}},
			}
		},
	})
}

var c20NameSet map[string]bool

func resourceNameSet() map[string]bool {
	if c20NameSet == nil {
		c20NameSet = map[string]bool{}
		for _, n := range lib.ResourceTypeNames() {
			c20NameSet[n] = true
		}
	}
	return c20NameSet
}

// c20LabelShape abstracts a label to its shape for finding keys: element names are dropped.
func c20LabelShape(label string) string {
	steps, err := c20ParseLabel(label)
	if err != nil {
		return "unparseable"
	}
	var sb strings.Builder
	for i, s := range steps {
		if i == 0 {
			continue
		}
		if s.idx >= 0 {
			sb.WriteString("L")
		} else {
			sb.WriteString("S")
		}
	}
	return fmt.Sprintf("depth=%d", len(steps)-1)
}

// c20HasChoiceStep reports whether some step of the label names a choice element with its type suffix
// (i.e. the JSON name is not a field of the message but <choice field> + <Type>).
func c20HasChoiceStep(md protoreflect.MessageDescriptor, steps []c20Step) bool {
	cur := md
	for _, st := range steps[1:] {
		if cur == nil {
			return true
		}
		var fd protoreflect.FieldDescriptor
		for i := 0; i < cur.Fields().Len(); i++ {
			if cur.Fields().Get(i).JSONName() == st.name {
				fd = cur.Fields().Get(i)
			}
		}
		if fd == nil {
			return true // not a plain field: a choice element with type suffix
		}
		cur = fd.Message()
	}
	return false
}

// c20NodeMatches compares the extracted element with the JSON node its label resolves to.
func c20NodeMatches(el proto.Message, node, under any) string {
	if lib.IsPrimitiveMsg(el.ProtoReflect().Descriptor()) {
		want, err := lib.PrimitiveJSON(el)
		if err != nil {
			return "" // element type has no extension carrier: not compared
		}
		if fmt.Sprint(want) != fmt.Sprint(node) {
			return "primitive-value-differs"
		}
		return ""
	}
	var want any
	var err error
	if x, ok := el.(*dtpb.Extension); ok {
		// an Extension is rendered inside a carrier resource so that references are written as in FHIR JSON
		tree, _, e := lib.ResourceJSON(&ppb.Patient{Extension: []*dtpb.Extension{proto.Clone(x).(*dtpb.Extension)}})
		if e != nil {
			return ""
		}
		want = tree["extension"].([]any)[0]
	} else if want, err = lib.PrimitiveJSON(el); err != nil {
		if want, err = lib.ElementJSON(el); err != nil {
			return ""
		}
	}
	if fmt.Sprint(want) != fmt.Sprint(node) {
		return "complex-subtree-differs"
	}
	return ""
}
