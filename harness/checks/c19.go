package checks

import (
	"fmt"
	"google.golang.org/protobuf/proto"
	"google.golang.org/protobuf/reflect/protoreflect"
	"sort"
	"strings"

	dtpb "github.com/google/fhir/go/proto/google/fhir/proto/r4/core/datatypes_go_proto"
	opb "github.com/google/fhir/go/proto/google/fhir/proto/r4/core/resources/observation_go_proto"
	"github.com/verily-src/fhirpath-go/fhirpath/verifh/core"
	"github.com/verily-src/fhirpath-go/fhirpath/verifh/lib"
	"github.com/verily-src/fhirpath-go/internal/element/canonical"
	"github.com/verily-src/fhirpath-go/internal/element/reference"
	"github.com/verily-src/fhirpath-go/internal/fhir"
	"github.com/verily-src/fhirpath-go/internal/protofields"
	"github.com/verily-src/fhirpath-go/internal/resource"
)

// ---- C19: reference and identity parsing and formatting are mutual inverses.

func c19TypeNames(tier string) []string {
	var all []string
	for k := range protofields.Resources {
		all = append(all, k)
	}
	sort.Strings(all)
	if tier == "thorough" || tier == "quick" {
		return all // all 146 names cost about a second, so both tiers take them all
	}
	// representatives: shortest, longest, prefix-related names, snake-case pitfalls (trailing d / i / _id-like)
	pick := map[string]bool{"Patient": true, "List": true, "Medication": true, "MedicationRequest": true, "MedicationStatement": true, "MedicinalProduct": true,
		"MedicinalProductPackaged": true, "MedicinalProductManufactured": true, "CoverageEligibilityResponse": true, "Observation": true, "Bundle": true, "Binary": true,
		"SubstanceNucleicAcid": true, "Organization": true, "ValueSet": true, "Basic": true, "Task": true, "Invoice": true}
	var out []string
	for _, n := range all {
		if pick[n] {
			out = append(out, n)
		}
	}
	return out
}

var c19IDs = []struct {
	s     string
	valid bool
}{{"1", true}, {"a", true}, {"A-1.b", true}, {strings.Repeat("x", 64), true}, {"0", true}, {"Patient", true}, {"Observation", true}, {"Basic", true}, {"history", true}, {"_history", false}, {"", false}, {strings.Repeat("x", 65), false}, {"a_b", false}, {"a/b", false}, {"a b", false}, {"é", false}, {"a#b", false}, {"a|b", false}}

var c19Versions = []struct {
	s     string
	valid bool
}{{"", true}, {"1", true}, {"v-1.0", true}, {"Basic", true}, {"Patient", true}, {strings.Repeat("9", 64), true}, {"a_b", false}, {strings.Repeat("9", 65), false}}

var c19Bases = []string{"", "http://h", "https://h:8080", "https://h/a/b/fhir", "http://h.example.org/fhir-r4", "https://h/a%20b/$x", "http://h/", "http://h/fhir//", "http://h/Patient", "http://h/Patient/1", "https://h.example.org/v1/datasets/my_dataset/fhirStores/my_store/fhir"}

func c19Ptr(t resource.Type) string { return string(t) }

// c19BaseClass: "plain" bases are absolute http(s) URLs without a trailing or doubled slash, query or fragment
func c19BaseClass(b string) string {
	switch {
	case b == "":
		return "none"
	case !(strings.HasPrefix(b, "http://") || strings.HasPrefix(b, "https://")) || strings.ContainsAny(b, " ?#"):
		return "odd"
	case strings.HasSuffix(b, "/") || strings.Contains(b[8:], "//"):
		return "redundant-slash"
	}
	return "plain"
}

func c19FormClass(src string) string {
	switch {
	case strings.HasPrefix(src, "#"):
		return "fragment"
	case strings.HasPrefix(src, "urn:"):
		return "urn"
	case strings.Contains(src, "/other/"):
		return "non-rest-url"
	case strings.Contains(src, "://"):
		if strings.Contains(src, "_history") {
			return "absolute-versioned"
		}
		return "absolute"
	case strings.Contains(src, "_history"):
		return "relative-versioned"
	}
	return "relative"
}

// info renders a LiteralInfo through its accessors only
func c19Info(l *reference.LiteralInfo) string {
	if l == nil {
		return "<nil>"
	}
	var parts []string
	if t, ok := l.Type(); ok {
		parts = append(parts, "type="+string(t))
	}
	if f, ok := l.FragmentID(); ok {
		parts = append(parts, "fragment="+f)
	}
	if id, ok := l.Identity(); ok {
		v, _ := id.VersionID()
		parts = append(parts, fmt.Sprintf("identity=%s/%s/%s", id.Type(), id.ID(), v))
	}
	parts = append(parts, "base="+l.ServiceBaseURL())
	if u, ok := l.NonRESTURI(); ok {
		parts = append(parts, "nonrest="+u)
	}
	return strings.Join(parts, " ")
}

// ---- parse histories: the parsers are functions of their argument, whatever was parsed before
var c19HistCounter int

type c19HistForm struct {
	name string
	mk   func(id string) string
	id   func(n int) string
}

func c19MkForm(name, format string) c19HistForm {
	return c19HistForm{name: name, id: func(n int) string { return fmt.Sprintf("%012d", n) }, mk: func(id string) string { return fmt.Sprintf(format, id) }}
}

var c19HistForms = []c19HistForm{
	c19MkForm("urn:uuid", "urn:uuid:00000000-0000-0000-0000-%s"), c19MkForm("urn:oid", "urn:oid:1.2.%s"), c19MkForm("non-rest-url", "http://example.org/not/fhir/%s"),
	c19MkForm("relative", "Patient/%s"), c19MkForm("absolute", "https://h.example.org/fhir/Patient/%s/_history/2"), c19MkForm("canonical", "http://example.org/fhir/ValueSet/%s|1.0"),
}

var c19HistCalls = []struct {
	name string
	do   func(u string) string
}{
	{"LiteralInfoFromURI", func(u string) string {
		var l *reference.LiteralInfo
		var err error
		if pi := core.Try(func() { l, err = reference.LiteralInfoFromURI(u) }); pi != nil {
			return "PANIC " + pi.Key()
		}
		if err != nil {
			return "error"
		}
		return c19Info(l)
	}},
	{"LiteralInfoOf(no type)", func(u string) string { return c19HistOf(u, "") }},
	{"LiteralInfoOf(type Patient)", func(u string) string { return c19HistOf(u, "Patient") }},
	{"LiteralInfoOf(type Observation)", func(u string) string { return c19HistOf(u, "Observation") }},
	{"IdentityFromReference", func(u string) string {
		var id *resource.Identity
		var err error
		if pi := core.Try(func() {
			id, err = reference.IdentityOf(&dtpb.Reference{Reference: &dtpb.Reference_Uri{Uri: fhir.String(u)}})
		}); pi != nil {
			return "PANIC " + pi.Key()
		}
		if err != nil || id == nil {
			return "error"
		}
		v, _ := id.VersionID()
		return fmt.Sprintf("%s/%s/%s", id.Type(), id.ID(), v)
	}},
}

func c19HistOf(u, typ string) string {
	ref := &dtpb.Reference{Reference: &dtpb.Reference_Uri{Uri: fhir.String(u)}}
	if typ != "" {
		ref.Type = fhir.URI(typ)
	}
	var l *reference.LiteralInfo
	var err error
	if pi := core.Try(func() { l, err = reference.LiteralInfoOf(ref) }); pi != nil {
		return "PANIC " + pi.Key()
	}
	if err != nil {
		return "error:" + strings.SplitN(err.Error(), ":", 2)[0]
	}
	return c19Info(l)
}

func c19TryLit(s string) (info *reference.LiteralInfo, err error, pi *core.PanicInfo) {
	pi = core.Try(func() { info, err = reference.LiteralInfoFromURI(s) })
	return
}

// c19Stable checks parse-format-parse stability of an accepted reference string
func c19Stable(r *core.Rec, clause, class, s string, wantIdentical bool) {
	l1, err, pi := c19TryLit(s)
	r.Eval()
	if pi != nil {
		r.Fail(strings.Join([]string{clause, class, pi.Key()}, "|"), core.W{"input": s, "panic": pi.Raw})
		return
	}
	if err != nil {
		r.Outcome(clause + "|rejected")
		return
	}
	r.Outcome(clause + "|accepted")
	var s2 string
	if pi := core.Try(func() { s2 = l1.URIString() }); pi != nil {
		r.Fail(strings.Join([]string{clause, class, "format", pi.Key()}, "|"), core.W{"input": s})
		return
	}
	l2, err2, pi2 := c19TryLit(s2)
	r.Eval()
	if pi2 != nil {
		r.Fail(strings.Join([]string{clause, class, "reparse", pi2.Key()}, "|"), core.W{"input": s, "formatted": s2})
		return
	}
	if err2 != nil {
		r.Fail(strings.Join([]string{clause, class, "formatted-form-rejected"}, "|"), core.W{"input": s, "formatted": s2, "err": err2.Error()})
		return
	}
	if c19Info(l1) != c19Info(l2) {
		feature := "ordinary"
		if i := strings.Index(s, ":///"); i >= 0 && i <= 5 {
			feature = "empty-authority"
		}
		r.Fail(strings.Join([]string{clause, class, "parse-format-parse-changes-information", feature}, "|"), core.W{"input": s, "formatted": s2, "first": c19Info(l1), "second": c19Info(l2)})
	}
	if s3 := l2.URIString(); s3 != s2 {
		r.Fail(strings.Join([]string{clause, class, "format-not-canonical"}, "|"), core.W{"input": s, "formatted": s2, "formatted_again": s3})
	}
	if wantIdentical && s2 != s {
		r.Fail(strings.Join([]string{clause, class, "format-differs-from-input-without-redundant-slashes"}, "|"), core.W{"input": s, "formatted": s2})
	}
}

var c19EditAlphabet = []byte{'/', '#', '|', ':', '.', '-', '_', 'a', 'Z', '1', ' ', '%', '?', 0x80}

var c19Seeds = []string{
	"Patient/1", "Patient/1/_history/2", "http://h/Patient/1", "https://h:8080/fhir/Patient/A-1.b/_history/v-1.0", "#frag", "#", "urn:uuid:00000000-0000-0000-0000-000000000001",
	"urn:oid:1.2.3", "http://example.org/ValueSet/x|1.0", "http://example.org/ValueSet/x|1.0#f", "http://example.org/ValueSet/x#f", "http://example.org/ValueSet/x",
	"MedicationRequest/m", "Medication/m", "http://h/a/b/List/l", "Observation/o/_history/", "Patient/", "/Patient/1", "Patient", "mailto:x@y", "http://h", "http://h/",
}

func init() {
	core.Register(&core.Check{
		ID:          "C19",
		Rule:        "identities: resource type names (quick: 18 representatives incl. shortest/longest/prefix-related/trailing-d names; thorough: all 146) x 14 ids (valid edge lengths, invalid lengths and characters) x 6 versions x 10 service base URLs (none, ports, nested paths, % and $, trailing and doubled slashes, path segments that look like resources) in relative / absolute / versioned form; fragment, '#', URN uuid/oid, canonical url|version#fragment in all presence combinations, ''; every single edit (delete, insert or replace with one of 14 bytes, at every position) of 22 seed strings against every parser; typed (strong) vs weak references of the same resource incl. reading back through FHIRPath; reference.Is over all triples of a 26-reference pool; non-trivial = distinct (string, outcome)",
		Assumptions: []string{"FHIR id alphabet [A-Za-z0-9.-]{1,64} decides which generated ids/versions are valid", "google/fhir jsonformat.NormalizeReference builds the typed form"},
		Subs: func(tier string) []core.Sub {
			types := c19TypeNames(tier)
			pool := c19IsPool()
			return []core.Sub{
				{Name: "parse-histories", N: c10Count(len(c19HistCalls), 3) * len(c19HistForms), Note: "(first, so that process-wide parser state is still nearly empty) every sequence of <=3 parse calls (LiteralInfoFromURI, LiteralInfoOf with explicit Reference.type none / Patient / Observation, IdentityFromReference) on one string, for 6 string forms; each call's outcome must equal its outcome on a string no earlier call has seen", Run: func(i int, r *core.Rec) {
					nseq := c10Count(len(c19HistCalls), 3)
					form := c19HistForms[i/nseq]
					seq := c10Seq(i%nseq, len(c19HistCalls))
					c19HistCounter++
					hid := form.id(1000000 + c19HistCounter)
					u := form.mk(hid) // the string this history works on
					var hist []string
					for k, ci := range seq {
						call := c19HistCalls[ci]
						got := call.do(u)
						// the same call on a string that is new to the process
						c19HistCounter++
						fid := form.id(5000000 + c19HistCounter)
						want := call.do(form.mk(fid))
						r.Eval()
						r.Eval()
						got, want = strings.ReplaceAll(got, hid, "<N>"), strings.ReplaceAll(want, fid, "<N>")
						hist = append(hist, call.name)
						r.State("parse-history|" + form.name + "|" + call.name)
						r.Nontrivial(form.name, strings.Join(hist, ";"), got)
						if got != want {
							r.Fail("parse-history|"+form.name+"|"+call.name+"|outcome-depends-on-earlier-parses", core.W{"string": u, "history": hist, "position": k, "outcome": got, "on_a_fresh_string": want})
						}
					}
				}},
				{Name: "identity-round-trip", N: len(types), Note: fmt.Sprintf("%d types x 14 ids x 6 versions x 11 bases", len(types)), Run: func(i int, r *core.Rec) {
					tn := types[i]
					for _, id := range c19IDs {
						for _, ver := range c19Versions {
							valid := id.valid && ver.valid
							cls := fmt.Sprintf("id-valid=%v,version-valid=%v,versioned=%v", id.valid, ver.valid, ver.s != "")
							r.State("identity|" + cls)
							var ident *resource.Identity
							var err error
							pi := core.Try(func() { ident, err = resource.NewIdentity(tn, id.s, ver.s) })
							r.Eval()
							w := core.W{"type": tn, "id": core.Short(id.s, 70), "version": core.Short(ver.s, 70)}
							if pi != nil {
								r.Fail("NewIdentity|"+cls+"|"+pi.Key(), w)
								continue
							}
							if err != nil {
								if valid {
									r.Fail("NewIdentity|"+cls+"|valid-components-rejected", w)
								}
								continue
							}
							rel := ident.PreferRelativeVersionedURIString()
							wantRel := tn + "/" + id.s
							if ver.s != "" {
								wantRel += "/_history/" + ver.s
							}
							r.Nontrivial(rel)
							if r.WantSample() {
								r.Sample(core.W{"type": tn, "id": id.s, "version": ver.s, "formatted": rel})
							}
							if rel != wantRel || ident.String() != wantRel || ident.RelativeURIString() != tn+"/"+id.s {
								r.Fail("Identity.format|"+cls+"|wrong-text", core.W{"type": tn, "id": id.s, "version": ver.s, "got": rel, "want": wantRel})
							}
							// every parser on the formatted text, with every base
							for _, base := range c19Bases {
								full := rel
								if base != "" {
									full = strings.TrimRight(base, "/") + "/" + rel
									if strings.HasSuffix(base, "/") {
										full = base + rel // keep the redundant slashes of the base
									}
								}
								bcls := "relative"
								if base != "" {
									bcls = "absolute"
									if strings.HasSuffix(base, "/") {
										bcls = "absolute-redundant-slash"
									}
								}
								lit, lerr, lpi := c19TryLit(full)
								r.Eval()
								if lpi != nil {
									r.Fail("LiteralInfoFromURI|"+cls+"|"+bcls+"|"+lpi.Key(), core.W{"input": full})
									continue
								}
								if !valid {
									if lerr == nil {
										// accepted although a component is invalid: the information must still be what was written
										if got, ok := lit.Identity(); ok {
											gv, _ := got.VersionID()
											if string(got.Type()) != tn || got.ID() != id.s || gv != ver.s {
												r.Fail("LiteralInfoFromURI|"+cls+"|"+bcls+"|invalid-component-misparsed", core.W{"input": core.Short(full, 200), "got": c19Info(lit)})
											}
										}
									}
									continue
								}
								if lerr != nil {
									r.Fail("LiteralInfoFromURI|"+cls+"|"+bcls+"|valid-reference-rejected", core.W{"input": core.Short(full, 200), "err": lerr.Error()})
									continue
								}
								got, ok := lit.Identity()
								gt, tok := lit.Type()
								wantBase := strings.TrimRight(base, "/")
								if !ok || !got.Equal(ident) || !tok || string(gt) != tn || lit.ServiceBaseURL() != wantBase {
									r.Fail("LiteralInfoFromURI|"+cls+"|"+bcls+"|components-differ", core.W{"input": core.Short(full, 200), "got": c19Info(lit), "want_base": wantBase})
								}
								c19Stable(r, "parse-format-parse", cls+"|"+bcls, full, !strings.Contains(strings.TrimPrefix(strings.TrimPrefix(full, "https://"), "http://"), "//") && !strings.HasSuffix(base, "/"))
								// the other identity parsers
								for _, pf := range []struct {
									name string
									f    func(string) (*resource.Identity, error)
									does bool // applicable to this form
								}{
									{"reference.IdentityFromURL", reference.IdentityFromURL, true},
									{"reference.IdentityFromAbsoluteURL", reference.IdentityFromAbsoluteURL, base != ""},
									{"reference.IdentityFromRelativeURI", reference.IdentityFromRelativeURI, base == ""},
									{"resource.NewIdentityFromURL", resource.NewIdentityFromURL, ver.s == ""},
									{"resource.NewIdentityFromHistoryURL", resource.NewIdentityFromHistoryURL, ver.s != "" && base != ""},
								} {
									var pid *resource.Identity
									var perr error
									ppi := core.Try(func() { pid, perr = pf.f(full) })
									r.Eval()
									if ppi != nil {
										r.Fail(pf.name+"|"+cls+"|"+bcls+"|"+ppi.Key(), core.W{"input": core.Short(full, 200)})
										continue
									}
									if !pf.does {
										if perr == nil && !pid.Equal(ident) {
											r.Fail(pf.name+"|"+cls+"|"+bcls+"|other-form-misparsed", core.W{"input": core.Short(full, 200), "got": pid.String(), "want": ident.String()})
										}
										continue
									}
									if perr != nil {
										r.Fail(pf.name+"|"+cls+"|"+bcls+"|valid-reference-rejected", core.W{"input": core.Short(full, 200), "err": perr.Error()})
									} else if !pid.Equal(ident) {
										r.Fail(pf.name+"|"+cls+"|"+bcls+"|components-differ", core.W{"input": core.Short(full, 200), "got": pid.String(), "want": ident.String()})
									}
								}
							}
							if !valid {
								continue
							}
							// typed (strong) vs weak reference of the same resource
							var typed *dtpb.Reference
							tpi := core.Try(func() { typed = reference.TypedFromIdentity(ident) })
							r.Eval()
							if tpi != nil {
								r.Fail("TypedFromIdentity|"+cls+"|"+tpi.Key(), w)
								continue
							}
							weak := reference.Weak(resource.Type(tn), rel)
							li1, e1 := reference.LiteralInfoOf(typed)
							li2, e2 := reference.LiteralInfoOf(weak)
							r.Eval()
							if e1 != nil || e2 != nil || c19Info(li1) != c19Info(li2) {
								r.Fail("typed-vs-weak|"+cls+"|LiteralInfo-differs", core.W{"ref": rel, "typed": c19Info(li1), "weak": c19Info(li2), "typed_err": fmt.Sprint(e1), "weak_err": fmt.Sprint(e2)})
							}
							if !reference.Is(typed, weak) || !reference.Is(weak, typed) {
								r.Fail("typed-vs-weak|"+cls+"|Is-false", core.W{"ref": rel})
							}
							i1, ie1 := reference.IdentityOf(typed)
							i2, ie2 := reference.IdentityOf(weak)
							if ie1 != nil || ie2 != nil || !i1.Equal(i2) || !i1.Equal(ident) {
								r.Fail("typed-vs-weak|"+cls+"|IdentityOf-differs", core.W{"ref": rel, "typed": fmt.Sprint(i1, ie1), "weak": fmt.Sprint(i2, ie2)})
							}
							// reading back through FHIRPath
							for _, form := range []struct {
								name string
								ref  *dtpb.Reference
							}{{"typed", typed}, {"weak", weak}} {
								obs := &opb.Observation{Subject: form.ref}
								res := lib.Run("Observation.subject.reference", []fhir.Resource{obs}, nil)
								r.Eval()
								ok := res.OK() && len(res.Coll) == 1
								if ok {
									s, isS := res.Coll[0].(*dtpb.String)
									ok = isS && s.GetValue() == rel
								}
								if !ok {
									r.Fail("fhirpath-reference|"+cls+"|"+form.name+"|reads-back-differently", core.W{"ref": rel, "got": res.String()})
								}
							}
						}
					}
				}},
				{Name: "special-forms", N: 1, Note: "fragment, '#', URN uuid/oid, non-REST URLs, canonical with |version / #fragment, ''", Run: func(i int, r *core.Rec) {
					forms := []struct {
						s      string
						accept string // yes | no | any
					}{{"#frag", "yes"}, {"#", "yes"}, {"#a_b", "no"}, {"#" + strings.Repeat("x", 65), "no"}, {"urn:uuid:00000000-0000-0000-0000-000000000001", "yes"}, {"urn:oid:1.2.3", "yes"},
						{"http://example.org/fhir/ValueSet/x|1.0", "no"}, {"http://example.org/fhir/ValueSet/x#f", "no"}, {"http://example.org/other/thing", "yes"}, {"", "no"}, {"Patient", "no"}, {"Patient/", "no"},
						{"/Patient/1", "any"}, {"NotAType/1", "no"}, {"patient/1", "no"}, {"Patient/1/_history", "no"}, {"Patient/1/_history/", "no"}, {"Patient/1/extra", "no"}, {"Patient/1/_history/2/3", "no"},
						{"http://h", "any"}, {"http://h/", "any"}, {"mailto:x@y", "yes"},
						// spellings a URL library would normalise: a literal is kept as it was written
						{"URN:uuid:00000000-0000-0000-0000-000000000001", "any"}, {"Urn:oid:1.2.3", "any"}, {"HTTP://example.org/other/thing", "any"}, {"HTTP://h/fhir/Patient/1", "any"}, {"http://EXAMPLE.org/other/a%2fb", "any"},
						{"http://example.org/other/caf\u00e9", "any"}, {"urn:uuid:00000000-0000-0000-0000-00000000000A", "any"}, {"http://[::1", "no"}, {"%zz", "no"}, {" ", "no"}, {"Patient/1 ", "no"}}
					for _, f := range forms {
						r.State("special|" + f.accept)
						l, err, pi := c19TryLit(f.s)
						r.Eval()
						r.Nontrivial(f.s, fmt.Sprint(err == nil))
						r.Sample(core.W{"input": f.s, "accepted": err == nil && pi == nil, "info": c19Info(l)})
						if pi != nil {
							r.Fail("special|"+fmt.Sprintf("%q", f.s)+"|"+pi.Key(), core.W{"input": f.s, "panic": pi.Raw})
							continue
						}
						if f.accept == "yes" && err != nil {
							r.Fail("special|"+fmt.Sprintf("%q", f.s)+"|rejected", core.W{"input": f.s, "err": err.Error()})
						}
						if f.accept == "no" && err == nil {
							r.Fail("special|"+fmt.Sprintf("%q", f.s)+"|accepted", core.W{"input": f.s, "info": c19Info(l)})
						}
						c19Stable(r, "special-parse-format-parse", fmt.Sprintf("%q", f.s), f.s, true)
						// the same strings through a Reference element
						for _, ref := range []*dtpb.Reference{{Reference: &dtpb.Reference_Uri{Uri: fhir.String(f.s)}}, {Type: fhir.URI("Patient"), Reference: &dtpb.Reference_Uri{Uri: fhir.String(f.s)}}} {
							var li *reference.LiteralInfo
							var lerr error
							if pi := core.Try(func() { li, lerr = reference.LiteralInfoOf(ref); reference.IdentityOf(ref); reference.Is(ref, ref) }); pi != nil {
								r.Fail("special-element|"+fmt.Sprintf("%q", f.s)+"|"+pi.Key(), core.W{"input": f.s, "panic": pi.Raw})
							}
							r.Eval()
							// a reference that states its type names a resource of that type, whatever the form of its URI
							if ref.GetType().GetValue() != "" && lerr == nil && li != nil {
								if t, ok := li.Type(); !ok || string(t) != ref.GetType().GetValue() {
									r.Fail("special-element|stated-type-lost|"+c19FormClass(f.s), core.W{"input": f.s, "stated_type": ref.GetType().GetValue(), "info": c19Info(li)})
								}
							}
						}
					}
				}},
				{Name: "references-from-resources", N: len(types), Note: fmt.Sprintf("%d types x 14 ids x 6 versions: the identity, URIs and references derived from a resource instance (IdentityOf, URIString, VersionedURIString, VersionETag, TypedFromResource, WeakRelativeVersioned) name that resource: they parse back to its type, id and version, and the typed and the weak reference are the same reference; canonical resources: FromResource / VersionedFromResource / FragmentFromResource / canonical.IdentityOf reassemble the url, version and id", len(types)), Run: func(i int, r *core.Rec) {
					t := resource.Type(types[i])
					tn := string(t)
					for _, id := range c19IDs {
						for _, v := range c19Versions {
							res := resource.New(t)
							rf := res.ProtoReflect()
							if id.s != "" || true {
								rf.Set(rf.Descriptor().Fields().ByName("id"), protoreflect.ValueOfMessage((&dtpb.Id{Value: id.s}).ProtoReflect()))
							}
							if v.s != "" {
								rf.Set(rf.Descriptor().Fields().ByName("meta"), protoreflect.ValueOfMessage((&dtpb.Meta{VersionId: &dtpb.Id{Value: v.s}}).ProtoReflect()))
							}
							valid := id.valid && v.valid
							r.State(fmt.Sprintf("from-resource|valid=%v|versioned=%v", valid, v.s != ""))
							w := core.W{"type": tn, "id": id.s, "version": v.s}
							var ident *resource.Identity
							var okI bool
							var uri, vuri, etag string
							var okV bool
							var typed, weak *dtpb.Reference
							var terr, werr error
							pi := core.Try(func() {
								ident, okI = resource.IdentityOf(res)
								uri = resource.URIString(res)
								vuri, okV = resource.VersionedURIString(res)
								etag = resource.VersionETag(res)
								typed, terr = reference.TypedFromResource(res)
								weak, werr = reference.WeakRelativeVersioned(res)
							})
							r.Eval()
							r.Nontrivial(tn, id.s, v.s, fmt.Sprint(terr == nil, werr == nil))
							if pi != nil {
								r.Fail("from-resource|"+pi.Key(), w)
								continue
							}
							if !okI || ident == nil || string(ident.Type()) != tn || ident.ID() != id.s {
								r.Fail("from-resource|IdentityOf|wrong-components", w)
								continue
							}
							if gv, has := ident.VersionID(); gv != v.s || has != (v.s != "") {
								r.Fail("from-resource|IdentityOf|wrong-version", w)
							}
							if uri != tn+"/"+id.s || okV != (v.s != "") || okV && vuri != tn+"/"+id.s+"/_history/"+v.s || (etag != "") != (v.s != "") || v.s != "" && etag != `W/"`+v.s+`"` {
								w["uri"], w["versioned_uri"], w["etag"] = uri, vuri, etag
								r.Fail("from-resource|uri-forms|wrong-text", w)
							}
							if !valid {
								continue // what the parsers make of invalid ids is the business of the other sub-spaces
							}
							// the formatted forms parse back to the identity
							for _, f := range []struct {
								name, text string
								versioned  bool
							}{{"URIString", uri, false}, {"VersionedURIString", vuri, true}} {
								if f.versioned && !okV {
									continue
								}
								back, perr := reference.IdentityFromURL(f.text)
								r.Eval()
								want := ident
								if !f.versioned {
									want = ident.Unversioned()
								}
								if perr != nil || !back.Equal(want) {
									w["text"], w["err"] = f.text, fmt.Sprint(perr)
									r.Fail("from-resource|"+f.name+"|does-not-parse-back-to-the-identity", w)
								}
							}
							// typed reference: names the resource without a version, and is the same reference as the untyped one
							if terr != nil {
								w["err"] = terr.Error()
								r.Fail("from-resource|TypedFromResource|rejects-a-valid-resource", w)
							} else {
								ti, ierr := reference.IdentityOf(typed)
								untyped := reference.Weak(t, uri)
								r.Eval()
								if ierr != nil || !ti.Equal(ident.Unversioned()) {
									w["typed"], w["err"] = fmt.Sprint(typed), fmt.Sprint(ierr)
									r.Fail("from-resource|TypedFromResource|names-another-resource", w)
								}
								if !reference.Is(typed, untyped) || !reference.Is(untyped, typed) {
									w["typed"], w["untyped"] = fmt.Sprint(typed), fmt.Sprint(untyped)
									r.Fail("from-resource|TypedFromResource|is-not-the-untyped-reference", w)
								}
								if byID, e2 := reference.Typed(t, id.s); e2 != nil || !proto.Equal(byID, typed) {
									r.Fail("from-resource|TypedFromResource|differs-from-Typed(type,id)", w)
								}
							}
							// weak relative versioned reference: exactly when there is a version
							if v.s == "" {
								if werr == nil {
									r.Fail("from-resource|WeakRelativeVersioned|accepts-a-resource-without-version", w)
								}
							} else if werr != nil {
								w["err"] = werr.Error()
								r.Fail("from-resource|WeakRelativeVersioned|rejects-a-valid-resource", w)
							} else {
								wi, ierr := reference.IdentityOf(weak)
								r.Eval()
								if ierr != nil || !wi.Equal(ident) || weak.GetUri().GetValue() != vuri || weak.GetType().GetValue() != tn {
									w["weak"], w["err"] = fmt.Sprint(weak), fmt.Sprint(ierr)
									r.Fail("from-resource|WeakRelativeVersioned|names-another-resource", w)
								}
								if tv := reference.TypedFromIdentity(ident); !reference.Is(tv, weak) || !reference.Is(weak, tv) {
									r.Fail("from-resource|WeakRelativeVersioned|is-not-the-typed-versioned-reference", w)
								}
							}
						}
					}
					// canonical resources
					if cres, isC := resource.New(t).(fhir.CanonicalResource); isC {
						for _, u := range []string{"http://example.org/fhir/" + tn + "/x", "http://example.org/fhir/" + tn + "/body%20site", "urn:oid:1.2.3"} {
							for _, ver := range []string{"", "1.0.0", "2020-01"} {
								for _, id := range []string{"", "frag1"} {
									cr := proto.Clone(cres).(fhir.CanonicalResource)
									crf := cr.ProtoReflect()
									crf.Set(crf.Descriptor().Fields().ByName("url"), protoreflect.ValueOfMessage((&dtpb.Uri{Value: u}).ProtoReflect()))
									if ver != "" {
										crf.Set(crf.Descriptor().Fields().ByName("version"), protoreflect.ValueOfMessage((&dtpb.String{Value: ver}).ProtoReflect()))
									}
									if id != "" {
										crf.Set(crf.Descriptor().Fields().ByName("id"), protoreflect.ValueOfMessage((&dtpb.Id{Value: id}).ProtoReflect()))
									}
									w := core.W{"type": tn, "url": u, "version": ver, "id": id}
									var plain, versioned, frag *dtpb.Canonical
									var ci *resource.CanonicalIdentity
									var e1, e2, e3, e4 error
									pi := core.Try(func() {
										plain, e1 = canonical.FromResource(cr)
										versioned, e2 = canonical.VersionedFromResource(cr)
										frag, e3 = canonical.FragmentFromResource(cr)
										ci, e4 = canonical.IdentityOf(cr)
									})
									r.Eval()
									r.State("from-canonical-resource")
									r.Nontrivial(tn, u, ver, id)
									if pi != nil {
										r.Fail("from-canonical-resource|"+pi.Key(), w)
										continue
									}
									wantV := u
									if ver != "" {
										wantV += "|" + ver
									}
									wantF := u
									if id != "" {
										wantF += "#" + id
									}
									if e1 != nil || e2 != nil || e3 != nil || e4 != nil || plain.GetValue() != u || versioned.GetValue() != wantV || frag.GetValue() != wantF || ci == nil || ci.String() != wantV {
										w["FromResource"], w["VersionedFromResource"], w["FragmentFromResource"], w["IdentityOf"] = plain.GetValue(), versioned.GetValue(), frag.GetValue(), fmt.Sprint(ci)
										w["errors"] = fmt.Sprint(e1, e2, e3, e4)
										r.Fail("from-canonical-resource|wrong-assembly", w)
										continue
									}
									// and they split again into the same parts
									for _, c := range []*dtpb.Canonical{plain, versioned, frag} {
										back, perr := canonical.IdentityFromReference(c)
										r.Eval()
										if perr != nil || back.String() != c.GetValue() {
											w["canonical"], w["reassembled"], w["err"] = c.GetValue(), fmt.Sprint(back), fmt.Sprint(perr)
											r.Fail("from-canonical-resource|split-and-reassemble-changes-it", w)
										}
									}
								}
							}
						}
					}
				}},
				{Name: "literal-rebasing", N: len(types), Note: fmt.Sprintf("%d types x 9 source forms x 10 + 4 service base URLs: WithServiceBaseURL changes the base and nothing else, leaves the original alone, and the re-based literal formats to a string that parses back to the same components", len(types)), Run: func(i int, r *core.Rec) {
					tn := string(types[i])
					srcs := []string{tn + "/1", tn + "/1/_history/2", "https://h.example.org/fhir/" + tn + "/abc", "http://h/" + tn + "/a-b.c/_history/v-1.0", "#frag", "#", "urn:uuid:00000000-0000-0000-0000-000000000001", "urn:oid:1.2.3", "http://example.org/other/thing"}
					bases := append(append([]string{}, c19Bases...), "https://other.example.org/r4", "ftp://h", "not a url", "http://h/fhir?x=1")
					for _, src := range srcs {
						l, err, pi := c19TryLit(src)
						r.Eval()
						if pi != nil || err != nil || l == nil {
							continue // acceptance of the source forms is the business of the other sub-spaces
						}
						before := c19Info(l)
						for _, b := range bases {
							var l2 *reference.LiteralInfo
							var werr error
							pi := core.Try(func() { l2, werr = l.WithServiceBaseURL(b) })
							r.Eval()
							r.State("rebase|" + c19BaseClass(b))
							r.Nontrivial(src, b, fmt.Sprint(werr == nil))
							w := core.W{"source": src, "new_base": b, "before": before}
							if pi != nil {
								r.Fail("literal-rebasing|"+pi.Key(), w)
								continue
							}
							if now := c19Info(l); now != before {
								w["original_now"] = now
								r.Fail("literal-rebasing|original-changed|"+c19FormClass(src), w)
							}
							if werr != nil || l2 == nil {
								continue
							}
							got := c19Info(l2)
							w["rebased"] = got
							want := strings.Replace(before, "base="+l.ServiceBaseURL(), "base="+b, 1)
							if got != want {
								w["want"] = want
								r.Fail("literal-rebasing|other-component-changed|"+c19FormClass(src), w)
							}
							if _, hasID := l2.Identity(); hasID && c19BaseClass(b) == "plain" {
								back, perr, ppi := c19TryLit(l2.URIString())
								r.Eval()
								w["formatted"] = l2.URIString()
								if ppi != nil {
									r.Fail("literal-rebasing|"+ppi.Key(), w)
								} else if perr != nil {
									w["err"] = perr.Error()
									r.Fail("literal-rebasing|formatted-form-rejected|"+c19FormClass(src), w)
								} else if bi := c19Info(back); bi != got {
									w["parsed_back"] = bi
									r.Fail("literal-rebasing|format-parse-changes-components|"+c19FormClass(src), w)
								}
							}
						}
					}
				}},
				{Name: "single-edits", N: len(c19Seeds), Note: "every delete / insert / replace with one of 14 bytes at every position of 22 seed strings x 7 parsers", Run: func(i int, r *core.Rec) {
					seed := c19Seeds[i]
					var muts []string
					muts = append(muts, seed)
					for p := 0; p <= len(seed); p++ {
						if p < len(seed) {
							muts = append(muts, seed[:p]+seed[p+1:])
						}
						for _, b := range c19EditAlphabet {
							muts = append(muts, seed[:p]+string([]byte{b})+seed[p:])
							if p < len(seed) {
								muts = append(muts, seed[:p]+string([]byte{b})+seed[p+1:])
							}
						}
					}
					for _, m := range muts {
						r.State("edit|seed")
						r.Nontrivial(m)
						if r.WantSample() {
							r.Sample(core.W{"seed": seed, "mutant": m})
						}
						c19Stable(r, "edit-parse-format-parse", "seed="+seed, m, false)
						for _, pf := range []struct {
							name string
							f    func(string) (*resource.Identity, error)
						}{{"reference.IdentityFromURL", reference.IdentityFromURL}, {"reference.IdentityFromAbsoluteURL", reference.IdentityFromAbsoluteURL}, {"reference.IdentityFromRelativeURI", reference.IdentityFromRelativeURI},
							{"resource.NewIdentityFromURL", resource.NewIdentityFromURL}, {"resource.NewIdentityFromHistoryURL", resource.NewIdentityFromHistoryURL}} {
							var id *resource.Identity
							var err error
							pi := core.Try(func() { id, err = pf.f(m) })
							r.Eval()
							if pi != nil {
								r.Fail("edit|"+pf.name+"|"+pi.Key(), core.W{"input": m, "panic": pi.Raw})
								continue
							}
							if err == nil {
								// the two reference parsers of the package see the same identity in the same string
								if pf.name == "reference.IdentityFromURL" {
									li, lerr, lpi := c19TryLit(m)
									if lpi == nil {
										lid, isID := (*resource.Identity)(nil), false
										if lerr == nil && li != nil {
											lid, isID = li.Identity()
										}
										if lerr != nil || !isID || !lid.Equal(id) {
											r.Fail("edit|reference.IdentityFromURL|disagrees-with-LiteralInfoFromURI", core.W{"input": m, "identity": id.String(), "literal_info": fmt.Sprint(c19Info(li), " ", lerr)})
										}
									}
								}
								// what a parser accepted can be used: the typed reference and every formatter of the identity return
								if upi := core.Try(func() {
									reference.TypedFromIdentity(id)
									_ = id.String()
									id.RelativeVersionedURI()
									id.PreferRelativeVersionedURI()
									reference.Is(reference.TypedFromIdentity(id), reference.Weak(id.Type(), id.PreferRelativeVersionedURIString()))
								}); upi != nil {
									r.Fail("edit|"+pf.name+"|accepted-identity-crashes-its-users|"+upi.Key(), core.W{"input": m, "identity": id.String(), "panic": upi.Raw})
								}
								// an accepted string formats to text that the same parser maps to an equal identity
								back := id.PreferRelativeVersionedURIString()
								if pf.name == "resource.NewIdentityFromURL" || pf.name == "reference.IdentityFromRelativeURI" || pf.name == "reference.IdentityFromURL" {
									id2, err2 := pf.f(back)
									if pf.name == "resource.NewIdentityFromURL" {
										id2, err2 = pf.f(id.RelativeURIString())
										if err2 == nil {
											id2 = id2.WithNewVersion(func() string { v, _ := id.VersionID(); return v }())
										}
									}
									if err2 != nil || !id2.Equal(id) {
										r.Fail("edit|"+pf.name+"|accepted-but-not-stable", core.W{"input": m, "identity": id.String(), "reparsed": fmt.Sprint(id2, err2)})
									}
								}
							}
						}
						var ci *resource.CanonicalIdentity
						var cerr error
						pi := core.Try(func() { ci, cerr = canonical.IdentityFromReference(&dtpb.Canonical{Value: m}) })
						r.Eval()
						if pi != nil {
							r.Fail("edit|canonical.IdentityFromReference|"+pi.Key(), core.W{"input": m, "panic": pi.Raw})
						} else if cerr == nil && ci.String() != m && c19WellFormedCanonical(m) {
							r.Fail("edit|canonical.IdentityFromReference|well-formed-canonical-not-reassembled", core.W{"input": m, "reassembled": ci.String()})
						}
					}
				}},
				{Name: "canonical", N: 1, Note: "url x version x fragment in all presence combinations; New -> IdentityFromReference -> String", Run: func(i int, r *core.Rec) {
					urls := []string{"http://example.org/fhir/ValueSet/x", "https://h:8080/a/b/StructureDefinition/s.1", "urn:oid:1.2.3", "http://h/Questionnaire/q-1", "http://example.org/fhir/ValueSet/body%20site"}
					vers := []string{"", "1", "1.0.0", "v_1-a", "2020-01"}
					frags := []string{"", "f", "a.b-c_d", strings.Repeat("f", 64)}
					for _, u := range urls {
						for _, v := range vers {
							for _, f := range frags {
								var opts []canonical.Option
								want := u
								if v != "" {
									opts = append(opts, canonical.WithVersion(v))
									want += "|" + v
								}
								if f != "" {
									opts = append(opts, canonical.WithFragment(f))
									want += "#" + f
								}
								r.State(fmt.Sprintf("canonical|version=%v|fragment=%v", v != "", f != ""))
								var c *dtpb.Canonical
								var ci *resource.CanonicalIdentity
								var err error
								pi := core.Try(func() {
									c = canonical.New(u, opts...)
									ci, err = canonical.IdentityFromReference(c)
								})
								r.Eval()
								r.Nontrivial(want)
								r.Sample(core.W{"canonical": want})
								cls := fmt.Sprintf("version=%v,fragment=%v", v != "", f != "")
								if pi != nil {
									r.Fail("canonical|"+cls+"|"+pi.Key(), core.W{"canonical": want})
									continue
								}
								if c.GetValue() != want {
									r.Fail("canonical|"+cls+"|New-formats-differently", core.W{"got": c.GetValue(), "want": want})
								}
								if err != nil || ci.Url != u || ci.Version != v || ci.Fragment != f || ci.String() != want {
									r.Fail("canonical|"+cls+"|split-or-reassembly-differs", core.W{"canonical": want, "got": fmt.Sprintf("%+v err=%v", ci, err)})
								}
								// the parts have one place each in a canonical (url|version#fragment), in whatever order they are handed over
								if len(opts) == 2 {
									var c2 *dtpb.Canonical
									if pi := core.Try(func() { c2 = canonical.New(u, opts[1], opts[0]) }); pi != nil {
										r.Fail("canonical|"+cls+"|options-reversed|"+pi.Key(), core.W{"canonical": want})
									} else if c2.GetValue() != want {
										r.Fail("canonical|"+cls+"|options-reversed|New-formats-differently", core.W{"got": c2.GetValue(), "want": want})
									}
									r.Eval()
								}
							}
						}
					}
					for _, bad := range []string{"", "#x", "|v", "|", "#", "a||b", "a#b#c", "a|b|c"} {
						var err error
						pi := core.Try(func() { _, err = canonical.IdentityFromReference(&dtpb.Canonical{Value: bad}) })
						r.Eval()
						if pi != nil {
							r.Fail("canonical|malformed|"+pi.Key(), core.W{"input": bad, "panic": pi.Raw})
						}
						_ = err
					}
					pi := core.Try(func() { canonical.IdentityFromReference(nil) })
					if pi != nil {
						r.Fail("canonical|nil|"+pi.Key(), core.W{"input": "nil canonical"})
					}
				}},
				{Name: "identity-derivation", N: 1, Note: "identities derived with WithNewVersion / Unversioned from an identity that was formatted before: every formatter and the typed reference of the derived identity equal those of an identity built afresh from the same components; the original is unchanged", Run: func(i int, r *core.Rec) {
					fmtAll := func(id *resource.Identity) string {
						if id == nil {
							return "<nil>"
						}
						v, hv := id.VersionID()
						rv, hrv := id.RelativeVersionedURIString()
						parts := []string{string(id.Type()), id.ID(), v, fmt.Sprint(hv), id.RelativeURIString(), rv, fmt.Sprint(hrv), id.PreferRelativeVersionedURIString(), id.String()}
						if u := id.RelativeURI(); u != nil {
							parts = append(parts, u.GetValue())
						}
						if u, ok := id.RelativeVersionedURI(); ok && u != nil {
							parts = append(parts, u.GetValue())
						}
						if u := id.PreferRelativeVersionedURI(); u != nil {
							parts = append(parts, u.GetValue())
						}
						if ref := reference.TypedFromIdentity(id); ref != nil {
							parts = append(parts, fmt.Sprint(ref))
						}
						return strings.Join(parts, " | ")
					}
					for _, t := range []string{"Patient", "Observation", "MedicinalProductUndesirableEffect"} {
						for _, idv := range []string{"1", "obs-1", "A.b-9"} {
							for _, v1 := range []string{"", "1", "v-2"} {
								for _, v2 := range []string{"", "2", "1", "v.9"} {
									for _, warm := range []bool{false, true} {
										orig, err := resource.NewIdentity(t, idv, v1)
										if err != nil {
											continue
										}
										before := ""
										if warm {
											before = fmtAll(orig) // format first: whatever it memoises must not leak into derived identities
										}
										var derived *resource.Identity
										if v2 == "" {
											derived = orig.Unversioned()
										} else {
											derived = orig.WithNewVersion(v2)
										}
										fresh, _ := resource.NewIdentity(t, idv, v2)
										r.Eval()
										r.State(fmt.Sprintf("derive|warm=%v|v1=%v|v2=%v", warm, v1 != "", v2 != ""))
										r.Nontrivial(t, idv, v1, v2, fmt.Sprint(warm))
										w := core.W{"type": t, "id": idv, "version": v1, "new_version": v2, "formatted_before_deriving": warm}
										if got, want := fmtAll(derived), fmtAll(fresh); got != want {
											w["derived"], w["built_afresh"] = got, want
											r.Fail(fmt.Sprintf("identity-derivation|derived-identity-differs-from-fresh|warm=%v", warm), w)
										}
										if !derived.Equal(fresh) || !fresh.Equal(derived) {
											r.Fail("identity-derivation|derived-not-Equal-to-fresh", w)
										}
										if warm && fmtAll(orig) != before {
											r.Fail("identity-derivation|original-changed-by-deriving", w)
										}
										// parse(format(derived)) has the derived components
										if back, perr := reference.IdentityFromURL(derived.PreferRelativeVersionedURIString()); perr != nil || !back.Equal(fresh) {
											w["reparsed"] = fmt.Sprint(back, perr)
											r.Fail("identity-derivation|format-then-parse-differs", w)
										}
									}
								}
							}
						}
					}
				}},
				{Name: "is-equivalence", N: len(pool), Note: fmt.Sprintf("reference.Is over all %d^3 triples of the reference pool", len(pool)), Run: func(i int, r *core.Rec) {
					a := pool[i]
					is := func(x, y c19Ref) bool {
						var v bool
						if pi := core.Try(func() { v = reference.Is(x.ref, y.ref) }); pi != nil {
							r.Fail("Is|"+pi.Key(), core.W{"a": x.name, "b": y.name})
						}
						r.Eval()
						return v
					}
					r.State("is|" + a.name)
					if !is(a, a) {
						r.Fail("Is|not-reflexive|"+a.name, core.W{"a": a.name})
					}
					for _, b := range pool {
						ab := is(a, b)
						if ab != is(b, a) {
							r.Fail("Is|not-symmetric", core.W{"a": a.name, "b": b.name, "Is(a,b)": ab})
						}
						r.Nontrivial(a.name, b.name, fmt.Sprint(ab))
						if !ab {
							continue
						}
						for _, c := range pool {
							if is(b, c) && !is(a, c) {
								r.Fail("Is|not-transitive", core.W{"a": a.name, "b": b.name, "c": c.name})
							}
						}
					}
					r.Sample(core.W{"a": a.name})
				}},
			}
		},
	})
}

func c19WellFormedCanonical(s string) bool {
	// url [|version] [#fragment] with non-empty parts and no further separators
	u := s
	if i := strings.Index(u, "#"); i >= 0 {
		f := u[i+1:]
		u = u[:i]
		if f == "" || len(f) > 64 || strings.ContainsAny(f, "#|") || !c19Token(f) {
			return false
		}
	}
	if i := strings.Index(u, "|"); i >= 0 {
		v := u[i+1:]
		u = u[:i]
		if v == "" || strings.ContainsAny(v, "#|") || !c19Token(v) {
			return false
		}
	}
	return u != "" && !strings.ContainsAny(u, "#|")
}

func c19Token(s string) bool {
	for _, c := range []byte(s) {
		if !(c == '-' || c == '_' || c == '.' || c >= '0' && c <= '9' || c >= 'a' && c <= 'z' || c >= 'A' && c <= 'Z') {
			return false
		}
	}
	return true
}

type c19Ref struct {
	name string
	ref  *dtpb.Reference
}

func c19IsPool() []c19Ref {
	typed := func(t, id string) *dtpb.Reference {
		ref, err := reference.Typed(resource.Type(t), id)
		if err != nil {
			panic(err)
		}
		return ref
	}
	ident, _ := resource.NewIdentity("Patient", "1", "7")
	ident8, _ := resource.NewIdentity("Patient", "1", "8")
	idX := fhir.Identifier("http://sys", "X")
	idY := fhir.Identifier("http://sys", "Y")
	withIdent := func(r *dtpb.Reference, id *dtpb.Identifier) *dtpb.Reference {
		r.Identifier = id
		return r
	}
	return []c19Ref{
		{"typed Patient/1", typed("Patient", "1")},
		{"typed Patient/2", typed("Patient", "2")},
		{"typed Practitioner/1", typed("Practitioner", "1")},
		{"typed Patient/1 v7", reference.TypedFromIdentity(ident)},
		{"weak Patient/1", reference.Weak("Patient", "Patient/1")},
		{"weak Patient/1 no type", &dtpb.Reference{Reference: &dtpb.Reference_Uri{Uri: fhir.String("Patient/1")}}},
		{"weak http://h/Patient/1", reference.Weak("Patient", "http://h/Patient/1")},
		{"weak http://other/Patient/1", reference.Weak("Patient", "http://other/Patient/1")},
		{"weak Patient/1/_history/7", reference.Weak("Patient", "Patient/1/_history/7")},
		{"weak Patient/1/_history/8", reference.Weak("Patient", "Patient/1/_history/8")},
		{"typed Patient/1 v8", reference.TypedFromIdentity(ident8)},
		{"weak http://h/Patient/1/_history/8", reference.Weak("Patient", "http://h/Patient/1/_history/8")},
		{"weak Patient/2", reference.Weak("Patient", "Patient/2")},
		{"fragment #1 type Patient", &dtpb.Reference{Type: fhir.URI("Patient"), Reference: &dtpb.Reference_Fragment{Fragment: fhir.String("1")}}},
		{"fragment #1 no type", &dtpb.Reference{Reference: &dtpb.Reference_Fragment{Fragment: fhir.String("1")}}},
		{"urn:uuid", &dtpb.Reference{Reference: &dtpb.Reference_Uri{Uri: fhir.String("urn:uuid:00000000-0000-0000-0000-000000000001")}}},
		{"logical X", reference.Logical("Patient", "http://sys", "X")},
		{"logical Y", reference.Logical("Patient", "http://sys", "Y")},
		{"logical X + typed Patient/1", withIdent(typed("Patient", "1"), idX)},
		{"logical X + typed Patient/2", withIdent(typed("Patient", "2"), idX)},
		{"logical Y + typed Patient/1", withIdent(typed("Patient", "1"), idY)},
		{"logical X + weak Patient/1", withIdent(reference.Weak("Patient", "Patient/1"), idX)},
		{"type only Patient", &dtpb.Reference{Type: fhir.URI("Patient")}},
		{"display only", &dtpb.Reference{Display: fhir.String("someone")}},
		{"display only 2", &dtpb.Reference{Display: fhir.String("someone else")}},
		{"empty", &dtpb.Reference{}},
		{"typed Patient/1 + display", func() *dtpb.Reference { r := typed("Patient", "1"); r.Display = fhir.String("d"); return r }()},
		{"invalid weak", &dtpb.Reference{Reference: &dtpb.Reference_Uri{Uri: fhir.String("not a reference")}}},
		{"invalid weak 2", &dtpb.Reference{Reference: &dtpb.Reference_Uri{Uri: fhir.String("also not")}}},
	}
}
