package checks

import (
	"fmt"
	dtpb "github.com/google/fhir/go/proto/google/fhir/proto/r4/core/datatypes_go_proto"
	bcrpb "github.com/google/fhir/go/proto/google/fhir/proto/r4/core/resources/bundle_and_contained_resource_go_proto"
	"github.com/verily-src/fhirpath-go/fhirpath"
	"github.com/verily-src/fhirpath-go/fhirpath/compopts"
	"math"
	"strings"

	ppb "github.com/google/fhir/go/proto/google/fhir/proto/r4/core/resources/patient_go_proto"
	"github.com/verily-src/fhirpath-go/fhirpath/system"
	"github.com/verily-src/fhirpath-go/fhirpath/verifh/core"
	"github.com/verily-src/fhirpath-go/fhirpath/verifh/lib"
	"github.com/verily-src/fhirpath-go/internal/fhir"
	"google.golang.org/protobuf/proto"
)

// ---- C10: filtering, projection, subsetting and set functions obey the collection algebra.

// c10Item is one letter of the item alphabet. cls is the class of the
// reference equality (the partition induced by `=`: 1 = 1.0, equal copies of
// a complex element are equal).
type c10Item struct {
	id  string
	v   any
	cls string
	typ string // Integer | Decimal | String | HumanName
}

// c10SystemValueOf: g is the System value of the FHIR primitive element el (intersect hands back primitives in
// their System form, which the repository's TestIntersect asserts for FHIR integers)
func c10SystemValueOf(g any, el any) bool {
	m, ok := el.(proto.Message)
	if !ok {
		return false
	}
	if _, isProto := g.(proto.Message); isProto {
		return false
	}
	sv, err := system.From(m)
	return err == nil && lib.Show(sv) == lib.Show(g)
}

// c10FHIRAlphabet: FHIR primitive elements equal as values but different as messages, next to System values
func c10FHIRAlphabet() []c10Item {
	withID := fhir.String("a")
	withID.Id = fhir.String("g1")
	return []c10Item{
		{"f.a", fhir.String("a"), "a", "String"},
		{"f.a+id", withID, "a", "String"},
		{"s.a", system.String("a"), "a", "String"},
		{"f.b", fhir.String("b"), "b", "String"},
		{"f.1.0", &dtpb.Decimal{Value: "1.0"}, "num1", "Decimal"},
		{"f.1.00", &dtpb.Decimal{Value: "1.00"}, "num1", "Decimal"},
		{"s.1", system.Integer(1), "num1", "Integer"},
		// items of different types that print alike are different items
		{"s.'1'", system.String("1"), "str1", "String"},
		{"f.'1'", fhir.String("1"), "str1", "String"},
		{"s.true", system.Boolean(true), "true", "Boolean"},
		{"s.'true'", system.String("true"), "strtrue", "String"},
	}
}

// c10ValueLess: primitive-typed elements without a value to compare; equal copies are one class
func c10ValueLess() []c10Item {
	q := func(unit string) *dtpb.Quantity {
		return &dtpb.Quantity{Unit: fhir.String(unit), System: &dtpb.Uri{Value: "http://unitsofmeasure.org"}, Code: &dtpb.Code{Value: unit}}
	}
	absent := func() []*dtpb.Extension {
		return []*dtpb.Extension{{Url: &dtpb.Uri{Value: "http://hl7.org/fhir/StructureDefinition/data-absent-reason"}, Value: &dtpb.Extension_ValueX{Choice: &dtpb.Extension_ValueX_Code{Code: &dtpb.Code{Value: "unknown"}}}}}
	}
	return []c10Item{
		{"q.mg", q("mg"), "q.mg", "Quantity"},
		{"q.mg'", q("mg"), "q.mg", "Quantity"},
		{"q.kg", q("kg"), "q.kg", "Quantity"},
		{"dec.absent", &dtpb.Decimal{Extension: absent()}, "dec.absent", "Decimal"},
		{"dec.absent'", &dtpb.Decimal{Extension: absent()}, "dec.absent", "Decimal"},
		{"str.absent", &dtpb.String{Extension: absent()}, "str.absent", "String"},
		{"f.a", fhir.String("a"), "a", "String"},
	}
}

func c10Alphabet() []c10Item {
	return []c10Item{
		{"i1", system.Integer(1), "num1", "Integer"},
		{"i1b", system.Integer(1), "num1", "Integer"},
		{"i2", system.Integer(2), "num2", "Integer"},
		{"d1", lib.Dec("1.0"), "num1", "Decimal"},
		{"sa", system.String("a"), "a", "String"},
		{"cA", lib.NameA(), "nameA", "HumanName"},
		{"cA2", lib.NameA(), "nameA", "HumanName"},
		{"cB", lib.NameB(), "nameB", "HumanName"},
	}
}

// c10Seq decodes index i into a sequence over an alphabet of size k: all
// sequences of length 0, then length 1, ... (shortest first).
func c10Seq(i, k int) []int {
	n, cnt := 0, 1
	for i >= cnt {
		i -= cnt
		cnt *= k
		n++
	}
	s := make([]int, n)
	for p := n - 1; p >= 0; p-- {
		s[p] = i % k
		i /= k
	}
	return s
}

func c10Count(k, maxLen int) int {
	t, c := 0, 1
	for l := 0; l <= maxLen; l++ {
		t += c
		c *= k
	}
	return t
}

// same reports whether a result item is the very item x of the input
// (pointer identity for FHIR elements, type+value for System items).
func c10Same(got, x any) bool {
	if gm, ok := got.(proto.Message); ok {
		xm, ok2 := x.(proto.Message)
		return ok2 && any(gm) == any(xm)
	}
	if _, ok := x.(proto.Message); ok {
		return false
	}
	return lib.Show(got) == lib.Show(x)
}

func c10SameSeq(got system.Collection, want []any) bool {
	if len(got) != len(want) {
		return false
	}
	for i := range got {
		if !c10Same(got[i], want[i]) {
			return false
		}
	}
	return true
}

func c10Ids(items []c10Item) string {
	ids := make([]string, len(items))
	for i, it := range items {
		ids[i] = it.id
	}
	return "(" + strings.Join(ids, ",") + ")"
}

// criterion with the harness's own three-valued result per item: "t", "f", "e"(mpty) or "err"
type c10Crit struct {
	name, src string
	truth     func(it c10Item) string
	sel       func(it c10Item) []string // Show() of what select(src) yields for the item; nil = derive from truth (Boolean)
}

func c10Criteria() []c10Crit {
	isT := func(t string) func(c10Item) string {
		return func(it c10Item) string {
			if it.typ == t {
				return "t"
			}
			return "f"
		}
	}
	return []c10Crit{
		{name: "true", src: "true", truth: func(c10Item) string { return "t" }},
		{name: "false", src: "false", truth: func(c10Item) string { return "f" }},
		{name: "empty", src: "{}", truth: func(c10Item) string { return "e" }},
		{name: "isInteger", src: "$this is Integer", truth: isT("Integer")},
		{name: "isString", src: "$this is System.String", truth: isT("String")},
		{name: "isHumanName", src: "$this is HumanName", truth: isT("HumanName")},
		{name: "exists", src: "$this.exists()", truth: func(c10Item) string { return "t" }},
		{name: "emptyfn", src: "$this.empty()", truth: func(c10Item) string { return "f" }},
		{name: "and-empty", src: "($this is Integer) and {}", truth: func(it c10Item) string {
			if it.typ == "Integer" {
				return "e"
			}
			return "f"
		}},
		{name: "iif-eq1", src: "iif($this is Integer, $this = 1, {})", truth: func(it c10Item) string {
			if it.typ != "Integer" {
				return "e"
			}
			if it.cls == "num1" {
				return "t"
			}
			return "f"
		}},
		{name: "iif-gt1", src: "iif($this is Integer, $this > 1, false)", truth: func(it c10Item) string {
			if it.typ == "Integer" && it.cls == "num2" {
				return "t"
			}
			return "f"
		}},
		{name: "non-boolean-singleton", src: "'x'", truth: func(c10Item) string { return "t" },
			sel: func(c10Item) []string { return []string{`String:"x"`} }},
		{name: "multi-item", src: "%two", truth: func(c10Item) string { return "err" },
			sel: func(c10Item) []string { return []string{"Integer:7", "Integer:8"} }},
	}
}

func c10Env(c []c10Item) map[string]any {
	coll := make(system.Collection, len(c))
	for i, it := range c {
		coll[i] = it.v
	}
	return map[string]any{"c": coll, "two": system.Collection{system.Integer(7), system.Integer(8)}}
}

func c10Boolean(res lib.Res) (string, bool) {
	if !res.OK() {
		return res.Class(), false
	}
	if len(res.Coll) == 1 {
		if b, ok := res.Coll[0].(system.Boolean); ok {
			if b {
				return "true", true
			}
			return "false", true
		}
	}
	return res.Class(), false
}

func c10Key(parts ...string) string { return strings.Join(parts, "|") }

func c10Disc(res lib.Res) string {
	if res.Panic != nil {
		return res.Panic.Key()
	}
	return res.Class()
}

func c10NoNil(r *core.Rec, fn string, res lib.Res, w core.W) {
	for _, it := range res.Coll {
		if it == nil {
			r.Fail(c10Key("nil-item", fn), w)
			return
		}
		if m, ok := it.(proto.Message); ok && (m == nil || !m.ProtoReflect().IsValid()) {
			r.Fail(c10Key("nil-item", fn), w)
			return
		}
	}
}

func init() {
	alpha := c10Alphabet()
	K := len(alpha)
	crits := c10Criteria()
	decode := func(i int) []c10Item {
		s := c10Seq(i, K)
		c := make([]c10Item, len(s))
		for j, a := range s {
			c[j] = alpha[a]
		}
		return c
	}
	run := func(r *core.Rec, src string, env map[string]any, in []fhir.Resource) lib.Res {
		res := lib.Run(src, in, env)
		r.Eval()
		return res
	}
	vals := func(c []c10Item) []any {
		v := make([]any, len(c))
		for i := range c {
			v[i] = c[i].v
		}
		return v
	}
	lenClass := func(n int) string {
		switch {
		case n == 0:
			return "len0"
		case n == 1:
			return "len1"
		}
		return "len2+"
	}

	core.Register(&core.Check{
		ID:          "C10",
		Rule:        "collections = all sequences of length 0..3 (quick) / 0..4 (thorough) over the 8-item alphabet {1, 1(dup), 2, 1.0, 'a', nameA, nameA'(equal copy), nameB} supplied as an environment variable, x 13 criteria with harness-computed three-valued truth (where/exists/all/select), x all n in [-3,len+3] u {MinInt32,MaxInt32} (take/skip/indexer/first/tail/last), distinct/isDistinct/empty/count; all ordered pairs of collections of length <=2 (quick) / <=3 (thorough) for exclude/intersect; path-derived collections of hand-sized resources for the relational equations and extension(url); results compared by pointer identity for FHIR elements and by type+value for System items; non-trivial = distinct (collection, program, outcome)",
		Assumptions: []string{"the reference equality partition of the 8-item alphabet (1 = 1.0; equal copies of a complex element are equal) is hand-written and agrees with C05's reference comparator"},
		Subs: func(tier string) []core.Sub {
			maxLen, pairLen := 4, 3
			if tier == "thorough" {
				maxLen, pairLen = 5, 3
			}
			nColl := c10Count(K, maxLen)
			nPair := c10Count(K, pairLen)
			setCase := func(r *core.Rec, c, d []c10Item) {
				env := c10Env(c)
				dv := make(system.Collection, len(d))
				dcls := map[string]bool{}
				for j, it := range d {
					dv[j] = it.v
					dcls[it.cls] = true
				}
				env["d"] = dv
				overlap := "disjoint"
				var wantEx []any
				inter := map[string]bool{}
				for _, it := range c {
					if dcls[it.cls] {
						overlap = "overlap"
						inter[it.cls] = true
					} else {
						wantEx = append(wantEx, it.v)
					}
				}
				cl := lenClass(len(c)) + "," + lenClass(len(d))
				r.State("sets|" + cl + "|" + overlap)
				w := core.W{"c": c10Ids(c), "d": c10Ids(d)}
				rx := run(r, "%c.exclude(%d)", env, nil)
				r.Outcome("exclude|" + rx.Class())
				r.Nontrivial("exclude", c10Ids(c), c10Ids(d), rx.String())
				if r.WantSample() {
					r.Sample(core.W{"c": c10Ids(c), "d": c10Ids(d), "exclude": rx.String()})
				}
				c10NoNil(r, "exclude", rx, w)
				if !(rx.OK() && c10SameSeq(rx.Coll, wantEx)) {
					kind := "wrong-items"
					if rx.OK() && len(rx.Coll) > len(wantEx) {
						kind = "extra-items"
					}
					argExtra := "d-subset-of-c"
					for _, it := range d {
						in := false
						for _, ci := range c {
							if ci.cls == it.cls {
								in = true
							}
						}
						if !in {
							argExtra = "d-has-items-not-in-c"
						}
					}
					r.Fail(c10Key("exclude", cl, overlap, argExtra, kind, c10Disc(rx)), core.W{"c": c10Ids(c), "d": c10Ids(d), "got": rx.String(), "want": lib.ShowColl(wantEx)})
				}
				ri := run(r, "%c.intersect(%d)", env, nil)
				r.Outcome("intersect|" + ri.Class())
				r.Nontrivial("intersect", c10Ids(c), c10Ids(d), ri.String())
				c10NoNil(r, "intersect", ri, w)
				okI := ri.OK() && len(ri.Coll) == len(inter)
				itemKinds := map[string]bool{}
				if okI {
					seen := map[string]bool{}
					for _, g := range ri.Coll {
						found := ""
						for _, it := range c {
							if inter[it.cls] && (c10Same(g, it.v) || c10SystemValueOf(g, it.v)) {
								found = it.cls
								break
							}
						}
						if found == "" || seen[found] {
							okI = false
						}
						seen[found] = true
					}
				}
				for _, it := range c {
					if inter[it.cls] {
						if it.typ == "HumanName" {
							itemKinds["complex"] = true
						} else {
							itemKinds["system"] = true
						}
					}
				}
				if !okI {
					ik := "none"
					if itemKinds["complex"] && itemKinds["system"] {
						ik = "mixed"
					} else if itemKinds["complex"] {
						ik = "complex"
					} else if itemKinds["system"] {
						ik = "system"
					}
					r.Fail(c10Key("intersect", cl, overlap, "common="+ik, c10Disc(ri)), core.W{"c": c10Ids(c), "d": c10Ids(d), "got": ri.String(), "want": fmt.Sprintf("duplicate-free items of c from %d common classes", len(inter))})
				}
			}
			return []core.Sub{
				{Name: "criteria", N: nColl, Note: fmt.Sprintf("all %d collections of length <=%d x 13 criteria x {where, exists, all, select}", nColl, maxLen), Run: func(i int, r *core.Rec) {
					c := decode(i)
					env := c10Env(c)
					for _, p := range crits {
						r.State("crit|" + p.name + "|" + lenClass(len(c)))
						var filtered []any
						var selected []string
						anyErr, allTrue := false, true
						for _, it := range c {
							t := p.truth(it)
							switch t {
							case "t":
								filtered = append(filtered, it.v)
							case "err":
								anyErr = true
							}
							if t != "t" {
								allTrue = false
							}
							if p.sel != nil {
								selected = append(selected, p.sel(it)...)
							} else if t == "t" {
								selected = append(selected, "Boolean:true")
							} else if t == "f" {
								selected = append(selected, "Boolean:false")
							}
						}
						w := func(src string, res lib.Res, want string) core.W {
							return core.W{"c": c10Ids(c), "src": src, "got": res.String(), "want": want}
						}
						// where
						src := "%c.where(" + p.src + ")"
						res := run(r, src, env, nil)
						r.Outcome("where|" + res.Class())
						r.Nontrivial(src, c10Ids(c), res.String())
						if r.WantSample() {
							r.Sample(w(src, res, fmt.Sprint(len(filtered))+" items"))
						}
						c10NoNil(r, "where", res, w(src, res, ""))
						if anyErr {
							if res.Panic != nil || res.Err == nil {
								r.Fail(c10Key("where", p.name, lenClass(len(c)), "want-error", c10Disc(res)), w(src, res, "error (multi-item criterion)"))
							}
						} else if !(res.OK() && c10SameSeq(res.Coll, filtered)) {
							r.Fail(c10Key("where", p.name, lenClass(len(c)), "not-the-filtered-subcollection", c10Disc(res)), w(src, res, lib.ShowColl(filtered)))
						}
						// exists(p)
						src = "%c.exists(" + p.src + ")"
						res = run(r, src, env, nil)
						r.Outcome("exists|" + res.Class())
						r.Nontrivial(src, c10Ids(c), res.String())
						if anyErr {
							if res.Panic != nil || res.Err == nil {
								r.Fail(c10Key("exists", p.name, lenClass(len(c)), "want-error", c10Disc(res)), w(src, res, "error"))
							}
						} else if b, ok := c10Boolean(res); !ok || (b == "true") != (len(filtered) > 0) {
							r.Fail(c10Key("exists", p.name, lenClass(len(c)), "!=where.exists", c10Disc(res)), w(src, res, fmt.Sprint(len(filtered) > 0)))
						}
						// all(p)
						src = "%c.all(" + p.src + ")"
						res = run(r, src, env, nil)
						r.Outcome("all|" + res.Class())
						r.Nontrivial(src, c10Ids(c), res.String())
						if anyErr {
							if res.Panic != nil || res.Err == nil {
								r.Fail(c10Key("all", p.name, lenClass(len(c)), "want-error", c10Disc(res)), w(src, res, "error"))
							}
						} else if b, ok := c10Boolean(res); !ok || (b == "true") != allTrue {
							r.Fail(c10Key("all", p.name, lenClass(len(c)), "wrong-truth", c10Disc(res)), w(src, res, fmt.Sprint(allTrue)))
						}
						// select(p)
						src = "%c.select(" + p.src + ")"
						res = run(r, src, env, nil)
						r.Outcome("select|" + res.Class())
						r.Nontrivial(src, c10Ids(c), res.String())
						c10NoNil(r, "select", res, w(src, res, ""))
						okSel := res.OK() && len(res.Coll) == len(selected)
						if okSel {
							for j := range selected {
								if lib.Show(res.Coll[j]) != selected[j] {
									okSel = false
								}
							}
						}
						if !okSel {
							r.Fail(c10Key("select", p.name, lenClass(len(c)), "not-the-concatenation", c10Disc(res)), w(src, res, "["+strings.Join(selected, ", ")+"]"))
						}
					}
					// exists(p) = where(p).exists() also for criteria that are not defined on every item (an ordering against a
					// number fails on a String or a complex item, a string function on a multi-item path): both forms give the
					// same value or both fail, wherever in the collection the offending item sits
					for _, ps := range []string{"$this > 0", "$this + 1 = 2", "$this.toString() = '1'", "given.startsWith('A')", "$this < 'b'", "$this = 1 or $this > 1"} {
						ex := run(r, "%c.exists("+ps+")", env, nil)
						wh := run(r, "%c.where("+ps+").exists()", env, nil)
						r.State("crit-partial|" + ps + "|" + lenClass(len(c)))
						r.Nontrivial("partial", ps, c10Ids(c), ex.Class(), wh.Class())
						if ex.Panic != nil || wh.Panic != nil {
							r.Fail(c10Key("exists", "partial:"+ps, lenClass(len(c)), "panic", c10Disc(ex)), core.W{"c": c10Ids(c), "criterion": ps})
							continue
						}
						exv, whv := ex.String(), wh.String()
						if ex.Err != nil {
							exv = "error"
						}
						if wh.Err != nil {
							whv = "error"
						}
						if exv != whv {
							r.Fail(c10Key("exists", "partial:"+ps, lenClass(len(c)), "!=where.exists", exv+"-vs-"+whv), core.W{"c": c10Ids(c), "criterion": ps, "exists(p)": ex.String(), "where(p).exists()": wh.String()})
						}
					}
					// select($this) is the identity, select of a path concatenates in order
					src := "%c.select($this)"
					res := run(r, src, env, nil)
					if !(res.OK() && c10SameSeq(res.Coll, vals(c))) {
						r.Fail(c10Key("select", "$this", lenClass(len(c)), "not-identity", c10Disc(res)), core.W{"c": c10Ids(c), "src": src, "got": res.String()})
					}
				}},
				{Name: "subsetting", N: nColl, Note: "every collection x n in [-3,len+3] u {MinInt32,MaxInt32} for take/skip/[n]; first/tail/last/empty/count/distinct/isDistinct", Run: func(i int, r *core.Rec) {
					c := decode(i)
					env := c10Env(c)
					all := vals(c)
					L := len(c)
					ns := []int64{math.MinInt32, math.MaxInt32}
					for n := int64(-3); n <= int64(L)+3; n++ {
						ns = append(ns, n)
					}
					nClass := func(n int64) string {
						switch {
						case n == math.MinInt32:
							return "n=MinInt32"
						case n == math.MaxInt32:
							return "n=MaxInt32"
						case n < 0:
							return "n<0"
						case n == 0:
							return "n=0"
						case n < int64(L):
							return "0<n<len"
						case n == int64(L):
							return "n=len"
						}
						return "n>len"
					}
					clamp := func(n int64) int {
						if n < 0 {
							return 0
						}
						if n > int64(L) {
							return L
						}
						return int(n)
					}
					for _, n := range ns {
						env["n"] = system.Integer(int32(n))
						r.State("subset|" + nClass(n) + "|" + lenClass(L))
						k := clamp(n)
						for _, form := range []string{"env", "lit"} {
							arg := "%n"
							if form == "lit" {
								if n == math.MinInt32 {
									continue // not expressible as a literal
								}
								arg = fmt.Sprint(n)
							}
							for _, fn := range []string{"take", "skip", "index"} {
								src := "%c." + fn + "(" + arg + ")"
								var want []any
								switch fn {
								case "take":
									want = all[:k]
								case "skip":
									want = all[k:]
								case "index":
									src = "%c[" + arg + "]"
									if n >= 0 && n < int64(L) {
										want = all[n : n+1]
									}
								}
								res := run(r, src, env, nil)
								r.Outcome(fn + "|" + res.Class())
								r.Nontrivial(src, c10Ids(c), fmt.Sprint(n), res.String())
								if r.WantSample() {
									r.Sample(core.W{"c": c10Ids(c), "src": src, "n": n, "got": res.String()})
								}
								c10NoNil(r, fn, res, core.W{"c": c10Ids(c), "src": src, "n": n})
								if !(res.OK() && c10SameSeq(res.Coll, want)) {
									r.Fail(c10Key(fn, nClass(n), lenClass(L), form, c10Disc(res)), core.W{"c": c10Ids(c), "src": src, "n": n, "got": res.String(), "want": lib.ShowColl(want)})
								}
							}
						}
					}
					delete(env, "n")
					// positional equations evaluated as real programs
					eqs := []struct {
						name string
						a, b string
					}{
						{"first=[0]", "%c.first()", "%c[0]"},
						{"first=take(1)", "%c.first()", "%c.take(1)"},
						{"tail=skip(1)", "%c.tail()", "%c.skip(1)"},
						{"last=skip(count()-1)", "%c.last()", "%c.skip(%c.count()-1)"},
					}
					for _, e := range eqs {
						ra, rb := run(r, e.a, env, nil), run(r, e.b, env, nil)
						r.Nontrivial(e.name, c10Ids(c), ra.String())
						var want []any
						switch e.name {
						case "first=[0]", "first=take(1)":
							if L > 0 {
								want = all[:1]
							}
						case "tail=skip(1)":
							if L > 0 {
								want = all[1:]
							}
						default:
							if L > 0 {
								want = all[L-1:]
							}
						}
						if !(ra.OK() && c10SameSeq(ra.Coll, want)) {
							r.Fail(c10Key("positional", e.name, lenClass(L), "lhs", c10Disc(ra)), core.W{"c": c10Ids(c), "src": e.a, "got": ra.String(), "want": lib.ShowColl(want)})
						}
						if !(rb.OK() && ra.OK() && c10SameSeq(rb.Coll, []any(ra.Coll))) {
							r.Fail(c10Key("positional", e.name, lenClass(L), "sides-differ", c10Disc(rb)), core.W{"c": c10Ids(c), "lhs": e.a, "rhs": e.b, "lhs_got": ra.String(), "rhs_got": rb.String()})
						}
					}
					// empty() = (count() = 0), count
					re, rc, rz := run(r, "%c.empty()", env, nil), run(r, "%c.count()", env, nil), run(r, "%c.count() = 0", env, nil)
					if !(rc.OK() && len(rc.Coll) == 1 && rc.Coll[0] == system.Integer(int32(L))) {
						r.Fail(c10Key("count", lenClass(L), c10Disc(rc)), core.W{"c": c10Ids(c), "got": rc.String(), "want": L})
					}
					be, ok1 := c10Boolean(re)
					bz, ok2 := c10Boolean(rz)
					if !ok1 || !ok2 || be != bz || (be == "true") != (L == 0) {
						r.Fail(c10Key("empty=count()=0", lenClass(L), c10Disc(re)), core.W{"c": c10Ids(c), "empty()": re.String(), "count()=0": rz.String()})
					}
					// distinct / isDistinct
					classes := map[string]bool{}
					for _, it := range c {
						classes[it.cls] = true
					}
					rd := run(r, "%c.distinct()", env, nil)
					r.Nontrivial("distinct", c10Ids(c), rd.String())
					c10NoNil(r, "distinct", rd, core.W{"c": c10Ids(c)})
					okD := rd.OK() && len(rd.Coll) == len(classes)
					if okD {
						seen := map[string]bool{}
						for _, g := range rd.Coll {
							found := ""
							for _, it := range c {
								if c10Same(g, it.v) {
									found = it.cls
									break
								}
							}
							if found == "" || seen[found] {
								okD = false
							}
							seen[found] = true
						}
					}
					dupClass := "with-duplicates"
					if len(classes) == L {
						dupClass = "no-duplicates"
					}
					if !okD {
						r.Fail(c10Key("distinct", dupClass, lenClass(L), c10Disc(rd)), core.W{"c": c10Ids(c), "got": rd.String(), "want": fmt.Sprintf("one representative of each of %d classes, each an item of c", len(classes))})
					}
					ri := run(r, "%c.isDistinct()", env, nil)
					rdc := run(r, "%c.count() = %c.distinct().count()", env, nil)
					bi, ok1 := c10Boolean(ri)
					bd, ok2 := c10Boolean(rdc)
					if !ok1 || !ok2 || bi != bd || (bi == "true") != (len(classes) == L) {
						r.Fail(c10Key("isDistinct", dupClass, lenClass(L), c10Disc(ri)), core.W{"c": c10Ids(c), "isDistinct": ri.String(), "count()=distinct().count()": rdc.String(), "want": len(classes) == L})
					}
				}},
				{Name: "large-collections", N: len(c10LargeCases(tier)), Note: "collections of 7..1025 (thorough: ..10000) items around powers of two x 6 textures (distinct integers, three recurring integers, five recurring strings, Integer / Decimal alternation of equal values, one late duplicate, complex elements with equal copies): where / exists / all for 4-5 criteria, select, first / last / tail / take / skip / indexer at 10 positions with the partition law, distinct, isDistinct, exclude and intersect for 7 arguments drawn from the collection", Run: func(i int, r *core.Rec) {
					before := r.Evals
					c10LargeOne(r, c10LargeCases(tier)[i])
					r.NontrivialByConstruction(r.Evals - before)
				}},
				{Name: "same-id-elements", N: len(c10SameIDCases()), Note: "all sequences of length 2..4 over four HumanNames (two equal copies with one element id, one with the same id and other content, one with the same content and another id): the whole battery of the large collections (where / exists / all, subsetting, distinct, isDistinct, exclude, intersect)", Run: func(i int, r *core.Rec) {
					before := r.Evals
					c10LargeOne(r, c10SameIDCases()[i])
					r.NontrivialByConstruction(r.Evals - before)
				}},
				{Name: "set-functions-fhir-primitives", N: c10Count(len(c10FHIRAlphabet()), 2) * c10Count(len(c10FHIRAlphabet()), 2), Note: "the same over FHIR primitive elements that are equal as values but not as messages (a string with and without an element id, decimals 1.0 / 1.00) mixed with System values, collections of length <=2", Run: func(i int, r *core.Rec) {
					al := c10FHIRAlphabet()
					n := c10Count(len(al), 2)
					dec := func(k int) []c10Item {
						var out []c10Item
						for _, x := range c10Seq(k, len(al)) {
							out = append(out, al[x])
						}
						return out
					}
					setCase(r, dec(i/n), dec(i%n))
				}},
				{Name: "set-functions-value-less-primitives", N: c10Count(len(c10ValueLess()), 3) * c10Count(len(c10ValueLess()), 1), Note: "collections of length <=3 over primitive-typed elements that have no value to compare (a Quantity with only a unit, twice as equal copies and once with another unit; a decimal and a string carrying only an extension, each twice) next to a string with a value, x arguments of length <=1: distinct / isDistinct / exclude / intersect treat equal copies as one class", Run: func(i int, r *core.Rec) {
					al := c10ValueLess()
					n := c10Count(len(al), 1)
					dec := func(k int) []c10Item {
						var out []c10Item
						for _, x := range c10Seq(k, len(al)) {
							out = append(out, al[x])
						}
						return out
					}
					c, d := dec(i/n), dec(i%n)
					setCase(r, c, d)
					if i%n != 0 {
						return
					}
					env := c10Env(c)
					classes := map[string]bool{}
					for _, it := range c {
						classes[it.cls] = true
					}
					rd := run(r, "%c.distinct().count()", env, nil)
					ri := run(r, "%c.isDistinct()", env, nil)
					rs := run(r, "%c.exclude(%c).count()", env, nil)
					r.Nontrivial("value-less", c10Ids(c), rd.String(), ri.String(), rs.String())
					bi, okb := c10Boolean(ri)
					if !(rd.OK() && len(rd.Coll) == 1 && rd.Coll[0] == system.Integer(int32(len(classes)))) || !okb || (bi == "true") != (len(classes) == len(c)) {
						r.Fail(c10Key("distinct", "value-less-primitives", lenClass(len(c)), c10Disc(rd)), core.W{"c": c10Ids(c), "distinct().count()": rd.String(), "isDistinct()": ri.String(), "classes": len(classes)})
					}
					if !(rs.OK() && len(rs.Coll) == 1 && rs.Coll[0] == system.Integer(0)) {
						r.Fail(c10Key("exclude", "value-less-primitives", "c.exclude(c)", c10Disc(rs)), core.W{"c": c10Ids(c), "exclude(c).count()": rs.String()})
					}
				}},
				{Name: "select-over-mixed-types", N: c10Count(4, 3), Note: "all input collections of length <=3 over {Patient with birthDate, Patient without, Observation, Questionnaire} x 6 element names x {select(n), select(n).count(), select(n).empty(), where(true).select(n)}: the in-order concatenation of n over the items, a name that is no element of an item's type contributing nothing unless that holds for every item", Run: func(i int, r *core.Rec) {
					mk := []func() fhir.Resource{
						func() fhir.Resource { p := lib.Patient(); return p },
						func() fhir.Resource {
							p := lib.Patient()
							p.BirthDate, p.Active = nil, nil
							return p
						},
						func() fhir.Resource { return lib.Observation() },
						func() fhir.Resource { return lib.Questionnaire() },
					}
					var in []fhir.Resource
					var ids []string
					for _, k := range c10Seq(i, len(mk)) {
						in = append(in, mk[k]())
						ids = append(ids, fmt.Sprint(k))
					}
					for _, n := range []string{"birthDate", "active", "status", "subject", "id", "gender"} {
						var want []any
						invalid := 0
						for _, res := range in {
							one := lib.Run(n, []fhir.Resource{res}, nil)
							r.Eval()
							if one.Err != nil {
								invalid++
								continue
							}
							for _, v := range one.Coll {
								want = append(want, v)
							}
						}
						wantErr := len(in) > 0 && invalid == len(in)
						r.State(fmt.Sprintf("select-mixed|invalid=%v|values=%v", invalid > 0, len(want) > 0))
						for _, form := range []string{"select(N)", "where(true).select(N)", "select(N).count()", "select(N).empty()"} {
							src := strings.Replace(form, "N", n, 1)
							got := lib.Run(src, in, nil)
							r.Eval()
							r.Nontrivial(strings.Join(ids, ","), src, got.String())
							ok := false
							switch {
							case wantErr:
								ok = got.Err != nil
							case got.Err != nil:
							case strings.HasSuffix(form, "count()"):
								ok = len(got.Coll) == 1 && got.Coll[0] == system.Integer(int32(len(want)))
							case strings.HasSuffix(form, "empty()"):
								ok = len(got.Coll) == 1 && got.Coll[0] == system.Boolean(len(want) == 0)
							default:
								ok = lib.ShowColl(got.Coll) == lib.ShowColl(want)
							}
							if !ok {
								r.Fail(c10Key("select", "mixed-types", form, fmt.Sprintf("some-item-lacks-the-name=%v,values=%v", invalid > 0, len(want) > 0), c10Disc(got)), core.W{"inputs": ids, "src": src, "got": core.Short(got.String(), 200), "want": core.Short(lib.ShowColl(want), 200), "want_error": wantErr})
							}
						}
					}
				}},
				{Name: "set-functions", N: nPair * nPair, Note: fmt.Sprintf("all ordered pairs of collections of length <=%d (%d^2) x {exclude, intersect}", pairLen, nPair), Run: func(i int, r *core.Rec) {
					setCase(r, decode(i/nPair), decode(i%nPair))
				}},
				{Name: "aggregates-under-both-navigations", N: 2, Note: "13 paths (choice elements, contained resources, Bundle entries incl. an entry whose resource wrapper is empty) x 6 inputs x {default, Permissive}: empty() = (count() = 0), exists() = empty().not(), count() = where(true).count() = select($this).count(), first() + tail() = all, isDistinct() = (count() = distinct().count()), all(true)", Run: func(i int, r *core.Rec) {
					var copts []fhirpath.CompileOption
					cfg := "default"
					if i == 1 {
						copts, cfg = []fhirpath.CompileOption{compopts.Permissive()}, "Permissive"
					}
					degenerate := func() fhir.Resource {
						b := lib.Bundle()
						b.Entry = append([]*bcrpb.Bundle_Entry{{Resource: &bcrpb.ContainedResource{}}}, b.Entry...)
						return b
					}
					onlyEmpty := func() fhir.Resource {
						return &bcrpb.Bundle{Entry: []*bcrpb.Bundle_Entry{{Resource: &bcrpb.ContainedResource{}}, {Resource: &bcrpb.ContainedResource{}}}}
					}
					inputs := []struct {
						name string
						mk   func() fhir.Resource
					}{{"Patient", func() fhir.Resource { return lib.Patient() }}, {"PatientWithContained", func() fhir.Resource { return lib.PatientWithContained() }}, {"Observation", func() fhir.Resource { return lib.Observation() }},
						{"Bundle", func() fhir.Resource { return lib.Bundle() }}, {"Bundle(first entry: empty wrapper)", degenerate}, {"Bundle(only empty wrappers)", onlyEmpty}}
					paths := []string{"Bundle.entry.resource", "Bundle.entry.first().resource", "Bundle.entry.take(1).resource", "Bundle.entry.resource.first()", "Bundle.entry.resource.name", "Patient.contained", "Patient.deceased",
						"Patient.multipleBirth", "Patient.name.given", "Observation.value", "Patient.extension.value", "children()", "Patient.generalPractitioner"}
					for _, inp := range inputs {
						for _, P := range paths {
							in := []fhir.Resource{inp.mk()}
							ev := func(src string) string {
								res := lib.Run(src, in, nil, copts...)
								r.Eval()
								if res.Panic != nil {
									return "PANIC " + res.Panic.Key()
								}
								if res.Err != nil || res.CompileErr != nil {
									return "error"
								}
								return lib.ShowColl(res.Coll)
							}
							base := ev(P + ".count()")
							if base == "error" || strings.HasPrefix(base, "PANIC") {
								continue // the path itself does not evaluate on this input: nothing to relate
							}
							r.State("aggregates|" + cfg)
							for _, eq := range []struct{ name, l, rr string }{
								{"empty=count-is-0", P + ".empty()", "(" + P + ".count() = 0)"}, {"exists=not-empty", P + ".exists()", P + ".empty().not()"}, {"count=where(true).count", P + ".count()", P + ".where(true).count()"},
								{"count=select($this).count", P + ".count()", P + ".select($this).count()"}, {"first+tail", "(" + P + ".first().count() + " + P + ".tail().count())", P + ".count()"},
								{"isDistinct", P + ".isDistinct()", "(" + P + ".count() = " + P + ".distinct().count())"}, {"all(true)", P + ".all(true)", "true"}, {"take+skip", "(" + P + ".take(1).count() + " + P + ".skip(1).count())", P + ".count()"},
							} {
								gl, gr := ev(eq.l), ev(eq.rr)
								r.Nontrivial(inp.name, cfg, eq.l, gl, gr)
								if gl != gr {
									r.Fail(c10Key("aggregate-equation", eq.name, cfg, gl+"-vs-"+gr), core.W{"input": inp.name, "compile_option": cfg, "lhs": eq.l, "rhs": eq.rr, "lhs_result": gl, "rhs_result": gr})
								}
							}
						}
					}
				}},
				{Name: "resource-paths", N: len(c10Paths), Note: "path-derived collections (primitive, complex, mixed, duplicates) x relational equations x extension(url)", Run: func(i int, r *core.Rec) {
					p := c10Paths[i]
					in := []fhir.Resource{p.res()}
					base := run(r, p.path, nil, in)
					if !base.OK() {
						r.Fail(c10Key("path", p.path, c10Disc(base)), core.W{"src": p.path, "got": base.String()})
						return
					}
					L := len(base.Coll)
					all := []any(base.Coll)
					r.State("path|" + lenClass(L))
					cmp := func(name, src string, want []any) {
						res := run(r, src, nil, in)
						r.Nontrivial(src, res.String())
						if r.WantSample() {
							r.Sample(core.W{"src": src, "got": res.String()})
						}
						c10NoNil(r, name, res, core.W{"src": src})
						if !(res.OK() && c10SameSeq(res.Coll, want)) {
							r.Fail(c10Key("path-eq", name, lenClass(L), c10Disc(res)), core.W{"src": src, "got": res.String(), "want": lib.ShowColl(want)})
						}
					}
					sub := func(a, b int) []any {
						if a < 0 {
							a = 0
						}
						if a > L {
							a = L
						}
						if b > L {
							b = L
						}
						if a > b {
							return nil
						}
						return all[a:b]
					}
					cmp("where(true)", p.path+".where(true)", all)
					cmp("where($this.exists())", p.path+".where($this.exists())", all)
					cmp("where(false)", p.path+".where(false)", nil)
					cmp("select($this)", p.path+".select($this)", all)
					cmp("first", p.path+".first()", sub(0, 1))
					cmp("[0]", "("+p.path+")[0]", sub(0, 1))
					cmp("tail", p.path+".tail()", sub(1, L))
					cmp("last", p.path+".last()", sub(L-1, L))
					for n := -1; n <= L+1; n++ {
						k := n
						if k < 0 {
							k = 0
						}
						cmp("take", fmt.Sprintf("%s.take(%d)", p.path, n), sub(0, k))
						cmp("skip", fmt.Sprintf("%s.skip(%d)", p.path, n), sub(k, L))
						if n >= 0 {
							cmp("index", fmt.Sprintf("(%s)[%d]", p.path, n), sub(n, n+1))
						}
					}
					for _, cr := range p.crits {
						rw := run(r, p.path+".where("+cr+")", nil, in)
						rex := run(r, p.path+".exists("+cr+")", nil, in)
						rwe := run(r, p.path+".where("+cr+").exists()", nil, in)
						ral := run(r, p.path+".all("+cr+")", nil, in)
						rcnt := run(r, p.path+".where("+cr+").count() = "+p.path+".count()", nil, in)
						r.Nontrivial(p.path, cr, rw.String())
						if rw.OK() {
							// order-preserving sub-collection of the input's own nodes
							j := 0
							okSub := true
							for _, g := range rw.Coll {
								for j < L && !c10Same(g, all[j]) {
									j++
								}
								if j == L {
									okSub = false
									break
								}
								j++
							}
							if !okSub {
								r.Fail(c10Key("path-where", "not-a-subsequence"), core.W{"src": p.path + ".where(" + cr + ")", "got": rw.String()})
							}
						}
						if rw.Class() == "panic" || rex.String() != rwe.String() {
							r.Fail(c10Key("path-exists", "exists(p)!=where(p).exists()"), core.W{"path": p.path, "criterion": cr, "exists(p)": rex.String(), "where(p).exists()": rwe.String()})
						}
						// all(p) = (where(p).count() = count()) whenever p is Boolean-valued and non-empty on every item (true of these criteria)
						if ral.OK() && rcnt.OK() && ral.String() != rcnt.String() {
							r.Fail(c10Key("path-all", "all(p)!=(where(p).count()=count())"), core.W{"path": p.path, "criterion": cr, "all(p)": ral.String(), "count-eq": rcnt.String()})
						}
					}
					// select(P) is P evaluated on each item on its own, flattened in order: the projection is an
					// arbitrary expression (indexers, subsetting, counts inside it are per item)
					for _, proj := range []string{"$this", "id", "extension[0]", "extension.first()", "extension.last()", "extension.take(1)", "extension.count()", "children()[0]", "children().first()", "children().last()",
						"children().take(2).count()", "children().count()", "given[0]", "given[1]", "given.first()", "given.last()", "given.count()", "$this.given[0] & '!'", "line[0]", "coding[0].code", "iif(children().count() > 1, children()[1], children()[0])"} {
						whole := run(r, p.path+".select("+proj+")", nil, in)
						var parts []any
						perItemOK := true
						for k := 0; k < L && perItemOK; k++ {
							one := run(r, fmt.Sprintf("(%s)[%d].select(%s)", p.path, k, proj), nil, in)
							if !one.OK() {
								perItemOK = false
								break
							}
							parts = append(parts, []any(one.Coll)...)
						}
						r.Nontrivial(p.path, "select", proj, whole.String())
						if whole.Panic != nil {
							r.Fail(c10Key("path-select", "per-item", c10Disc(whole)), core.W{"src": p.path + ".select(" + proj + ")"})
							continue
						}
						if perItemOK != whole.OK() {
							if perItemOK { // every item alone projects fine, the whole does not (the converse is legitimate: mixed types)
								r.Fail(c10Key("path-select", "per-item", "whole-fails-items-succeed"), core.W{"src": p.path + ".select(" + proj + ")", "got": whole.String()})
							}
							continue
						}
						sameSeq := len(whole.Coll) == len(parts)
						for k := 0; sameSeq && k < len(parts); k++ {
							if c10Same(whole.Coll[k], parts[k]) {
								continue
							}
							// the reference string of a Reference is synthesised anew by every evaluation: equal text is all there is
							sa, oka := whole.Coll[k].(*dtpb.String)
							sb, okb := parts[k].(*dtpb.String)
							sameSeq = oka && okb && sa.GetValue() == sb.GetValue()
						}
						if perItemOK && !sameSeq {
							r.Fail(c10Key("path-select", "per-item", "select(P)!=concatenation-of-P-per-item", lenClass(L)), core.W{"src": p.path + ".select(" + proj + ")", "got": whole.String(), "want": lib.ShowColl(parts)})
						}
					}
					for _, u := range p.exturls {
						a := run(r, p.path+".extension('"+u+"')", nil, in)
						b := run(r, p.path+".extension.where(url = '"+u+"')", nil, in)
						r.Nontrivial(p.path, "ext", u, a.String())
						c10NoNil(r, "extension", a, core.W{"path": p.path, "url": u})
						if !(a.OK() && b.OK() && c10SameSeq(a.Coll, []any(b.Coll))) {
							r.Fail(c10Key("extension(u)!=extension.where(url=u)", lenClass(len(b.Coll))), core.W{"path": p.path, "url": u, "extension(u)": a.String(), "extension.where": b.String()})
						}
					}
				}},
			}
		},
	})
}

type c10Path struct {
	res     func() fhir.Resource
	path    string
	crits   []string
	exturls []string
}

var c10Paths = func() []c10Path {
	pat := func() fhir.Resource { return lib.Patient() }
	obs := func() fhir.Resource { return lib.Observation() }
	qst := func() fhir.Resource { return lib.Questionnaire() }
	bun := func() fhir.Resource { return lib.Bundle() }
	urls := []string{"http://u", "http://v", "http://none", ""}
	// a Patient whose extensions include ones without a url element and with an empty url
	pex := func() fhir.Resource {
		p := lib.Patient()
		p.Extension = append(p.Extension, &dtpb.Extension{Value: &dtpb.Extension_ValueX{Choice: &dtpb.Extension_ValueX_StringValue{StringValue: fhir.String("orphan")}}}, &dtpb.Extension{Url: fhir.URI("")},
			&dtpb.Extension{Url: fhir.URI("http://u"), Value: &dtpb.Extension_ValueX{Choice: &dtpb.Extension_ValueX_Boolean{Boolean: fhir.Boolean(true)}}})
		if p.BirthDate != nil {
			p.BirthDate.Extension = append(p.BirthDate.Extension, &dtpb.Extension{Value: &dtpb.Extension_ValueX{Choice: &dtpb.Extension_ValueX_StringValue{StringValue: fhir.String("orphan")}}}, &dtpb.Extension{Url: fhir.URI("http://v")})
		}
		return p
	}
	// a Patient whose repeated elements each carry extensions (several carriers of one url, in several parents)
	pnx := func() fhir.Resource {
		p := lib.Patient()
		sx := func(u, v string) *dtpb.Extension {
			return &dtpb.Extension{Url: fhir.URI(u), Value: &dtpb.Extension_ValueX{Choice: &dtpb.Extension_ValueX_StringValue{StringValue: fhir.String(v)}}}
		}
		for k, n := range p.Name {
			n.Extension = append(n.Extension, sx("http://u", fmt.Sprintf("name%d", k)))
			if k%2 == 0 {
				n.Extension = append(n.Extension, sx("http://v", fmt.Sprintf("v%d", k)), sx("http://u", fmt.Sprintf("again%d", k)))
			}
			for g, gv := range n.Given {
				gv.Extension = append(gv.Extension, sx("http://u", fmt.Sprintf("given%d.%d", k, g)))
			}
		}
		for k, t := range p.Telecom {
			t.Extension = append(t.Extension, sx("http://v", fmt.Sprintf("t%d", k)))
		}
		return p
	}
	// criteria that yield FHIR boolean *elements* (not System Booleans), including false ones
	patc := func() fhir.Resource {
		p := lib.PatientWith(lib.B(false), lib.B(true))
		for _, pref := range []bool{true, false, true} {
			p.Communication = append(p.Communication, &ppb.Patient_Communication{Language: fhir.CodeableConcept("l"), Preferred: fhir.Boolean(pref)})
		}
		return p
	}
	return []c10Path{
		{patc, "Patient", []string{"active", "deceased", "active.not()", "communication.exists()"}, nil},
		{patc, "Patient.communication", []string{"preferred", "preferred.not()", "preferred = false", "language.exists()"}, nil},
		{patc, "Patient.communication.preferred", []string{"$this", "$this.not()", "$this = true"}, nil},
		{pat, "Patient", []string{"active", "active.not()", "name.exists()"}, urls},
		{pex, "Patient", []string{"extension.exists()"}, urls},
		{pex, "Patient.birthDate", []string{"extension.exists()"}, urls},
		{pex, "Patient.extension", []string{"url.exists()", "url = ''", "url.empty()"}, urls},
		{pnx, "Patient.name", []string{"extension.exists()", "extension('http://v').exists()", "extension('http://u').count() > 1"}, urls},
		{pnx, "Patient.name.given", []string{"extension('http://u').exists()"}, urls},
		{pnx, "Patient.telecom", []string{"extension('http://v').value = 't0'"}, urls},
		{pnx, "Patient.name.tail()", []string{"extension.exists()"}, urls},
		{pat, "Patient.name", []string{"use = 'official'", "family = 'Jones'", "given.count() > 1", "family.exists()", "period.exists()"}, urls},
		{pat, "Patient.name.given", []string{"$this = 'Ann'", "$this.length() > 2", "$this is string"}, urls},
		{pat, "Patient.name.family", []string{"$this = 'Smith'"}, nil},
		{pat, "Patient.telecom", []string{"system = 'phone'", "rank > 1", "value.exists()"}, urls},
		{pat, "Patient.identifier", []string{"system = 'http://sys'", "value = 'id-2'"}, nil},
		{pat, "Patient.extension", []string{"url = 'http://u'", "value is string", "value.exists()"}, urls},
		{pat, "Patient.address.line", []string{"$this.startsWith('1')"}, nil},
		{pat, "Patient.meta.tag", []string{"code = 'y'"}, nil},
		{pat, "Patient.generalPractitioner", []string{"reference.exists()", "reference = 'Practitioner/pr1/_history/2'"}, nil},
		{pat, "Patient.name.period", []string{"true"}, nil},
		{obs, "Observation.component", []string{"value is integer", "code.text = 'dia'", "value.exists()"}, urls},
		{obs, "Observation.component.value", []string{"$this is integer", "$this is string"}, nil},
		{obs, "Observation.note.text", []string{"$this = 'n2'"}, nil},
		{qst, "Questionnaire.item", []string{"type = 'group'", "item.exists()"}, urls},
		{qst, "Questionnaire.item.item", []string{"linkId = '1.2'", "type = 'string'"}, nil},
		{bun, "Bundle.entry", []string{"fullUrl = 'urn:uuid:2'", "resource.exists()"}, nil},
		{bun, "Bundle.entry.resource", []string{"$this is Patient", "$this is Observation", "id = 'o1'"}, urls},
		{bun, "Bundle.entry.resource.id", []string{"$this = 'p1'"}, nil},
	}
}()
