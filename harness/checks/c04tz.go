package checks

import (
	"fmt"
	"strings"

	"github.com/verily-src/fhirpath-go/fhirpath"
	"github.com/verily-src/fhirpath-go/fhirpath/evalopts"
	"github.com/verily-src/fhirpath-go/fhirpath/system"
	"github.com/verily-src/fhirpath-go/fhirpath/verifh/lib"
)

// ---- C04, process time zone: an enumerated program space.
//
// Every Date/DateTime literal of the pool below is parsed inside the process
// whose TZ is under test; every ordered pair is then compared with each
// comparison operator, every literal goes through date arithmetic with each
// calendar and clock unit, through the string conversions, against FHIR
// elements carrying the same texts, and against now()/today() under every
// override instant. The offsets of the pool include the standard and the
// daylight offsets of the zones the check runs under (+05:30, -03:30/-02:30,
// +12:45/+13:45): a literal whose offset coincides with the local offset is
// where time.Parse hands back time.Local.

type c04TZLit struct {
	src   string // literal source
	class string // precision and offset kind
}

func c04TZLiterals() []c04TZLit {
	var out []c04TZLit
	out = append(out, c04TZLit{"@2020", "date.year"}, c04TZLit{"@2020-07", "date.month"}, c04TZLit{"@2020-07-15", "date.day"}, c04TZLit{"@2020-01-01", "date.day"},
		c04TZLit{"@2020T", "dt.year"}, c04TZLit{"@2020-07T", "dt.month"})
	dates := []string{"2020-01-01", "2020-07-15", "2020-03-08", "2020-12-31", "2024-11-02", "2024-04-06"}
	times := []struct{ t, class string }{{"T10", "hour"}, {"T10:45", "minute"}, {"T23:30:00", "second"}, {"T00:15:00.500", "ms"}, {"T12:00:00.5", "frac1"}, {"T12:00:00.25", "frac2"}, {"T12:00:00.1234", "frac4"}}
	offsets := []struct{ o, class string }{{"", "none"}, {"Z", "Z"}, {"+05:30", "off"}, {"-03:30", "off"}, {"-02:30", "off"}, {"+12:45", "off"}, {"+13:45", "off"}, {"-11:00", "off"}}
	for _, d := range dates {
		out = append(out, c04TZLit{"@" + d + "T", "dt.day"})
		for _, t := range times {
			for _, o := range offsets {
				out = append(out, c04TZLit{"@" + d + t.t + o.o, "dt." + t.class + "." + o.class})
			}
		}
	}
	return out
}

var c04TZOps = []string{"=", "!=", "<", "<=", ">", ">=", "~"}
var c04TZAmounts = []string{"1 day", "6 months", "1 year", "1 week", "25 hours", "4380 hours", "90 minutes", "1 second"}

// c04TZSpace evaluates the whole space in this process and returns one line
// "class\tprogram => result" per evaluation, in a fixed order.
func c04TZSpace() []string {
	var out []string
	emit := func(class, prog string, c system.Collection, err error) {
		s := ""
		if err != nil {
			s = "ERROR"
		} else {
			s = lib.ShowColl(c)
		}
		out = append(out, class+"\t"+prog+" => "+s)
	}
	must := func(src string) *fhirpath.Expression {
		e, err := fhirpath.Compile(src)
		if err != nil {
			out = append(out, "compile\t"+src+" => COMPILE-ERROR")
			return nil
		}
		return e
	}
	lits := c04TZLiterals()
	vals := make([]system.Collection, len(lits))
	for i, l := range lits {
		e, err := fhirpath.Compile(l.src)
		if err != nil {
			emit("literal|"+l.class, l.src, nil, err)
			continue
		}
		c, err := e.Evaluate(nil)
		emit("literal|"+l.class, l.src, c, err)
		vals[i] = c
	}
	// comparisons of every ordered pair
	for _, op := range c04TZOps {
		e := must("%a " + op + " %b")
		if e == nil {
			continue
		}
		for i, a := range lits {
			for j, b := range lits {
				if vals[i] == nil || vals[j] == nil {
					continue
				}
				c, err := e.Evaluate(nil, evalopts.EnvVariable("a", vals[i]), evalopts.EnvVariable("b", vals[j]))
				emit("compare|"+a.class+"|"+b.class, a.src+" "+op+" "+b.src, c, err)
			}
		}
	}
	// arithmetic, each direction
	for _, am := range c04TZAmounts {
		for _, op := range []string{"+", "-"} {
			e := must("%a " + op + " " + am)
			if e == nil {
				continue
			}
			es := must("(%a " + op + " " + am + ").toString()")
			if es == nil {
				continue
			}
			for i, a := range lits {
				if vals[i] == nil {
					continue
				}
				c, err := e.Evaluate(nil, evalopts.EnvVariable("a", vals[i]))
				emit("arithmetic|"+a.class+"|"+strings.Fields(am)[1], a.src+" "+op+" "+am, c, err)
				c, err = es.Evaluate(nil, evalopts.EnvVariable("a", vals[i]))
				emit("arithmetic|"+a.class+"|"+strings.Fields(am)[1], "("+a.src+" "+op+" "+am+").toString()", c, err)
			}
		}
	}
	// conversions
	for _, conv := range []string{"%a.toString()", "%a.toString().toDateTime()", "%a.toDateTime()", "%a.toDate()", "%a.toString().toDateTime() = %a", "%a.toString().toDate()"} {
		e := must(conv)
		if e == nil {
			continue
		}
		for i, a := range lits {
			if vals[i] == nil {
				continue
			}
			c, err := e.Evaluate(nil, evalopts.EnvVariable("a", vals[i]))
			emit("conversion|"+a.class, strings.ReplaceAll(conv, "%a", a.src), c, err)
		}
	}
	// FHIR elements carrying the same texts
	type el struct {
		text string
		v    any
	}
	var els []el
	for _, t := range []string{"2020", "2020-07", "2020-07-15", "2020-01-01"} {
		els = append(els, el{"date:" + t, lib.ProtoDate(t)}, el{"dateTime:" + t, lib.ProtoDateTime(t)})
	}
	for _, t := range []string{"2020-07-15T23:30:00Z", "2020-07-15T23:30:00-02:30", "2020-01-01T00:15:00.500-03:30", "2020-01-01T00:15:00+13:45", "2020-07-15T10:45:00+12:45", "2020-03-08T01:30:00+05:30", "2020-12-31T23:59:59.999999-11:00"} {
		els = append(els, el{"dateTime:" + t, lib.ProtoDateTime(t)}, el{"instant:" + t, lib.ProtoInstant(t)})
	}
	els = append(els, el{"time:01:02:03", lib.ProtoTime("01:02:03")}, el{"time:23:59:59.999", lib.ProtoTime("23:59:59.999")}, el{"time:00:00:00", lib.ProtoTime("00:00:00")})
	for _, prog := range []string{"%e = %a", "%e < %a", "%a <= %e", "%e ~ %a"} {
		e := must(prog)
		if e == nil {
			continue
		}
		for _, x := range els {
			for i, a := range lits {
				if vals[i] == nil {
					continue
				}
				c, err := e.Evaluate(nil, evalopts.EnvVariable("e", x.v), evalopts.EnvVariable("a", vals[i]))
				emit("element|"+strings.SplitN(x.text, ":", 2)[0]+"|"+a.class, strings.NewReplacer("%e", "<"+x.text+">", "%a", a.src).Replace(prog), c, err)
			}
		}
	}
	for _, prog := range []string{"%e.value", "%e.toString()", "%e + 6 months", "%e - 25 hours", "%e.toDateTime()", "%e.toDate()", "(%e + 1 year).toString()"} {
		e := must(prog)
		if e == nil {
			continue
		}
		for _, x := range els {
			c, err := e.Evaluate(nil, evalopts.EnvVariable("e", x.v))
			emit("element|"+strings.SplitN(x.text, ":", 2)[0], strings.ReplaceAll(prog, "%e", "<"+x.text+">"), c, err)
		}
	}
	// the evaluation clock against every literal
	for _, prog := range []string{"today() = %a", "today() < %a", "now() < %a", "now() >= %a", "today() ~ %a", "now() ~ %a"} {
		e := must(prog)
		if e == nil {
			continue
		}
		for k, t := range c04Instants {
			for i, a := range lits {
				if vals[i] == nil {
					continue
				}
				c, err := e.Evaluate(nil, evalopts.OverrideTime(t), evalopts.EnvVariable("a", vals[i]))
				emit("clock|"+a.class, fmt.Sprintf("%s [instant %d]", strings.ReplaceAll(prog, "%a", a.src), k), c, err)
			}
		}
	}
	return out
}
