package checks

import (
	"errors"
	"fmt"
	"github.com/verily-src/fhirpath-go/fhirpath/patch"
	"google.golang.org/protobuf/proto"
	"strings"

	dtpb "github.com/google/fhir/go/proto/google/fhir/proto/r4/core/datatypes_go_proto"
	"github.com/verily-src/fhirpath-go/fhirpath"
	"github.com/verily-src/fhirpath-go/fhirpath/compopts"
	"github.com/verily-src/fhirpath-go/fhirpath/evalopts"
	"github.com/verily-src/fhirpath-go/fhirpath/internal/expr"
	"github.com/verily-src/fhirpath-go/fhirpath/system"
	"github.com/verily-src/fhirpath-go/fhirpath/verifh/core"
	"github.com/verily-src/fhirpath-go/fhirpath/verifh/lib"
	"github.com/verily-src/fhirpath-go/internal/fhir"
)

// ---- C17: environment variables and custom functions behave as declared.

// one letter of the evaluate-option alphabet
type c17EOpt struct {
	id    string
	name  string // variable name ("" for OverrideTime)
	value func(st *c17State) any
	valid bool // value is a System value, FHIR element/resource or collection of those
}

type c17State struct {
	elemB *dtpb.HumanName
	elemA *dtpb.HumanName
	calls int
	seen  []system.Collection // inputs seen by probe()
}

func c17EAlphabet() []c17EOpt {
	return []c17EOpt{
		{"a=String", "a", func(*c17State) any { return system.String("Smith") }, true},
		{"b=element", "b", func(st *c17State) any { return st.elemB }, true},
		{"c=collection", "c", func(st *c17State) any { return system.Collection{system.Integer(1), system.String("x"), st.elemA} }, true},
		{"a-again", "a", func(*c17State) any { return system.String("Other") }, true},
		{"context", "context", func(*c17State) any { return system.Integer(1) }, true},
		{"ucum", "ucum", func(*c17State) any { return system.String("x") }, true},
		{"u=go-int", "u", func(*c17State) any { return 3 }, false},
		{"w=bad-first-in-collection", "w", func(*c17State) any { return system.Collection{3, system.Integer(1)} }, false},
		{"x=bad-last-in-collection", "x", func(*c17State) any { return system.Collection{system.Integer(1), "raw"} }, false},
		{"n=nil", "n", func(*c17State) any { return nil }, false},
		{"override-time", "", nil, true},
	}
}

func c17SeqCount(k, maxLen int) int { return c10Count(k, maxLen) }

type c17Prog struct {
	name, src string
	// want computes the expected outcome given the reference environment (nil entry = variable not defined)
	want func(env map[string]any, st *c17State, in []fhir.Resource) (items []any, isErr bool)
}

func c17Programs() []c17Prog {
	varOr := func(name string, f func(v any) []any) func(map[string]any, *c17State, []fhir.Resource) ([]any, bool) {
		return func(env map[string]any, _ *c17State, _ []fhir.Resource) ([]any, bool) {
			v, ok := env[name]
			if !ok {
				return nil, true
			}
			return f(v), false
		}
	}
	splice := func(v any) []any {
		if c, ok := v.(system.Collection); ok {
			return []any(c)
		}
		return []any{v}
	}
	return []c17Prog{
		{"root-a", "%a", varOr("a", splice)},
		{"root-b", "%b", varOr("b", splice)},
		{"root-c", "%c", varOr("c", splice)},
		{"c-count", "%c.count()", varOr("c", func(v any) []any { return []any{system.Integer(int32(len(v.(system.Collection))))} })},
		{"c-index", "%c[2]", varOr("c", func(v any) []any { return []any{v.(system.Collection)[2]} })},
		{"fn-arg", "'xSmith'.endsWith(%a)", varOr("a", func(v any) []any { return []any{system.Boolean(v == system.String("Smith"))} })},
		{"where-criterion", "Patient.name.where(family = %a).count()", varOr("a", func(v any) []any {
			if v == system.String("Smith") {
				return []any{system.Integer(2)}
			}
			return []any{system.Integer(0)}
		})},
		{"select-criterion", "Patient.name.select(%a)", varOr("a", func(v any) []any { return []any{v, v, v} })},
		{"iif-branch", "iif(true, %b, 0)", varOr("b", splice)},
		{"context", "%context", func(_ map[string]any, _ *c17State, in []fhir.Resource) ([]any, bool) { return []any{in[0]}, false }},
		{"context-path", "%context.name.count()", func(map[string]any, *c17State, []fhir.Resource) ([]any, bool) { return []any{system.Integer(3)}, false }},
		{"context-in-where", "Patient.name.where(%context.active).count()", func(map[string]any, *c17State, []fhir.Resource) ([]any, bool) { return []any{system.Integer(3)}, false }},
		{"ucum", "%ucum", func(map[string]any, *c17State, []fhir.Resource) ([]any, bool) {
			return []any{system.String("http://unitsofmeasure.org")}, false
		}},
		{"unknown", "%unknown", func(map[string]any, *c17State, []fhir.Resource) ([]any, bool) { return nil, true }},
		{"unknown-in-where", "Patient.name.where(%unknown = 1)", func(map[string]any, *c17State, []fhir.Resource) ([]any, bool) { return nil, true }},
		// an operand of a Boolean operator is evaluated whatever the other operand is (C06: a multi-item operand is an error
		// next to false as well), so the unknown variable is met
		{"unknown-right-of-and", "false and %unknown", func(map[string]any, *c17State, []fhir.Resource) ([]any, bool) { return nil, true }},
		{"unknown-right-of-or", "true or %unknown", func(map[string]any, *c17State, []fhir.Resource) ([]any, bool) { return nil, true }},
		{"unknown-right-of-implies", "false implies %unknown", func(map[string]any, *c17State, []fhir.Resource) ([]any, bool) { return nil, true }},
		{"unknown-in-criterion-operand", "Patient.where(active.not() and %unknown).exists()", func(map[string]any, *c17State, []fhir.Resource) ([]any, bool) { return nil, true }},
		{"delimited", "%`a`", varOr("a", splice)},
		{"string-named", "%'a'", varOr("a", splice)},
		{"probe", "probe()", func(_ map[string]any, _ *c17State, in []fhir.Resource) ([]any, bool) { return []any{in[0]}, false }},
	}
}

// ---- compile options

type c17COpt struct {
	id   string
	name string // function name registered ("" = not AddFunction)
	kind string // ok0 | ok1s | ok2 | dup | builtin | bad | variadic | perm | exp | transform
}

var c17CAlphabet = []c17COpt{
	{"f=zero-arg", "f", "ok0"},
	{"f-again", "f", "ok0"},
	{"join=custom-function-named-like-an-experimental-one", "join", "ok0"},
	{"where=builtin-name", "where", "ok0"},
	{"g=wrong-first-param", "g", "bad"},
	{"h=wrong-results", "h", "bad"},
	{"k=no-params", "k", "bad"},
	{"nf=non-function", "nf", "bad"},
	{"nilf=nil", "nilf", "bad"},
	{"pe=second-result-is-a-concrete-error-pointer", "pe", "bad"},
	{"ve=second-result-is-a-concrete-error-value", "ve", "bad"},
	{"r3=three-results", "r3", "bad"},
	{"fr=first-result-not-a-Collection", "fr", "bad"},
	{"t=typed-String-arg", "t", "ok1s"},
	{"t2=Any,Integer args", "t2", "ok2"},
	{"v=variadic", "v", "variadic"},
	{"q=Integer-arg,logs-calls", "q", "okq"},
	{"pair=2-Integer-args", "pair", "okpair"},
	{"permissive", "", "perm"},
	{"experimental", "", "exp"},
	{"transform", "", "transform"},
}

// concrete types that implement error: not the `error` interface a custom function has to return
type c17PtrErr struct{}

func (*c17PtrErr) Error() string { return "c17PtrErr" }

type c17ValErr int

func (c17ValErr) Error() string { return "c17ValErr" }

var errC17Sentinel = errors.New("c17 sentinel error returned by a custom function")

type c17FnState struct {
	calls  map[string]int
	inputs map[string]system.Collection
	args   map[string][]any
	ret    system.Collection
	log    []string // q/pair: one entry per call: input and arguments
}

func (fs *c17FnState) option(o c17COpt) fhirpath.CompileOption {
	rec := func(name string, in system.Collection, args ...any) {
		fs.calls[name]++
		fs.inputs[name] = in
		fs.args[name] = args
	}
	switch o.kind {
	case "ok0":
		n := o.name
		return compopts.AddFunction(n, func(in system.Collection) (system.Collection, error) { rec(n, in); return fs.ret, nil })
	case "ok1s":
		return compopts.AddFunction(o.name, func(in system.Collection, s system.String) (system.Collection, error) {
			rec("t", in, s)
			if s == "fail" {
				return nil, errC17Sentinel
			}
			return fs.ret, nil
		})
	case "ok2":
		return compopts.AddFunction(o.name, func(in system.Collection, a system.Any, b system.Integer) (system.Collection, error) {
			rec("t2", in, a, b)
			return fs.ret, nil
		})
	case "okq":
		return compopts.AddFunction(o.name, func(in system.Collection, n system.Integer) (system.Collection, error) {
			rec("q", in, n)
			fs.log = append(fs.log, fmt.Sprintf("q(in=%d items first=%s, n=%d)", len(in), lib.Show(in[0]), n))
			return system.Collection{n + 1}, nil
		})
	case "okpair":
		return compopts.AddFunction(o.name, func(in system.Collection, a, b system.Integer) (system.Collection, error) {
			rec("pair", in, a, b)
			fs.log = append(fs.log, fmt.Sprintf("pair(%d,%d)", a, b))
			return system.Collection{a*100 + b}, nil
		})
	case "variadic":
		return compopts.AddFunction(o.name, func(in system.Collection, xs ...system.Any) (system.Collection, error) {
			rec("v", in)
			return fs.ret, nil
		})
	case "perm":
		return compopts.Permissive()
	case "exp":
		return compopts.WithExperimentalFuncs()
	case "transform":
		return compopts.Transform(func(e expr.Expression) expr.Expression { return e })
	}
	switch o.name {
	case "g":
		return compopts.AddFunction("g", func(x int) (system.Collection, error) { return nil, nil })
	case "h":
		return compopts.AddFunction("h", func(in system.Collection) system.Collection { return nil })
	case "k":
		return compopts.AddFunction("k", func() (system.Collection, error) { return nil, nil })
	case "nf":
		return compopts.AddFunction("nf", 42)
	case "pe":
		return compopts.AddFunction("pe", func(in system.Collection) (system.Collection, *c17PtrErr) { return nil, nil })
	case "ve":
		return compopts.AddFunction("ve", func(in system.Collection) (system.Collection, c17ValErr) { return nil, 0 })
	case "r3":
		return compopts.AddFunction("r3", func(in system.Collection) (system.Collection, error, int) { return nil, nil, 0 })
	case "fr":
		return compopts.AddFunction("fr", func(in system.Collection) ([]any, error) { return nil, nil })
	}
	return compopts.AddFunction("nilf", nil)
}

type c17Call struct {
	src   string
	fn    string
	nargs int
	// expectation when the function is registered (kind) and no option failed
	want string // call | arg-error | sentinel | compile-error
	recv string // "" = root (input resource), "names" = Patient.name
	args []string
}

var c17Calls = []c17Call{
	{"f()", "f", 0, "call", "", nil},
	{"join()", "join", 0, "call", "", nil},
	{"Patient.name.f()", "f", 0, "call", "names", nil},
	{"Patient.name.where(f().exists()).count()", "f", 0, "call-per-item", "", nil},
	{"f(1)", "f", 1, "compile-error", "", nil},
	{"t('x')", "t", 1, "call", "", []string{`String:"x"`}},
	{"Patient.name.t('x')", "t", 1, "call", "names", []string{`String:"x"`}},
	{"t('fail')", "t", 1, "sentinel", "", []string{`String:"fail"`}},
	// the error of a custom function is the evaluation's error also when only one of several items raises it
	{"Patient.name.select(t(iif(use = 'official', 'fail', 'x')))", "t", 1, "sentinel", "", nil},
	{"Patient.name.select(t(iif(use = 'official', 'x', 'fail')))", "t", 1, "sentinel", "", nil},
	{"Patient.name.where(t(iif(use = 'official', 'fail', 'x')).exists()).count()", "t", 1, "sentinel", "", nil},
	{"Patient.name.all(t(iif(use = 'official', 'x', 'fail')).exists())", "t", 1, "sentinel", "", nil},
	{"t(1)", "t", 1, "arg-error", "", nil},
	{"t({})", "t", 1, "arg-error", "", nil},
	{"t(Patient.name.family)", "t", 1, "arg-error", "", nil},
	{"t()", "t", 0, "compile-error", "", nil},
	{"t('x', 'y')", "t", 2, "compile-error", "", nil},
	{"t2('q', 7)", "t2", 2, "call", "", []string{`String:"q"`, "Integer:7"}},
	{"t2(1.5, 7)", "t2", 2, "call", "", []string{"Decimal:1.5", "Integer:7"}},
	{"t2(7, 'q')", "t2", 2, "arg-error", "", nil},
	{"v(1)", "v", 1, "total", "", nil},
	{"v()", "v", 0, "total", "", nil},
	{"Patient.name.q(%context.telecom.q(1))", "q", 1, "nested-q", "", nil},
	{"pair(1, pair(2, 3))", "pair", 2, "nested-pair", "", nil},
	{"pair(pair(2, 3), 1)", "pair", 2, "nested-pair2", "", nil},
	{"nosuch()", "nosuch", 0, "compile-error", "", nil},
	// programs that do not parse: still the option's error when an option fails, a Compile error otherwise
	{"f(", "f", 0, "compile-error", "", nil},
	{"Patient.where(%v", "", 0, "compile-error", "", nil},
	{"%", "", 0, "compile-error", "", nil},
	{"'unterminated", "", 0, "compile-error", "", nil},
	{"", "", 0, "compile-error", "", nil},
	{"Patient.name.where(true).count()", "", 0, "builtin", "", nil},
}

func c17CallClass(src string) string {
	if lib.Compile(src).CompileErr != nil && !strings.Contains(src, "()") && !strings.Contains(src, "', '") {
		return "unparsable-program"
	}
	return src
}

func init() {
	eal := c17EAlphabet()
	progs := c17Programs()
	core.Register(&core.Check{
		ID:          "C17",
		Rule:        "all evaluate-option lists of length 0..3 (quick) / 0..4 (thorough), in every order, over an 11-symbol alphabet {valid System value, valid element, valid collection, duplicate name, predefined context, predefined ucum, unsupported Go int, unsupported item first / last inside a collection, nil, OverrideTime} x 18 programs referencing each variable at the root, in a function argument, in where/select criteria and an iif branch, plus %context, %ucum, %unknown, delimited and string-named variables and an instrumented custom function; all compile-option lists of length 0..2 (quick) / 0..3 (thorough) over a 21-symbol alphabet (incl. a custom function named like the experimental join, which WithExperimentalFuncs must not override) {zero-arg fn, same name again, built-in name, 9 bad signatures (wrong first parameter, wrong results, no parameters, non-function, nil, concrete error pointer / value as second result, three results, first result not a Collection), typed-arg fns, variadic, Permissive, WithExperimentalFuncs, Transform} x 19 call sites; histories of <=3 evaluations that reuse the same option values (outcome as with freshly built options); the same evaluate-option lists (length <=2) on the four FHIRPatch operations of a path that reads a variable; outcomes compared with a reference fold of the contract written in the harness; non-trivial = distinct (option list, program, outcome)",
		Assumptions: []string{"the reference fold (left-to-right map pre-seeded with context/ucum; which sentinel errors must be reported) is hand-written from the statement"},
		Subs: func(tier string) []core.Sub {
			eLen, cLen := 4, 3
			if tier == "thorough" {
				eLen, cLen = 5, 3
			}
			nE := c17SeqCount(len(eal), eLen)
			nC := c17SeqCount(len(c17CAlphabet), cLen)
			return []core.Sub{
				{Name: "evaluate-options", N: nE, Note: fmt.Sprintf("%d option lists x %d programs", nE, len(progs)), Run: func(i int, r *core.Rec) {
					seq := c10Seq(i, len(eal))
					ids := make([]string, len(seq))
					for j, s := range seq {
						ids[j] = eal[s].id
					}
					listID := "[" + strings.Join(ids, ", ") + "]"
					for _, p := range progs {
						st := &c17State{elemA: lib.NameA(), elemB: lib.NameB()}
						in := []fhir.Resource{lib.Patient()}
						// reference fold
						env := map[string]any{}
						predefined := map[string]bool{"context": true, "ucum": true}
						wantExisting, wantUnsupported := false, false
						var opts []fhirpath.EvaluateOption
						for _, s := range seq {
							o := eal[s]
							if o.name == "" {
								opts = append(opts, evalopts.OverrideTime(lib.PinnedNow))
								continue
							}
							v := o.value(st)
							opts = append(opts, evalopts.EnvVariable(o.name, v))
							switch {
							case !o.valid:
								wantUnsupported = true
							case predefined[o.name]:
								wantExisting = true
							default:
								if _, dup := env[o.name]; dup {
									wantExisting = true
								} else {
									env[o.name] = v
								}
							}
						}
						wantItems, wantErr := p.want(env, st, in)
						optionFails := wantExisting || wantUnsupported
						probe := compopts.AddFunction("probe", func(c system.Collection) (system.Collection, error) {
							st.calls++
							st.seen = append(st.seen, c)
							return c, nil
						})
						comp := lib.Compile(p.src, probe)
						r.Eval()
						cls := fmt.Sprintf("existing=%v,unsupported=%v", wantExisting, wantUnsupported)
						r.State("eopts|" + p.name + "|" + cls)
						w := func(got string) core.W {
							return core.W{"options": listID, "src": p.src, "got": got}
						}
						if comp.Panic != nil {
							r.Fail("eval-options|"+p.name+"|"+comp.Panic.Key(), w(comp.String()))
							continue
						}
						if comp.CompileErr != nil {
							r.Fail("eval-options|"+p.name+"|does-not-compile", w(comp.String()))
							continue
						}
						res := lib.EvalOpts(comp, in, opts...)
						r.Eval()
						r.Outcome(p.name + "|" + res.Class())
						r.Nontrivial(listID, p.src, res.String())
						if r.WantSample() {
							r.Sample(core.W{"options": listID, "src": p.src, "got": res.String()})
						}
						if res.Panic != nil {
							r.Fail("eval-options|"+p.name+"|"+cls+"|"+res.Panic.Key(), w(res.String()))
							continue
						}
						if optionFails {
							switch {
							case res.Err == nil:
								r.Fail("eval-options|"+p.name+"|"+cls+"|failing-option-ignored", w(res.String()))
							case wantExisting && !errors.Is(res.Err, fhirpath.ErrExistingConstant):
								r.Fail("eval-options|"+p.name+"|"+cls+"|ErrExistingConstant-not-reported", w(res.String()))
							case wantUnsupported && !errors.Is(res.Err, fhirpath.ErrUnsupportedType):
								r.Fail("eval-options|"+p.name+"|"+cls+"|ErrUnsupportedType-not-reported", w(res.String()))
							case !wantExisting && errors.Is(res.Err, fhirpath.ErrExistingConstant):
								r.Fail("eval-options|"+p.name+"|"+cls+"|spurious-ErrExistingConstant", w(res.String()))
							case !wantUnsupported && errors.Is(res.Err, fhirpath.ErrUnsupportedType):
								r.Fail("eval-options|"+p.name+"|"+cls+"|spurious-ErrUnsupportedType", w(res.String()))
							}
							if st.calls != 0 {
								r.Fail("eval-options|"+p.name+"|"+cls+"|evaluated-despite-failing-option", w(fmt.Sprintf("custom function called %d times", st.calls)))
							}
							continue
						}
						if wantErr {
							if res.Err == nil {
								r.Fail("eval-options|"+p.name+"|ok|want-error-got-"+res.Class(), w(res.String()))
							}
							continue
						}
						if res.Err != nil || !c10SameSeq(res.Coll, wantItems) {
							r.Fail("eval-options|"+p.name+"|ok|value-differs", core.W{"options": listID, "src": p.src, "got": res.String(), "want": lib.ShowColl(wantItems)})
						}
						if p.name == "probe" && (st.calls != 1 || len(st.seen) != 1 || !c10SameSeq(st.seen[0], []any{in[0]})) {
							r.Fail("eval-options|probe|ok|custom-function-input", w(fmt.Sprintf("calls=%d", st.calls)))
						}
					}
				}},
				{Name: "option-reuse", N: 21, Note: "option VALUES (not just equal options) reused across evaluations: every history of <=3 evaluations whose option lists (length <=2) are drawn from 4 shared option objects; each outcome must equal the outcome of a freshly compiled expression with freshly built options (the compiled expression is shared by the whole history as well)", Run: func(i int, r *core.Rec) {
					type optDef struct {
						id string
						mk func() fhirpath.EvaluateOption
					}
					defs := []optDef{
						{"a=Smith", func() fhirpath.EvaluateOption { return evalopts.EnvVariable("a", system.String("Smith")) }},
						{"a=Other", func() fhirpath.EvaluateOption { return evalopts.EnvVariable("a", system.String("Other")) }},
						{"context=1", func() fhirpath.EvaluateOption { return evalopts.EnvVariable("context", system.Integer(1)) }},
						{"u=go-int", func() fhirpath.EvaluateOption { return evalopts.EnvVariable("u", 3) }},
					}
					var lists [][]int
					lists = append(lists, nil)
					for a := range defs {
						lists = append(lists, []int{a})
					}
					for a := range defs {
						for b := range defs {
							lists = append(lists, []int{a, b})
						}
					}
					outcome := func(e *fhirpath.Expression, opts []fhirpath.EvaluateOption) string {
						res := lib.EvalOpts(lib.Res{Expr: e}, []fhir.Resource{lib.Patient()}, opts...)
						switch {
						case res.Panic != nil:
							return "PANIC " + res.Panic.Key()
						case res.Err != nil:
							switch {
							case errors.Is(res.Err, fhirpath.ErrExistingConstant):
								return "ErrExistingConstant"
							case errors.Is(res.Err, fhirpath.ErrUnsupportedType):
								return "ErrUnsupportedType"
							}
							return "error"
						}
						return lib.ShowColl(res.Coll)
					}
					name := func(l []int) string {
						var ids []string
						for _, k := range l {
							ids = append(ids, defs[k].id)
						}
						return "[" + strings.Join(ids, ", ") + "]"
					}
					for _, src := range []string{"%a", "Patient.name.where(family = %a).count()"} {
						e, err := fhirpath.Compile(src)
						if err != nil {
							r.Fail("option-reuse|does-not-compile", core.W{"src": src})
							continue
						}
						first := lists[i]
						for _, second := range lists {
							for _, third := range lists[:5] { // the third evaluation: no option or one of the four
								shared := make([]fhirpath.EvaluateOption, len(defs))
								for k := range defs {
									shared[k] = defs[k].mk()
								}
								var hist []string
								for _, l := range [][]int{first, second, third} {
									var withShared, fresh []fhirpath.EvaluateOption
									for _, k := range l {
										withShared = append(withShared, shared[k])
										fresh = append(fresh, defs[k].mk())
									}
									got := outcome(e, withShared)
									// reference: nothing shared at all - options built afresh and an expression compiled afresh
									// (a value remembered by the compiled expression is as wrong as one remembered by an option)
									fe, ferr := fhirpath.Compile(src)
									if ferr != nil {
										r.Fail("option-reuse|does-not-compile", core.W{"src": src})
										continue
									}
									want := outcome(fe, fresh)
									r.Eval()
									r.Eval()
									hist = append(hist, name(l))
									r.State("option-reuse|" + src)
									r.Nontrivial(src, strings.Join(hist, ";"), got)
									if got != want {
										r.Fail("option-reuse|outcome-differs-from-freshly-built-options|"+want+"->"+got, core.W{"src": src, "history_of_option_lists": hist, "outcome": got, "with_fresh_options": want})
									}
								}
							}
						}
					}
				}},
				{Name: "patch-options", N: c17SeqCount(len(eal), 2), Note: "the FHIRPatch entry points take the same evaluate options: every option list of length <=2 x {Delete, Replace, Insert, Add} on a path that reads %a; a failing option gives its error and no change, an undefined variable an error and no change, otherwise the outcome of the same operation on the path with the literal in place of the variable", Run: func(i int, r *core.Rec) {
					seq := c10Seq(i, len(eal))
					ids := make([]string, len(seq))
					for j, s := range seq {
						ids[j] = eal[s].id
					}
					listID := "[" + strings.Join(ids, ", ") + "]"
					type pop struct {
						name, path string
						do         func(e *patch.Expression, res fhir.Resource, opts ...fhirpath.EvaluateOption) error
					}
					ops := []pop{
						{"Delete", "Patient.name.where(family = %a).given[0]", func(e *patch.Expression, res fhir.Resource, opts ...fhirpath.EvaluateOption) error {
							return e.Delete(res, opts...)
						}},
						{"Replace", "Patient.name.where(family = %a).given[0]", func(e *patch.Expression, res fhir.Resource, opts ...fhirpath.EvaluateOption) error {
							return e.Replace(res, fhir.String("Zed"), opts...)
						}},
						{"Insert", "Patient.name.where(family = %a).first().given", func(e *patch.Expression, res fhir.Resource, opts ...fhirpath.EvaluateOption) error {
							return e.Insert(res, fhir.String("Zed"), 0, opts...)
						}},
						{"Add", "Patient.name.where(family = %a).first()", func(e *patch.Expression, res fhir.Resource, opts ...fhirpath.EvaluateOption) error {
							return e.Add(res, "given", fhir.String("Zed"), opts...)
						}},
					}
					for _, op := range ops {
						st := &c17State{elemA: lib.NameA(), elemB: lib.NameB()}
						env := map[string]any{}
						predefined := map[string]bool{"context": true, "ucum": true}
						wantExisting, wantUnsupported := false, false
						var opts []fhirpath.EvaluateOption
						for _, s := range seq {
							o := eal[s]
							if o.name == "" {
								opts = append(opts, evalopts.OverrideTime(lib.PinnedNow))
								continue
							}
							v := o.value(st)
							opts = append(opts, evalopts.EnvVariable(o.name, v))
							switch {
							case !o.valid:
								wantUnsupported = true
							case predefined[o.name]:
								wantExisting = true
							default:
								if _, dup := env[o.name]; dup {
									wantExisting = true
								} else {
									env[o.name] = v
								}
							}
						}
						cls := fmt.Sprintf("existing=%v,unsupported=%v", wantExisting, wantUnsupported)
						r.State("patch-opts|" + op.name + "|" + cls)
						w := core.W{"operation": op.name, "path": op.path, "options": listID}
						pe, perr := patch.Compile(op.path)
						if perr != nil {
							r.Fail("patch-options|"+op.name+"|path-does-not-compile", w)
							continue
						}
						res := lib.Patient()
						before := proto.Clone(res)
						var err error
						pi := core.Try(func() { err = op.do(pe, res, opts...) })
						r.Eval()
						r.Nontrivial(listID, op.name, fmt.Sprint(err != nil))
						if pi != nil {
							r.Fail("patch-options|"+op.name+"|"+pi.Key(), w)
							continue
						}
						w["error"] = fmt.Sprint(err)
						_, aDefined := env["a"]
						switch {
						case wantExisting || wantUnsupported:
							switch {
							case err == nil:
								r.Fail("patch-options|"+op.name+"|"+cls+"|failing-option-ignored", w)
							case wantExisting && !errors.Is(err, fhirpath.ErrExistingConstant), wantUnsupported && !errors.Is(err, fhirpath.ErrUnsupportedType):
								r.Fail("patch-options|"+op.name+"|"+cls+"|option-error-not-reported", w)
							}
							if !proto.Equal(before, res) {
								r.Fail("patch-options|"+op.name+"|"+cls+"|resource-changed-although-an-option-failed", w)
							}
						case !aDefined:
							if err == nil {
								r.Fail("patch-options|"+op.name+"|undefined-variable-ignored", w)
							}
							if !proto.Equal(before, res) {
								r.Fail("patch-options|"+op.name+"|resource-changed-although-the-variable-is-undefined", w)
							}
						default:
							lit := strings.ReplaceAll(op.path, "%a", "'"+string(env["a"].(system.String))+"'")
							le, lerr := patch.Compile(lit)
							ref := lib.Patient()
							var rerr error
							if lerr == nil {
								core.Try(func() { rerr = op.do(le, ref) })
							}
							r.Eval()
							if (err == nil) != (rerr == nil) || !proto.Equal(res, ref) {
								w["with_literal_error"] = fmt.Sprint(rerr)
								w["literal_path"] = lit
								r.Fail("patch-options|"+op.name+"|differs-from-the-same-operation-with-the-literal", w)
							}
						}
					}
				}},
				{Name: "compile-options", N: nC, Note: fmt.Sprintf("%d option lists x %d call sites", nC, len(c17Calls)), Run: func(i int, r *core.Rec) {
					seq := c10Seq(i, len(c17CAlphabet))
					ids := make([]string, len(seq))
					for j, s := range seq {
						ids[j] = c17CAlphabet[s].id
					}
					listID := "[" + strings.Join(ids, ", ") + "]"
					for _, call := range c17Calls {
						fs := &c17FnState{calls: map[string]int{}, inputs: map[string]system.Collection{}, args: map[string][]any{}}
						marker := lib.NameB()
						fs.ret = system.Collection{system.Integer(42), marker}
						// reference fold of the compile-time contract
						table := map[string]string{} // custom name -> kind
						optionFails := false
						transforms := 0
						var copts []fhirpath.CompileOption
						for _, s := range seq {
							o := c17CAlphabet[s]
							copts = append(copts, fs.option(o))
							switch o.kind {
							case "perm":
							case "exp":
								// the experimental functions are added unless the name is taken (documented: "not overridden")
								if _, taken := table["join"]; !taken {
									table["join"] = "experimental"
								}
							case "transform":
								transforms++
								if transforms > 1 {
									optionFails = true
								}
							default:
								_, dup := table[o.name]
								switch {
								case o.name == "where" || dup:
									optionFails = true
								case o.kind == "bad":
									optionFails = true
								case o.kind == "variadic":
									table[o.name] = "variadic" // acceptance of a variadic signature is left open: totality only
								default:
									table[o.name] = o.kind
								}
							}
						}
						hasVariadic := false
						for _, s := range seq {
							if c17CAlphabet[s].kind == "variadic" {
								hasVariadic = true
							}
						}
						in := []fhir.Resource{lib.Patient()}
						comp := lib.Compile(call.src, copts...)
						r.Eval()
						cls := fmt.Sprintf("option-fails=%v", optionFails)
						r.State("copts|" + call.src + "|" + cls)
						w := func(got string) core.W { return core.W{"options": listID, "src": call.src, "got": got} }
						if comp.Panic != nil {
							r.Fail("compile-options|"+call.src+"|"+comp.Panic.Key(), w(comp.String()))
							continue
						}
						r.Outcome(call.src + "|" + comp.Class())
						r.Nontrivial(listID, call.src, comp.Class())
						if r.WantSample() {
							r.Sample(core.W{"options": listID, "src": call.src, "compile": comp.Class()})
						}
						totalCalls := func() int {
							n := 0
							for _, c := range fs.calls {
								n += c
							}
							return n
						}
						if optionFails {
							if comp.CompileErr == nil {
								r.Fail("compile-options|"+call.src+"|failing-option-ignored", w("compiled"))
							} else {
								// "returns that error": the error is the option's, whatever the program is - the same option list in
								// front of the program `1` fails with the same error
								var ropts []fhirpath.CompileOption
								for _, s := range seq {
									ropts = append(ropts, fs.option(c17CAlphabet[s]))
								}
								ref := lib.Compile("1", ropts...)
								r.Eval()
								if ref.CompileErr != nil && ref.CompileErr.Error() != comp.CompileErr.Error() {
									r.Fail("compile-options|"+c17CallClass(call.src)+"|another-error-than-the-failing-option's", core.W{"options": listID, "src": call.src, "got": comp.CompileErr.Error(), "option_error": ref.CompileErr.Error()})
								}
							}
							if totalCalls() != 0 {
								r.Fail("compile-options|"+call.src+"|custom-function-called-during-failed-compile", w(""))
							}
							continue
						}
						if hasVariadic && (call.fn == "v") {
							// totality only
							if comp.CompileErr == nil {
								ev := lib.EvalOpts(comp, in, lib.EnvOpts(nil)...)
								r.Eval()
								if ev.Panic != nil {
									r.Fail("compile-options|"+call.src+"|"+ev.Panic.Key(), w(ev.String()))
								}
							}
							continue
						}
						kind, registered := table[call.fn]
						if kind == "experimental" {
							// the library's own experimental function answers the call: the custom one must not have been involved
							if comp.CompileErr == nil {
								lib.EvalOpts(comp, in, lib.EnvOpts(nil)...)
								r.Eval()
							}
							if totalCalls() != 0 {
								r.Fail("compile-options|"+call.src+"|custom-function-called-although-not-registered", w(""))
							}
							continue
						}
						want := call.want
						if call.fn != "" && call.want != "builtin" && (!registered || kind == "variadic") {
							want = "compile-error"
						}
						if want == "compile-error" {
							if comp.CompileErr == nil {
								r.Fail("compile-options|"+call.src+"|accepted-but-should-be-rejected|registered="+fmt.Sprint(registered), w("compiled"))
							}
							continue
						}
						if comp.CompileErr != nil {
							r.Fail("compile-options|"+call.src+"|rejected-but-should-compile", w(comp.String()))
							continue
						}
						ev := lib.EvalOpts(comp, in, lib.EnvOpts(nil)...)
						r.Eval()
						if ev.Panic != nil {
							r.Fail("compile-options|"+call.src+"|"+ev.Panic.Key(), w(ev.String()))
							continue
						}
						switch want {
						case "builtin":
							if !(ev.OK() && len(ev.Coll) == 1 && ev.Coll[0] == system.Integer(3)) {
								r.Fail("compile-options|"+call.src+"|builtin-altered", w(ev.String()))
							}
						case "call":
							wantIn := []any{in[0]}
							if call.recv == "names" {
								p := in[0].(interface{ GetName() []*dtpb.HumanName })
								wantIn = nil
								for _, n := range p.GetName() {
									wantIn = append(wantIn, n)
								}
							}
							ok := ev.Err == nil && fs.calls[call.fn] == 1 && c10SameSeq(fs.inputs[call.fn], wantIn) && c10SameSeq(ev.Coll, []any(fs.ret))
							if ok && len(call.args) > 0 {
								got := fs.args[call.fn]
								ok = len(got) == len(call.args)
								for j := range call.args {
									ok = ok && lib.Show(got[j]) == call.args[j]
								}
							}
							if !ok {
								r.Fail("compile-options|"+call.src+"|call-contract", core.W{"options": listID, "src": call.src, "got": ev.String(), "calls": fs.calls[call.fn], "input_seen": lib.ShowColl(fs.inputs[call.fn]), "args_seen": fmt.Sprint(fs.args[call.fn]), "want_result": lib.ShowColl(fs.ret)})
							}
						case "nested-q":
							pt := in[0].(interface {
								GetName() []*dtpb.HumanName
								GetTelecom() []*dtpb.ContactPoint
							})
							wantLog := fmt.Sprintf("q(in=2 items first=%s, n=1);q(in=3 items first=%s, n=2)", lib.Show(pt.GetTelecom()[0]), lib.Show(pt.GetName()[0]))
							if !(ev.OK() && len(ev.Coll) == 1 && ev.Coll[0] == system.Integer(3) && strings.Join(fs.log, ";") == wantLog) {
								r.Fail("compile-options|"+call.src+"|call-contract", core.W{"options": listID, "src": call.src, "got": ev.String(), "call_log": fs.log, "want_log": wantLog})
							}
						case "nested-pair", "nested-pair2":
							wantV, wantLog := system.Integer(303), "pair(2,3);pair(1,203)"
							if want == "nested-pair2" {
								wantV, wantLog = system.Integer(20301), "pair(2,3);pair(203,1)"
							}
							if !(ev.OK() && len(ev.Coll) == 1 && ev.Coll[0] == wantV && strings.Join(fs.log, ";") == wantLog) {
								r.Fail("compile-options|"+call.src+"|call-contract", core.W{"options": listID, "src": call.src, "got": ev.String(), "call_log": fs.log, "want_log": wantLog})
							}
						case "call-per-item":
							if !(ev.OK() && fs.calls["f"] == 3 && len(ev.Coll) == 1 && ev.Coll[0] == system.Integer(3)) {
								r.Fail("compile-options|"+call.src+"|call-contract", w(fmt.Sprintf("%s calls=%d", ev.String(), fs.calls["f"])))
							}
						case "sentinel":
							if !errors.Is(ev.Err, errC17Sentinel) {
								r.Fail("compile-options|"+call.src+"|returned-error-not-passed-through", w(ev.String()))
							}
						case "arg-error":
							if ev.Err == nil || fs.calls[call.fn] != 0 {
								r.Fail("compile-options|"+call.src+"|argument-not-checked", w(fmt.Sprintf("%s calls=%d", ev.String(), fs.calls[call.fn])))
							}
						}
					}
				}},
			}
		},
	})
}
