package checks

import (
	"fmt"
	"github.com/verily-src/fhirpath-go/fhirpath/verifh/ftab"
	"reflect"
	"sort"
	"strings"
	"unsafe"

	dtpb "github.com/google/fhir/go/proto/google/fhir/proto/r4/core/datatypes_go_proto"
	bcrpb "github.com/google/fhir/go/proto/google/fhir/proto/r4/core/resources/bundle_and_contained_resource_go_proto"
	"github.com/verily-src/fhirpath-go/fhirpath"
	"github.com/verily-src/fhirpath-go/fhirpath/compopts"
	"github.com/verily-src/fhirpath-go/fhirpath/system"
	"github.com/verily-src/fhirpath-go/fhirpath/verifh/core"
	"github.com/verily-src/fhirpath-go/fhirpath/verifh/lib"
	"github.com/verily-src/fhirpath-go/internal/fhir"
	"google.golang.org/protobuf/proto"
	"google.golang.org/protobuf/reflect/protoreflect"
	"google.golang.org/protobuf/types/known/anypb"
)

// ---- C03: evaluation never mutates its inputs.

var c03Sentinel = system.String("\x00spare-slot-sentinel\x00")

// c03Finger is the deterministic serialisation plus a presence fingerprint
// (a populated-but-empty sub-message, which a stray Mutable() creates, shows in both).
func c03Finger(m proto.Message) string {
	b, err := proto.MarshalOptions{Deterministic: true}.Marshal(m)
	if err != nil {
		return "marshal-error:" + err.Error()
	}
	var sb strings.Builder
	var walk func(m protoreflect.Message, depth int)
	walk = func(m protoreflect.Message, depth int) {
		var names []string
		fields := map[string]protoreflect.FieldDescriptor{}
		m.Range(func(fd protoreflect.FieldDescriptor, v protoreflect.Value) bool {
			names = append(names, string(fd.Name()))
			fields[string(fd.Name())] = fd
			return true
		})
		sort.Strings(names)
		for _, n := range names {
			fd := fields[n]
			sb.WriteString(n)
			if fd.Message() == nil || fd.IsMap() {
				sb.WriteString(";")
				continue
			}
			sb.WriteString("{")
			if fd.IsList() {
				l := m.Get(fd).List()
				fmt.Fprintf(&sb, "#%d", l.Len())
				for i := 0; i < l.Len(); i++ {
					walk(l.Get(i).Message(), depth+1)
					sb.WriteString("|")
				}
			} else {
				walk(m.Get(fd).Message(), depth+1)
			}
			sb.WriteString("}")
		}
	}
	walk(m.ProtoReflect(), 0)
	return fmt.Sprintf("%x/%s", b, sb.String())
}

// c03Nodes collects the pointers of every message reachable in the inputs (and,
// separately, equal copies reachable through Any-packed contained resources).
type c03Nodes struct {
	ptr    map[proto.Message]bool
	copies []proto.Message
}

func (ns *c03Nodes) add(m protoreflect.Message, copied bool) {
	if copied {
		ns.copies = append(ns.copies, m.Interface())
	} else {
		ns.ptr[m.Interface()] = true
	}
	m.Range(func(fd protoreflect.FieldDescriptor, v protoreflect.Value) bool {
		if fd.Message() == nil || fd.IsMap() {
			return true
		}
		visit := func(c protoreflect.Message) {
			ns.add(c, copied)
			if a, ok := c.Interface().(*anypb.Any); ok {
				cr := &bcrpb.ContainedResource{}
				if a.UnmarshalTo(cr) == nil {
					ns.add(cr.ProtoReflect(), true)
				}
			}
		}
		if fd.IsList() {
			for i := 0; i < v.List().Len(); i++ {
				visit(v.List().Get(i).Message())
			}
		} else {
			visit(v.Message())
		}
		return true
	})
}

func (ns *c03Nodes) has(m proto.Message) bool {
	if ns.ptr[m] {
		return true
	}
	for _, c := range ns.copies {
		if reflect.TypeOf(c) == reflect.TypeOf(m) && proto.Equal(c, m) {
			return true
		}
	}
	return false
}

type c03Slice struct {
	name    string
	coll    system.Collection // as passed
	backing []any             // full backing array view
	snap    []any
	ptr     uintptr
	ln, cp  int
}

func c03MkSlice(name string, items []any, spare int) *c03Slice {
	back := make([]any, len(items)+spare)
	copy(back, items)
	for i := len(items); i < len(back); i++ {
		back[i] = c03Sentinel
	}
	coll := system.Collection(back[:len(items)])
	s := &c03Slice{name: name, coll: coll, backing: back, snap: append([]any{}, back...), ln: len(coll), cp: cap(coll)}
	if cap(coll) > 0 {
		s.ptr = uintptr(unsafe.Pointer(&back[0]))
	}
	return s
}

func (s *c03Slice) changed() string {
	if len(s.coll) != s.ln || cap(s.coll) != s.cp {
		return "slice-header-changed"
	}
	for i := range s.backing {
		a, b := s.backing[i], s.snap[i]
		same := false
		if am, ok := a.(proto.Message); ok {
			bm, ok2 := b.(proto.Message)
			same = ok2 && any(am) == any(bm)
		} else if _, ok := b.(proto.Message); !ok {
			same = lib.Show(a) == lib.Show(b)
		}
		if !same {
			if i >= s.ln {
				return "spare-capacity-slot-written"
			}
			return "collection-item-replaced"
		}
	}
	return ""
}

// the program list: every node kind and every function of the tables, over the hand-sized inputs
func c03Programs() []string {
	ps := []string{
		// node kinds
		"Patient", "Patient.name", "Patient.name.given", "name.given", "$this", "Patient.name[1]", "Patient.name[%n]", "1", "'a'", "{}", "@2020-01-01", "1 'mg'",
		"Patient.name.given = 'Ann'", "Patient.name != Patient.name", "Patient.birthDate < @2000-01-01", "Patient.birthDate >= today()", "1 + 1", "Patient.multipleBirth + 1", "-Patient.multipleBirth",
		"Patient.name.family & 'x'", "%e & 'x'", "'x' & %e", "%c & %e", "Patient.active and Patient.deceased", "Patient.active or {}", "Patient.active xor true", "Patient.active implies false",
		"Patient.deceased is boolean", "Patient.deceased as boolean", "Patient.multipleBirth as integer", "Patient is Patient", "%context", "%context.name", "%ucum", "%c", "%d", "%el", "%el.given", "%c.count()",
		"Patient.managingOrganization.reference", "Patient.generalPractitioner.reference", "Patient.contained", "Patient.contained.id", "Patient.contained.code.coding", "Patient.extension.value", "Patient.extension('http://u').value",
		"Patient.birthDate.value", "Patient.meta.tag.code", "Bundle.entry.resource", "Bundle.entry.resource.name.given", "Observation.value", "Observation.value.value", "Observation.effective", "Observation.issued",
		"Observation.component.value", "Questionnaire.item.item.linkId",
		// collections passed in, with spare capacity, through every subsetting / filtering / set function
		// elements handed through functions of the caller's own: what comes back are still the input's nodes
		"Patient.name.keep()", "Patient.name.keep().given", "Patient.name.keep().where(use = 'official').given.keep()", "%c.keep()", "%c.keep().take(2)", "Patient.name.where(false).orElse(%el)", "Patient.name.first().both(%el)",
		"Patient.name.first().both(%el).given", "Patient.telecom.keep().rank", "%el.keep().given.keep()",
		"%c.where(true)", "%c.where($this is Integer)", "%c.where($this is String)", "%c.where($this is HumanName)", "%c.where($this.toString() != '3')", "%c.where($this is Integer).count() + %c.count()",
		"%c.exists($this is String)", "%c.exists($this is HumanName)", "%c.all($this is Integer)", "%c.where($this is String).where(true)", "%c.tail().where($this is HumanName)", "%c.select($this)", "%c.select(%d)", "%c.select(%d.take(1))", "Patient.name.select(%c)", "Patient.name.select(%c.take(1))", "Patient.name.select(%c.skip(1))",
		"Patient.name.select(%c.tail())", "Patient.name.select(%e)", "%c.take(1)", "%c.take(2)", "%c.skip(1)", "%c.tail()", "%c.first()", "%c.last()", "%c[0]", "%c.distinct()", "%c.isDistinct()", "%c.exclude(%d)",
		"%c.intersect(%d)", "%d.exclude(%c)", "%c.exists()", "%c.all($this.exists())", "%c.empty()", "%c = %d", "%c != %c", "%c.take(1) & 'x'", "%e.take(1)", "%e.where(true)", "%e.select(1)", "%e.exclude(%c)",
		"iif(true, %c, %d)", "iif(false, %c, %d)", "%c.where(false).select(%d)", "Patient.name.where(use = 'official').select(given).take(1)", "Patient.name.given.tail().tail()", "Patient.name.given.skip(1).take(1)",
		"Patient.name.tail().select(given.tail())", "%el.given.tail()", "%el.given.select($this & 'x')",
		// conversions and comparisons convert FHIR primitives: they must not write to them
		"Patient.birthDate.toString()", "Patient.birthDate = @1980-02-29", "Observation.effective > @2019-01-01T00:00:00.000Z", "Observation.effective.toString()", "Observation.issued < now()", "Observation.effective = Observation.effective",
		"Observation.value.value.round()", "Observation.value.value + 1", "Observation.value > 1 'mm[Hg]'", "Patient.telecom.rank.sum()", "Patient.telecom.rank > 1",
	}
	// every function of both tables with specification-typed arguments
	tbl := ftab.Table(true)
	var names []string
	for k := range tbl {
		names = append(names, k)
	}
	sort.Strings(names)
	for _, name := range names {
		sig, ok := n1[name]
		if !ok {
			sig, ok = documentedExt[name]
		}
		if !ok {
			sig = specSig{recv: "Patient.name"}
		}
		fn := tbl[name]
		for n := fn.Min; n <= fn.Max && n <= 3; n++ {
			ps = append(ps, callSrc(sig.recv, name, fillArgs(sig, n)))
			ps = append(ps, callSrc("%c", name, fillArgs(sig, n)))
			// one-item views of a caller-owned collection of FHIR primitive elements: a function that
			// normalises its input in place would overwrite the caller's slot
			for k := 0; k < c03FLen; k++ {
				ps = append(ps, callSrc(fmt.Sprintf("%%f.skip(%d).take(1)", k), name, fillArgs(sig, n)))
			}
			ps = append(ps, callSrc("%f.tail().tail().tail().tail().tail()", name, fillArgs(sig, n)))
		}
	}
	return ps
}

// %f: FHIR primitive elements of every System kind, owned by the caller
const c03FLen = 6

func c03FItems() []any {
	return []any{fhir.Integer(-5), &dtpb.Decimal{Value: "2.5"}, fhir.String("Ann"), fhir.Boolean(true), lib.ProtoDate("2020-02-29"),
		&dtpb.Quantity{Value: &dtpb.Decimal{Value: "-16"}, Unit: fhir.String("mg"), Code: fhir.Code("mg"), System: fhir.URI("http://unitsofmeasure.org")}}
}

type c03Shape struct{ name string }

var c03Shapes = []string{"absent", "system-value", "aliasing-element", "empty+spare", "items+spare", "items-exact"}

// shapes of %c only: items of one kind in no particular order (what an in-place sort would show), and collections that
// hold collections (what an in-place flattening would show)
var c03ShapesC = append(append([]string{}, c03Shapes...), "integers-unsorted", "strings-unsorted", "nested-collections+spare", "nested-empty-and-singleton")

func init() {
	progs := c03Programs()
	suffixes := []string{"", ".first()", ".last()", ".where($this.exists())", ".select($this)", ".toString()", ".distinct()", ".count()", ".tail()", ".take(1)", ".skip(1)", ".exists()", ".empty()", ".toDate()", ".toDateTime()"}
	core.Register(&core.Check{
		ID:          "C03",
		Rule:        "programs: one per node kind plus every function of both tables at every accepted arity with specification-typed arguments, on the input, on an environment collection and on every one-item view (skip(k).take(1), tail^5) of a caller-owned collection %f of six FHIR primitive elements (" + fmt.Sprint(len(progs)) + " programs) x 5 hand-sized inputs (Patient, Patient with contained Observation, Observation, Bundle, Questionnaire) x environment shapes for %c and %d in {absent, System value, element aliasing a node of the input, empty collection with 4 spare slots, 3 items with 4 spare slots, 3 items exact} (full product) with %e = empty collection with spare capacity and %el = aliasing element; plus every name path of the schema-covering resource family x 15 continuations and 4 comparison forms (conversion of every primitive kind at every precision). Before/after: deterministic serialisation and presence fingerprint of every input resource and environment element, full backing array s[:cap] (spare slots pre-filled with a sentinel) and header of every collection passed in, AST dump of the compiled expression; every FHIR element in a result is an input's own node (pointer), an equal copy of a node inside an Any-packed contained resource, or the synthesised Reference.reference string; checked after successful and failing evaluations; after the caller overwrote a returned collection and edited returned copies, the same evaluation gives the same result; non-trivial = distinct (program, input, environment shape, outcome)",
		Assumptions: []string{"reflect/unsafe are used to observe slice headers and the private expression tree"},
		Subs: func(tier string) []core.Sub {
			names := lib.ResourceTypeNames()
			depth, maxVar := 2, 2
			if tier == "thorough" {
				depth, maxVar = 3, 8
			}
			inputs := []struct {
				name string
				mk   func() []fhir.Resource
			}{
				{"Patient", func() []fhir.Resource { return []fhir.Resource{lib.Patient()} }},
				{"Patient+contained", func() []fhir.Resource { return []fhir.Resource{lib.PatientWithContained()} }},
				{"Observation", func() []fhir.Resource { return []fhir.Resource{lib.Observation()} }},
				{"Bundle", func() []fhir.Resource { return []fhir.Resource{lib.Bundle()} }},
				{"Questionnaire+Patient", func() []fhir.Resource { return []fhir.Resource{lib.Questionnaire(), lib.Patient()} }},
			}
			return []core.Sub{
				{Name: "programs", N: len(progs), Note: fmt.Sprintf("%d programs x %d inputs x %d environment shapes", len(progs), len(inputs), len(c03ShapesC)*len(c03Shapes)), Run: func(i int, r *core.Rec) {
					src := progs[i]
					for _, inp := range inputs {
						for _, shc := range c03ShapesC {
							for _, shd := range c03Shapes {
								if !strings.Contains(src, "%d") && shd != "absent" {
									continue
								}
								if !strings.Contains(src, "%c") && shc != "absent" {
									continue
								}
								in := inp.mk()
								nodes := &c03Nodes{ptr: map[proto.Message]bool{}}
								for _, res := range in {
									nodes.add(res.ProtoReflect(), false)
								}
								var alias proto.Message = lib.NameA()
								if p, ok := in[len(in)-1].(interface{ GetName() []*dtpb.HumanName }); ok && len(p.GetName()) > 0 {
									alias = p.GetName()[0]
								} else {
									nodes.add(alias.ProtoReflect(), false)
								}
								var slices []*c03Slice
								env := map[string]any{"n": system.Integer(1), "el": alias}
								mk := func(name, shape string) {
									switch shape {
									case "system-value":
										env[name] = system.Integer(5)
									case "aliasing-element":
										env[name] = alias
									case "empty+spare":
										s := c03MkSlice(name, nil, 4)
										slices = append(slices, s)
										env[name] = s.coll
									case "items+spare", "items-exact":
										spare := 4
										if shape == "items-exact" {
											spare = 0
										}
										s := c03MkSlice(name, []any{system.Integer(1), system.String("Ann"), alias}, spare)
										slices = append(slices, s)
										env[name] = s.coll
									case "integers-unsorted":
										s := c03MkSlice(name, []any{system.Integer(3), system.Integer(1), system.Integer(2), system.Integer(1)}, 2)
										slices = append(slices, s)
										env[name] = s.coll
									case "strings-unsorted":
										s := c03MkSlice(name, []any{system.String("Zoe"), system.String("Maria"), system.String("Adam")}, 0)
										slices = append(slices, s)
										env[name] = s.coll
									case "nested-collections+spare":
										inner := c03MkSlice(name+".inner", []any{system.String("b"), system.String("c")}, 3)
										s := c03MkSlice(name, []any{system.String("a"), inner.coll, system.String("d")}, 5)
										slices = append(slices, inner, s)
										env[name] = s.coll
									case "nested-empty-and-singleton":
										empty := c03MkSlice(name+".empty", nil, 2)
										one := c03MkSlice(name+".one", []any{system.Integer(7)}, 3)
										s := c03MkSlice(name, []any{system.String("a"), empty.coll, system.String("b"), one.coll, system.String("c")}, 0)
										slices = append(slices, empty, one, s)
										env[name] = s.coll
									}
								}
								mk("c", shc)
								mk("d", shd)
								se := c03MkSlice("e", nil, 4)
								slices = append(slices, se)
								env["e"] = se.coll
								var fItems []proto.Message
								var fBefore []string
								if strings.Contains(src, "%f") {
									items := c03FItems()
									sf := c03MkSlice("f", items, 2)
									slices = append(slices, sf)
									env["f"] = sf.coll
									for _, it := range items {
										m := it.(proto.Message)
										nodes.add(m.ProtoReflect(), false)
										fItems = append(fItems, m)
										fBefore = append(fBefore, c03Finger(m))
									}
								}
								before := make([]string, len(in))
								for k, res := range in {
									before[k] = c03Finger(res)
								}
								aliasBefore := c03Finger(alias)
								comp := lib.Compile(src, compopts.WithExperimentalFuncs(),
									compopts.AddFunction("keep", func(in system.Collection) (system.Collection, error) { return in, nil }),
									compopts.AddFunction("orElse", func(in system.Collection, alt system.Any) (system.Collection, error) {
										if len(in) > 0 {
											return in, nil
										}
										return system.Collection{alt}, nil
									}),
									compopts.AddFunction("both", func(in system.Collection, alt system.Any) (system.Collection, error) {
										return append(append(system.Collection{}, in...), alt), nil
									}))
								if comp.Panic != nil || comp.CompileErr != nil {
									continue // C01/C16 territory
								}
								ast := lib.DumpAST(comp.Expr)
								res := lib.EvalOpts(comp, in, lib.EnvOpts(env)...)
								r.Eval()
								cls := fmt.Sprintf("%s|c=%s|d=%s", inp.name, shc, shd)
								r.State("programs|" + cls + "|" + res.Class())
								r.Outcome(res.Class())
								r.Nontrivial(src, cls, res.Class())
								if r.WantSample() {
									r.Sample(core.W{"src": src, "input": inp.name, "c": shc, "d": shd, "outcome": res.Class()})
								}
								w := core.W{"src": src, "input": inp.name, "c": shc, "d": shd, "outcome": core.Short(res.String(), 200)}
								key := func(what string) string {
									return strings.Join([]string{what, c03ProgClass(src), "outcome=" + res.Class()}, "|")
								}
								for k, resr := range in {
									if c03Finger(resr) != before[k] {
										r.Fail(key("input-resource-mutated"), w)
									}
								}
								if c03Finger(alias) != aliasBefore {
									r.Fail(key("environment-element-mutated"), w)
								}
								for k, m := range fItems {
									if c03Finger(m) != fBefore[k] {
										r.Fail(key("environment-element-mutated"), w)
									}
								}
								for _, s := range slices {
									if d := s.changed(); d != "" {
										w2 := core.W{"src": src, "input": inp.name, "c": shc, "d": shd, "variable": s.name, "backing_before": lib.ShowColl(s.snap), "backing_after": lib.ShowColl(s.backing)}
										r.Fail(key("environment-collection-"+d+"|var="+s.name), w2)
									}
								}
								if lib.DumpAST(comp.Expr) != ast {
									r.Fail(key("compiled-expression-mutated"), w)
								}
								if res.Panic == nil && res.Err == nil {
									for _, it := range res.Coll {
										m, ok := it.(proto.Message)
										if !ok {
											continue
										}
										if nodes.has(m) {
											continue
										}
										if s, ok := m.(*dtpb.String); ok && strings.Contains(src, "reference") && s != nil {
											continue // synthesised reference string
										}
										r.Fail(key("result-element-is-not-an-input-node"), core.W{"src": src, "input": inp.name, "item": lib.Show(m)})
										break
									}
								}
								// what the caller does with its result is its own business: after it overwrote the returned slots and
								// edited returned copies (elements that are not nodes of the input), the same evaluation gives the same result
								if res.Panic == nil && res.Err == nil && len(res.Coll) > 0 && shc == "absent" && shd == "absent" {
									first := lib.ShowColl(res.Coll)
									var envOwn []proto.Message
									for _, v := range env {
										switch x := v.(type) {
										case proto.Message:
											envOwn = append(envOwn, x)
										case system.Collection:
											for _, it := range x {
												if m, ok := it.(proto.Message); ok {
													envOwn = append(envOwn, m)
												}
											}
										}
									}
									c04TamperOpt(false, in, res.Coll, envOwn...)
									again := lib.EvalOpts(comp, in, lib.EnvOpts(env)...)
									r.Eval()
									if again.Panic == nil && again.Err == nil && lib.ShowColl(again.Coll) != first {
										r.Fail(key("result-of-an-earlier-evaluation-edited-by-the-caller-shows-in-a-later-one"), core.W{"src": src, "input": inp.name, "first": core.Short(first, 200), "after_the_caller_edited_its_copy": core.Short(lib.ShowColl(again.Coll), 200)})
									}
								}
							}
						}
					}
				}},
				{Name: "schema-paths", N: len(names), Note: fmt.Sprintf("146 types x covering instances (depth %d) x every name path x %d continuations + comparisons", depth, len(suffixes)), Run: func(i int, r *core.Rec) {
					tn := names[i]
					for vi, resm := range lib.Family(tn, depth, maxVar) {
						// the family is shared and cached: work on a private clone
						res := proto.Clone(resm).(fhir.Resource)
						tree, _, err := lib.ResourceJSON(res)
						if err != nil {
							continue
						}
						b := &c02Builder{}
						root := b.build(tree, res.ProtoReflect(), false)
						before := c03Finger(res)
						in := []fhir.Resource{res}
						var walk func(names []string, nodes []*c02Node)
						walk = func(names []string, nodes []*c02Node) {
							path := tn
							for _, nm := range names {
								path += "." + c02Ident(nm)
							}
							if len(names) > 0 {
								var srcs []string
								for _, s := range suffixes {
									srcs = append(srcs, path+s)
								}
								srcs = append(srcs, path+" = "+path, path+".first() < "+path+".last()", path+".first() > @2019-01-01T00:00:00.000Z", path+".first() + 1 second", path+".first() & 'x'", path+".first() + 1")
								for _, src := range srcs {
									ev := lib.Run(src, in, nil)
									r.Eval()
									r.State("schema|" + ev.Class())
									r.Nontrivial(tn, fmt.Sprint(vi), src, ev.Class())
									if r.WantSample() {
										r.Sample(core.W{"type": tn, "src": src, "outcome": ev.Class()})
									}
								}
								// one fingerprint per path; on a change the culprit program is found on fresh clones
								if after := c03Finger(res); after != before {
									before = after
									leaf := "complex"
									if len(nodes) > 0 && nodes[0].md != nil && lib.IsPrimitiveMsg(nodes[0].md) {
										leaf = string(nodes[0].md.Name())
									}
									culprit := "(only in sequence)"
									for _, src := range srcs {
										fresh := proto.Clone(resm).(fhir.Resource)
										fb := c03Finger(fresh)
										lib.Run(src, []fhir.Resource{fresh}, nil)
										r.Eval()
										if c03Finger(fresh) != fb {
											culprit = src
											break
										}
									}
									r.Fail("input-resource-mutated|schema-path|leaf="+leaf+"|"+c03ProgClass(strings.TrimPrefix(culprit, path)), core.W{"type": tn, "variant": vi, "path": path, "src": culprit})
								}
							}
							var childNames []string
							cs := map[string]bool{}
							for _, n := range nodes {
								for _, nm := range n.names {
									if !cs[nm] {
										cs[nm] = true
										childNames = append(childNames, nm)
									}
								}
							}
							for _, nm := range childNames {
								walk(append(append([]string{}, names...), nm), c02Expand(nodes, nm))
							}
						}
						walk(nil, []*c02Node{root})
					}
				}},
			}
		},
	})
}

// c03ProgClass abstracts a program to the functions/operators it uses (for finding keys).
func c03ProgClass(src string) string {
	var fs []string
	seen := map[string]bool{}
	for i := 0; i < len(src); i++ {
		if src[i] == '(' {
			j := i
			for j > 0 && (src[j-1] == '_' || src[j-1] >= 'a' && src[j-1] <= 'z' || src[j-1] >= 'A' && src[j-1] <= 'Z' || src[j-1] >= '0' && src[j-1] <= '9') {
				j--
			}
			if j < i && !seen[src[j:i]] {
				seen[src[j:i]] = true
				fs = append(fs, src[j:i])
			}
		}
	}
	for _, op := range []string{" & ", " = ", " != ", " < ", " > ", " + ", " and ", " or ", " is ", " as "} {
		if strings.Contains(src, op) {
			fs = append(fs, strings.TrimSpace(op))
		}
	}
	if len(fs) == 0 {
		return "navigation"
	}
	return strings.Join(fs, ",")
}

var _ fhirpath.CompileOption
