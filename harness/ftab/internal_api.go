//go:build !verif_public

package ftab

import (
	"errors"

	"github.com/verily-src/fhirpath-go/fhirpath/internal/funcs"
	"github.com/verily-src/fhirpath-go/fhirpath/internal/funcs/impl"
	"github.com/verily-src/fhirpath-go/fhirpath/verifh/lib"
)

// Mode names the way the table is obtained.
const Mode = "internal tables of the tree under check (fhirpath/internal/funcs)"

// Table returns the default table, or the table with the experimental functions added.
func Table(experimental bool) map[string]Entry {
	t := funcs.Clone()
	if experimental {
		t = funcs.AddExperimentalFuncs(t)
	}
	out := map[string]Entry{}
	for k, fn := range t {
		out[k] = Entry{Min: fn.MinArity, Max: fn.MaxArity, Impl: lib.FuncName(fn.Func)}
	}
	return out
}

// IsArityError reports whether err is the library's wrong-arity sentinel.
func IsArityError(err error) bool { return errors.Is(err, impl.ErrWrongArity) }

// ExperimentalRaw returns the experimental functions as the library declares them, added to an EMPTY table
// (so that no entry of the default table can stand in their way); nil when this view is not available.
func ExperimentalRaw() map[string]Entry {
	t := funcs.AddExperimentalFuncs(funcs.FunctionTable{})
	out := map[string]Entry{}
	for k, fn := range t {
		out[k] = Entry{Min: fn.MinArity, Max: fn.MaxArity, Impl: lib.FuncName(fn.Func)}
	}
	return out
}
