// Package ftab gives the checks one view of the library's function tables:
// name -> (arity bounds, implementation name). The default build reads the
// tables of the tree under check directly (fhirpath/internal/funcs); when that
// internal API has a different shape in the tree under check, ./check rebuilds
// the harness with the tag verif_public and the same view is reconstructed
// through the public API alone (trial compilation), without implementation names.
package ftab

import (
	"fmt"
	"sort"
	"strings"
)

// Entry describes one function of a table.
type Entry struct {
	Min, Max int
	Impl     string // implementation as reported by runtime.FuncForPC; "" when not observable (public mode)
}

// Placeholder is the implementation name of the not-implemented stand-in.
const Placeholder = "fhirpath/internal/funcs.unimplemented"

// Snapshot renders a table deterministically.
func Snapshot(t map[string]Entry) string {
	var ks []string
	for k, e := range t {
		ks = append(ks, fmt.Sprintf("%s=%s/%d..%d", k, e.Impl, e.Min, e.Max))
	}
	sort.Strings(ks)
	return strings.Join(ks, ";")
}
