//go:build verif_public

package ftab

import (
	"strings"

	"github.com/verily-src/fhirpath-go/fhirpath"
	"github.com/verily-src/fhirpath-go/fhirpath/compopts"
)

// Mode names the way the table is obtained.
const Mode = "reconstructed through the public API by trial compilation (the internal table API of this tree differs); implementation names are not observable"

// every table key known when the harness was written plus the FHIRPath N1 names: candidates for trial compilation
var candidates = strings.Fields(`abs all allFalse allTrue anyFalse anyTrue as ceiling children combine contains convertsToBoolean convertsToDate convertsToDateTime
convertsToDecimal convertsToInteger convertsToQuantity convertsToString convertsToTime count descendants distinct empty endsWith exclude exists exp extension first floor
hasValue iif indexOf intersect is isDistinct join last length ln log lower matches not now ofType power repeat replace replaceMatches round select single skip sqrt startsWith
subsetOf substring supersetOf tail take timeOfDay toBoolean toChars toDate toDateTime toDecimal toInteger toQuantity toString toTime today trace truncate union upper where
aggregate sum min max avg encode decode escape unescape trim split lowBoundary highBoundary precision getValue resolve memberOf conformsTo htmlChecks elementDefinition slice checkModifiers`)

// Table reconstructs name -> arity bounds by compiling `1.name(1, ..., 1)` with 0..5 arguments.
func Table(experimental bool) map[string]Entry {
	var opts []fhirpath.CompileOption
	if experimental {
		opts = append(opts, compopts.WithExperimentalFuncs())
	}
	out := map[string]Entry{}
	for _, name := range candidates {
		min, max, known := -1, -1, false
		for n := 0; n <= 5; n++ {
			args := make([]string, n)
			for i := range args {
				args[i] = "1"
			}
			_, err := fhirpath.Compile("1."+name+"("+strings.Join(args, ", ")+")", opts...)
			switch {
			case err == nil:
				known = true
				if min < 0 {
					min = n
				}
				max = n
			case strings.Contains(err.Error(), "arity"):
				known = true
			}
		}
		if known && min >= 0 {
			e := Entry{Min: min, Max: max}
			// a not-implemented stand-in says so when it is evaluated
			args := make([]string, min)
			for i := range args {
				args[i] = "1"
			}
			if x, err := fhirpath.Compile("1."+name+"("+strings.Join(args, ", ")+")", opts...); err == nil {
				if _, everr := x.Evaluate(nil); everr != nil && strings.Contains(everr.Error(), "not yet implemented") {
					e.Impl = Placeholder
				}
			}
			out[name] = e
		}
	}
	return out
}

// IsArityError: the sentinel is internal; the message is what the public API shows.
func IsArityError(err error) bool {
	return err != nil && strings.Contains(err.Error(), "incorrect function arity")
}

// ExperimentalRaw is not observable through the public API.
func ExperimentalRaw() map[string]Entry { return nil }
