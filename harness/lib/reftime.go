package lib

import (
	"fmt"
	"strconv"
	"strings"

	dtpb "github.com/google/fhir/go/proto/google/fhir/proto/r4/core/datatypes_go_proto"
)

// Independent proleptic-Gregorian reference (no use of package time).

// RefT is a partial-precision Date / DateTime / Time.
// Prec: 1=year 2=month 3=day 4=hour 5=minute 6=second (Time uses 4..6).
type RefT struct {
	Kind               string // "Date" | "DateTime" | "Time"
	Y, Mo, D, H, Mi, S int
	Frac               string // fractional-second digits as written
	Prec               int
	HasOff             bool
	Off                int // minutes east of UTC
	OffText            string
}

func IsLeap(y int) bool { return y%4 == 0 && (y%100 != 0 || y%400 == 0) }

func DaysInMonth(y, m int) int {
	switch m {
	case 1, 3, 5, 7, 8, 10, 12:
		return 31
	case 4, 6, 9, 11:
		return 30
	}
	if IsLeap(y) {
		return 29
	}
	return 28
}

// DaysFromCivil: days since 1970-01-01 (Howard Hinnant's algorithm).
func DaysFromCivil(y, m, d int) int64 {
	yy := int64(y)
	if m <= 2 {
		yy--
	}
	var era int64
	if yy >= 0 {
		era = yy / 400
	} else {
		era = (yy - 399) / 400
	}
	yoe := yy - era*400
	mm := int64(m)
	var mp int64
	if mm > 2 {
		mp = mm - 3
	} else {
		mp = mm + 9
	}
	doy := (153*mp+2)/5 + int64(d) - 1
	doe := yoe*365 + yoe/4 - yoe/100 + doy
	return era*146097 + doe - 719468
}

func CivilFromDays(z int64) (y, m, d int) {
	z += 719468
	var era int64
	if z >= 0 {
		era = z / 146097
	} else {
		era = (z - 146096) / 146097
	}
	doe := z - era*146097
	yoe := (doe - doe/1460 + doe/36524 - doe/146096) / 365
	yy := yoe + era*400
	doy := doe - (365*yoe + yoe/4 - yoe/100)
	mp := (5*doy + 2) / 153
	dd := doy - (153*mp+2)/5 + 1
	var mm int64
	if mp < 10 {
		mm = mp + 3
	} else {
		mm = mp - 9
	}
	if mm <= 2 {
		yy++
	}
	return int(yy), int(mm), int(dd)
}

func atoiN(s string, n int) (int, bool) {
	if len(s) != n {
		return 0, false
	}
	for _, c := range s {
		if c < '0' || c > '9' {
			return 0, false
		}
	}
	v, _ := strconv.Atoi(s)
	return v, true
}

// parseOffset parses "Z" / "+hh:mm" / "-hh:mm".
func parseOffset(s string) (int, bool) {
	if s == "Z" {
		return 0, true
	}
	if len(s) != 6 || (s[0] != '+' && s[0] != '-') || s[3] != ':' {
		return 0, false
	}
	h, ok1 := atoiN(s[1:3], 2)
	m, ok2 := atoiN(s[4:6], 2)
	if !ok1 || !ok2 || h > 14 || m > 59 {
		return 0, false
	}
	off := h*60 + m
	if s[0] == '-' {
		off = -off
	}
	return off, true
}

func parseDatePart(s string, t *RefT) bool {
	parts := strings.Split(s, "-")
	if len(parts) < 1 || len(parts) > 3 {
		return false
	}
	var ok bool
	if t.Y, ok = atoiN(parts[0], 4); !ok || t.Y < 1 {
		return false
	}
	t.Prec = 1
	t.Mo, t.D = 1, 1
	if len(parts) >= 2 {
		if t.Mo, ok = atoiN(parts[1], 2); !ok || t.Mo < 1 || t.Mo > 12 {
			return false
		}
		t.Prec = 2
	}
	if len(parts) == 3 {
		if t.D, ok = atoiN(parts[2], 2); !ok || t.D < 1 || t.D > DaysInMonth(t.Y, t.Mo) {
			return false
		}
		t.Prec = 3
	}
	return true
}

func parseTimePart(s string, t *RefT) bool {
	if i := strings.Index(s, "."); i >= 0 {
		t.Frac = s[i+1:]
		s = s[:i]
		if t.Frac == "" {
			return false
		}
		for _, c := range t.Frac {
			if c < '0' || c > '9' {
				return false
			}
		}
	}
	parts := strings.Split(s, ":")
	if len(parts) < 1 || len(parts) > 3 {
		return false
	}
	var ok bool
	if t.H, ok = atoiN(parts[0], 2); !ok || t.H > 23 {
		return false
	}
	t.Prec = 4
	if len(parts) >= 2 {
		if t.Mi, ok = atoiN(parts[1], 2); !ok || t.Mi > 59 {
			return false
		}
		t.Prec = 5
	}
	if len(parts) == 3 {
		if t.S, ok = atoiN(parts[2], 2); !ok || t.S > 59 {
			return false
		}
		t.Prec = 6
	}
	if t.Frac != "" && t.Prec != 6 {
		return false
	}
	return true
}

// ParseRefT parses FHIRPath literal text without the leading '@'
// ("2020-01", "2020-01-15T10:30+05:30", "T10:30") strictly, including calendar validity.
func ParseRefT(kind, text string) (RefT, bool) {
	t := RefT{Kind: kind}
	switch kind {
	case "Date":
		return t, parseDatePart(text, &t)
	case "Time":
		text = strings.TrimPrefix(text, "T")
		return t, parseTimePart(text, &t)
	case "DateTime":
		i := strings.Index(text, "T")
		if i < 0 {
			return t, false
		}
		if !parseDatePart(text[:i], &t) {
			return t, false
		}
		rest := text[i+1:]
		if rest == "" {
			return t, true
		}
		// split offset
		tp := rest
		if strings.HasSuffix(rest, "Z") {
			tp, t.OffText = rest[:len(rest)-1], "Z"
		} else if j := strings.LastIndexAny(rest, "+-"); j >= 0 {
			tp, t.OffText = rest[:j], rest[j:]
		}
		if t.OffText != "" {
			off, ok := parseOffset(t.OffText)
			if !ok {
				return t, false
			}
			t.HasOff, t.Off = true, off
		}
		if t.Prec != 3 || tp == "" {
			return t, false // a time part requires a full date
		}
		return t, parseTimePart(tp, &t)
	}
	return t, false
}

// Nanos returns the fraction as nanoseconds (truncated to 9 digits).
func (t RefT) Nanos() int64 {
	f := t.Frac
	if len(f) > 9 {
		f = f[:9]
	}
	for len(f) < 9 {
		f += "0"
	}
	v, _ := strconv.ParseInt(f, 10, 64)
	return v
}

// UTC normalises a DateTime with an offset and at least hour precision to UTC.
func (t RefT) UTC() RefT {
	if t.Kind != "DateTime" || !t.HasOff || t.Prec < 4 || t.Off == 0 {
		return t
	}
	mins := DaysFromCivil(t.Y, t.Mo, t.D)*1440 + int64(t.H*60+t.Mi) - int64(t.Off)
	days := mins / 1440
	rem := mins % 1440
	if rem < 0 {
		rem += 1440
		days--
	}
	t.Y, t.Mo, t.D = CivilFromDays(days)
	t.H, t.Mi = int(rem/60), int(rem%60)
	t.Off, t.OffText = 0, "Z"
	return t
}

func (t RefT) vec() ([]int64, int) {
	if t.Kind == "Time" {
		return []int64{int64(t.H), int64(t.Mi), int64(t.S)*1e9 + t.Nanos()}, t.Prec - 3
	}
	return []int64{int64(t.Y), int64(t.Mo), int64(t.D), int64(t.H), int64(t.Mi), int64(t.S)*1e9 + t.Nanos()}, t.Prec
}

// CompareRefT compares component-wise down to the shared precision after
// offset normalisation. defined=false means "empty" (all shared components
// equal but precisions differ). Date and DateTime are mutually comparable.
func CompareRefT(a, b RefT) (cmp int, defined bool, comparable bool) {
	if (a.Kind == "Time") != (b.Kind == "Time") {
		return 0, false, false
	}
	a, b = a.UTC(), b.UTC()
	va, pa := a.vec()
	vb, pb := b.vec()
	n := pa
	if pb < n {
		n = pb
	}
	for i := 0; i < n; i++ {
		if va[i] < vb[i] {
			return -1, true, true
		}
		if va[i] > vb[i] {
			return 1, true, true
		}
	}
	if pa == pb {
		return 0, true, true
	}
	return 0, false, true
}

// Text renders the value back in FHIRPath literal form (without '@').
func (t RefT) Text() string {
	var sb strings.Builder
	if t.Kind != "Time" {
		fmt.Fprintf(&sb, "%04d", t.Y)
		if t.Prec >= 2 {
			fmt.Fprintf(&sb, "-%02d", t.Mo)
		}
		if t.Prec >= 3 {
			fmt.Fprintf(&sb, "-%02d", t.D)
		}
		if t.Kind == "Date" {
			return sb.String()
		}
	}
	sb.WriteString("T")
	if t.Prec >= 4 {
		fmt.Fprintf(&sb, "%02d", t.H)
	}
	if t.Prec >= 5 {
		fmt.Fprintf(&sb, ":%02d", t.Mi)
	}
	if t.Prec >= 6 {
		fmt.Fprintf(&sb, ":%02d", t.S)
		if t.Frac != "" {
			sb.WriteString("." + t.Frac)
		}
	}
	if t.Kind == "DateTime" {
		sb.WriteString(t.OffText)
	}
	return sb.String()
}

// EpochMicros returns the instant (UTC microseconds) denoted by the value,
// unspecified components taken as their minimum and no offset taken as UTC.
func (t RefT) EpochMicros() int64 {
	days := DaysFromCivil(t.Y, t.Mo, t.D)
	us := days*86400e6 + int64(t.H)*3600e6 + int64(t.Mi)*60e6 + int64(t.S)*1e6 + t.Nanos()/1000
	return us - int64(t.Off)*60e6
}

// ---- FHIR proto builders from FHIR JSON text (independent of the repo's parsers).

// tzOf is the google/fhir convention: the offset exactly as written, "Z" for Z;
// values without an offset use def.
func tzOf(t RefT, def string) string {
	if t.HasOff {
		return t.OffText
	}
	return def
}

// ProtoDate builds a FHIR date ("2020", "2020-01", "2020-01-15").
func ProtoDate(text string) *dtpb.Date {
	if base, zone, secs := zoneSuffix(text); zone != "" {
		d := ProtoDate(base)
		d.ValueUs -= secs * 1e6
		d.Timezone = zone
		return d
	}
	t, ok := ParseRefT("Date", text)
	if !ok {
		panic("ProtoDate: " + text)
	}
	p := map[int]dtpb.Date_Precision{1: dtpb.Date_YEAR, 2: dtpb.Date_MONTH, 3: dtpb.Date_DAY}[t.Prec]
	return &dtpb.Date{ValueUs: t.EpochMicros(), Precision: p, Timezone: "Z"}
}

// zoneSuffix splits "2020-02@+10:00" into the FHIR text and the offset (seconds) of the zone the element was read in:
// a date or partial dateTime has no offset in its text, but its proto is anchored at midnight of some zone
func zoneSuffix(text string) (string, string, int64) {
	i := strings.Index(text, "@")
	if i < 0 {
		return text, "", 0
	}
	z := text[i+1:]
	var h, m int64
	fmt.Sscanf(z[1:], "%d:%d", &h, &m)
	secs := h*3600 + m*60
	if z[0] == '-' {
		secs = -secs
	}
	return text[:i], z, secs
}

// ProtoDateTime builds a FHIR dateTime from FHIR JSON text ("2020-01-15T10:30:15+05:30").
func ProtoDateTime(text string) *dtpb.DateTime {
	if base, zone, secs := zoneSuffix(text); zone != "" {
		d := ProtoDateTime(base)
		d.ValueUs -= secs * 1e6
		d.Timezone = zone
		return d
	}
	src := text
	if !strings.Contains(src, "T") {
		src += "T"
	}
	t, ok := ParseRefT("DateTime", src)
	if !ok {
		panic("ProtoDateTime: " + text)
	}
	var p dtpb.DateTime_Precision
	switch {
	case t.Prec == 1:
		p = dtpb.DateTime_YEAR
	case t.Prec == 2:
		p = dtpb.DateTime_MONTH
	case t.Prec == 3:
		p = dtpb.DateTime_DAY
	case len(t.Frac) == 0:
		p = dtpb.DateTime_SECOND
	case len(t.Frac) <= 3:
		p = dtpb.DateTime_MILLISECOND
	default:
		p = dtpb.DateTime_MICROSECOND
	}
	return &dtpb.DateTime{ValueUs: t.EpochMicros(), Precision: p, Timezone: tzOf(t, "Z")}
}

func ProtoInstant(text string) *dtpb.Instant {
	t, ok := ParseRefT("DateTime", text)
	if !ok || t.Prec != 6 || !t.HasOff {
		panic("ProtoInstant: " + text)
	}
	p := dtpb.Instant_SECOND
	if len(t.Frac) > 3 {
		p = dtpb.Instant_MICROSECOND
	} else if len(t.Frac) > 0 {
		p = dtpb.Instant_MILLISECOND
	}
	return &dtpb.Instant{ValueUs: t.EpochMicros(), Precision: p, Timezone: tzOf(t, "Z")}
}

func ProtoTime(text string) *dtpb.Time {
	t, ok := ParseRefT("Time", text)
	if !ok || t.Prec != 6 {
		panic("ProtoTime: " + text)
	}
	p := dtpb.Time_SECOND
	if len(t.Frac) > 3 {
		p = dtpb.Time_MICROSECOND
	} else if len(t.Frac) > 0 {
		p = dtpb.Time_MILLISECOND
	}
	return &dtpb.Time{ValueUs: int64(t.H)*3600e6 + int64(t.Mi)*60e6 + int64(t.S)*1e6 + t.Nanos()/1000, Precision: p}
}
