package lib

import (
	"reflect"
	"unsafe"

	"github.com/shopspring/decimal"
	"github.com/verily-src/fhirpath-go/fhirpath/system"
)

// Values of the pools are built WITHOUT the repository's own parsers wherever the type allows it: a change to
// system.ParseDecimal / ParseQuantity would otherwise change the harness's inputs together with the results they are
// compared with, and the checks would compare a wrong value with itself.

// Dec builds a system.Decimal from its text through shopspring/decimal (a third-party module), not system.ParseDecimal.
func Dec(s string) system.Decimal { return system.Decimal(decimal.RequireFromString(s)) }

// qtyMirror mirrors the layout of system.Quantity (value Decimal; unit string). QtyIndependent reports whether the
// mirror matches the tree under test; when it does not, Qty falls back to system.MustParseQuantity.
type qtyMirror struct {
	value decimal.Decimal
	unit  string
}

var QtyIndependent = func() bool {
	t := reflect.TypeOf(system.Quantity{})
	if t.Kind() != reflect.Struct || t.NumField() != 2 || t.Size() != unsafe.Sizeof(qtyMirror{}) {
		return false
	}
	f0, f1 := t.Field(0), t.Field(1)
	return f0.Name == "value" && f0.Type == reflect.TypeOf(system.Decimal{}) && f0.Offset == 0 &&
		f1.Name == "unit" && f1.Type.Kind() == reflect.String && f1.Offset == unsafe.Offsetof(qtyMirror{}.unit)
}()

// Qty builds the Quantity with exactly this number and unit text, not passing through the repository's constructor.
func Qty(n, u string) system.Quantity {
	if !QtyIndependent {
		return system.MustParseQuantity(n, u)
	}
	m := qtyMirror{value: decimal.RequireFromString(n), unit: u}
	return *(*system.Quantity)(unsafe.Pointer(&m))
}
