package lib

import (
	"fmt"
	"sort"
	"strings"
	"sync"

	bcrpb "github.com/google/fhir/go/proto/google/fhir/proto/r4/core/resources/bundle_and_contained_resource_go_proto"
	"google.golang.org/protobuf/proto"
	"google.golang.org/protobuf/reflect/protoreflect"
	"google.golang.org/protobuf/types/known/anypb"
)

// Schema-covering resource family R: for each of the 146 R4 resource types,
// instances built by a descriptor walk that populates every field; repeated
// fields get two distinct elements; instance k takes alternative k mod n of
// every oneof; recursion is cut at a depth bound. Deterministic: no
// randomness, map iteration is never used for a decision.

const corePkg = "google.fhir.r4.core."

// ResourceTypeNames returns the 146 resource type names in sorted order,
// read from the ContainedResource oneof descriptor (not from the repository).
func ResourceTypeNames() []string {
	od := (&bcrpb.ContainedResource{}).ProtoReflect().Descriptor().Oneofs().ByName("oneof_resource")
	var out []string
	for i := 0; i < od.Fields().Len(); i++ {
		out = append(out, string(od.Fields().Get(i).Message().Name()))
	}
	sort.Strings(out)
	return out
}

func resourceField(name string) protoreflect.FieldDescriptor {
	od := (&bcrpb.ContainedResource{}).ProtoReflect().Descriptor().Oneofs().ByName("oneof_resource")
	for i := 0; i < od.Fields().Len(); i++ {
		if string(od.Fields().Get(i).Message().Name()) == name {
			return od.Fields().Get(i)
		}
	}
	return nil
}

// NewResource returns an empty resource of the named type.
func NewResource(name string) proto.Message {
	fd := resourceField(name)
	if fd == nil {
		return nil
	}
	cr := &bcrpb.ContainedResource{}
	return cr.ProtoReflect().NewField(fd).Message().Interface()
}

type gen struct {
	variant     int
	maxDepth    int
	counter     int
	noContained bool // set for resources that are themselves contained / bundled
}

// IsPrimitiveMsg: a FHIR primitive is a message whose field "value" is not a
// message, or one of the date/time types (value_us).
func IsPrimitiveMsg(md protoreflect.MessageDescriptor) bool {
	if f := md.Fields().ByName("value"); f != nil && f.Kind() != protoreflect.MessageKind && !f.IsList() {
		return true
	}
	return md.Fields().ByName("value_us") != nil
}

func isChoiceMsg(md protoreflect.MessageDescriptor) bool {
	return md.Oneofs().ByName("choice") != nil && md.Fields().Len() == md.Oneofs().ByName("choice").Fields().Len()
}

var dateTexts = []string{"2020", "2020-02", "2020-02-29", "2019-12-31", "1650-03-04", "1066", "2300-06", "2020-02-29@+10:00", "2020@-11:30", "2021-01@+14:00"}
var dateTimeTexts = []string{"2020", "2020-02", "2020-02-29", "2020-02-29T10:30:15Z", "2020-02-29T10:30:15+05:30", "2020-02-29T10:30:15.250-11:00", "2019-12-31T23:59:59.999999Z", "2021-06-15T10:30:00-03:30", "2000-01-01T23:50:00-00:30", "2300-06-07T08:09:10+02:00", "1600-02-29T23:59:59Z", "2020@+10:00", "2020-01@+14:00", "2020-01-01@+05:30", "2021-03-01@-08:00"}
var instantTexts = []string{"2020-02-29T10:30:15Z", "2020-02-29T10:30:15.250+05:30", "2019-12-31T23:59:59.999999-11:00", "2021-06-15T23:45:10.250-09:30", "2021-06-15T23:45:10+00:45", "2290-01-02T03:04:05Z", "1677-09-20T00:00:00-05:00"}
var timeTexts = []string{"10:30:15", "10:30:15.250", "23:59:59.999999", "08:30:00.045", "23:59:59.000120"}
var stringTexts = []string{"a", "b c", "é€", "x-1", "Smith"}

func (g *gen) next() int { g.counter++; return g.counter + g.variant }

func (g *gen) setPrimitive(m protoreflect.Message, depth int) {
	md := m.Descriptor()
	n := g.next()
	full := string(md.FullName())
	dateLike := true
	switch full {
	case corePkg + "Date":
		proto.Merge(m.Interface(), ProtoDate(dateTexts[n%len(dateTexts)]))
	case corePkg + "DateTime":
		proto.Merge(m.Interface(), ProtoDateTime(dateTimeTexts[n%len(dateTimeTexts)]))
	case corePkg + "Instant":
		proto.Merge(m.Interface(), ProtoInstant(instantTexts[n%len(instantTexts)]))
	case corePkg + "Time":
		proto.Merge(m.Interface(), ProtoTime(timeTexts[n%len(timeTexts)]))
	default:
		dateLike = false
	}
	if dateLike {
		g.primitiveChildren(m, depth, n, 3) // date-like primitives get ids/extensions often: they are special-cased in the repository
		return
	}
	f := md.Fields().ByName("value")
	switch f.Kind() {
	case protoreflect.StringKind:
		s := stringTexts[n%len(stringTexts)]
		switch full {
		case corePkg + "Decimal":
			s = []string{"1.50", "0", "-3.25", "100", "0.123456789", "-0.000000004", "37.774929512345", "1234567.123456789012", "0.30000000000000001"}[n%9]
		case corePkg + "Id":
			s = []string{"id-1", "A.2", "x"}[n%3]
		case corePkg + "Uri", corePkg + "Url", corePkg + "Canonical":
			s = []string{"http://example.org/a", "http://example.org/b|1.0", "urn:x:y"}[n%3]
		case corePkg + "Oid":
			s = "urn:oid:1.2." + fmt.Sprint(n%7)
		case corePkg + "Uuid":
			s = fmt.Sprintf("urn:uuid:00000000-0000-0000-0000-%012d", n%1000)
		case corePkg + "Xhtml":
			s = "<div xmlns=\"http://www.w3.org/1999/xhtml\">t" + fmt.Sprint(n%3) + "</div>"
		case corePkg + "Code", corePkg + "Markdown", corePkg + "String":
		default:
			// string-valued code wrappers (e.g. MimeTypeCode, LanguageCode): a token without spaces
			s = []string{"en", "text/plain", "x"}[n%3]
		}
		m.Set(f, protoreflect.ValueOfString(s))
	case protoreflect.BoolKind:
		m.Set(f, protoreflect.ValueOfBool(n%2 == 0))
	case protoreflect.Int32Kind, protoreflect.Sint32Kind, protoreflect.Int64Kind:
		m.Set(f, protoreflect.ValueOfInt32(int32([]int{0, 7, -3, 42}[n%4])))
		if f.Kind() == protoreflect.Int64Kind {
			m.Set(f, protoreflect.ValueOfInt64(int64(n%5)))
		}
	case protoreflect.Uint32Kind:
		v := uint32(n%5) + 1
		m.Set(f, protoreflect.ValueOfUint32(v))
	case protoreflect.BytesKind:
		m.Set(f, protoreflect.ValueOfBytes([]byte{'a', byte('a' + n%5)}))
	case protoreflect.EnumKind:
		vals := f.Enum().Values()
		// 0 is INVALID_UNINITIALIZED
		idx := 1
		if vals.Len() > 2 {
			idx = 1 + n%(vals.Len()-1)
		}
		if vals.Len() == 1 {
			idx = 0
		}
		m.Set(f, protoreflect.ValueOfEnum(vals.Get(idx).Number()))
	}
	g.primitiveChildren(m, depth, n, 11)
}

// primitiveChildren adds an element id and extensions to a primitive on a sparse lattice.
func (g *gen) primitiveChildren(m protoreflect.Message, depth, n, every int) {
	md := m.Descriptor()
	if depth < g.maxDepth && n%every == 0 {
		if idf := md.Fields().ByName("id"); idf != nil && idf.Message() != nil {
			idm := m.Mutable(idf).Message()
			idm.Set(idm.Descriptor().Fields().ByName("value"), protoreflect.ValueOfString(fmt.Sprintf("e%d", n%5)))
		}
		if ef := md.Fields().ByName("extension"); ef != nil && ef.IsList() {
			el := m.Mutable(ef).List()
			for k := 0; k < 2; k++ {
				e := el.NewElement()
				g.fillExtension(e.Message(), true)
				el.Append(e)
			}
		}
	}
}

// fillExtension builds a simple extension with a primitive value.
func (g *gen) fillExtension(e protoreflect.Message, simple bool) {
	md := e.Descriptor()
	n := g.next()
	u := e.Mutable(md.Fields().ByName("url")).Message()
	u.Set(u.Descriptor().Fields().ByName("value"), protoreflect.ValueOfString([]string{"http://u", "http://v", "http://w"}[n%3]))
	vx := e.Mutable(md.Fields().ByName("value")).Message()
	od := vx.Descriptor().Oneofs().ByName("choice")
	// primitive alternatives only
	var prims []protoreflect.FieldDescriptor
	for i := 0; i < od.Fields().Len(); i++ {
		if IsPrimitiveMsg(od.Fields().Get(i).Message()) {
			prims = append(prims, od.Fields().Get(i))
		}
	}
	fd := prims[n%len(prims)]
	g.setPrimitive(vx.Mutable(fd).Message(), g.maxDepth)
}

func (g *gen) pickAlt(od protoreflect.OneofDescriptor, depth int) protoreflect.FieldDescriptor {
	n := od.Fields().Len()
	k := g.variant % n
	if depth >= g.maxDepth {
		// at the depth cut only a primitive alternative can be completed
		for j := 0; j < n; j++ {
			fd := od.Fields().Get((k + j) % n)
			if fd.Message() != nil && IsPrimitiveMsg(fd.Message()) {
				return fd
			}
		}
	}
	return od.Fields().Get(k)
}

func (g *gen) fill(m protoreflect.Message, depth int) {
	md := m.Descriptor()
	full := string(md.FullName())
	if IsPrimitiveMsg(md) {
		g.setPrimitive(m, depth)
		return
	}
	switch full {
	case "google.protobuf.Any":
		return
	case corePkg + "ContainedResource":
		g.fillContained(m, depth)
		return
	case corePkg + "Extension":
		if depth >= g.maxDepth {
			g.fillExtension(m, true)
			return
		}
	case corePkg + "Reference":
		g.fillReference(m, depth)
		return
	}
	done := map[protoreflect.Name]bool{}
	for i := 0; i < md.Fields().Len(); i++ {
		fd := md.Fields().Get(i)
		if od := fd.ContainingOneof(); od != nil {
			if done[od.Name()] {
				continue
			}
			done[od.Name()] = true
			alt := g.pickAlt(od, depth)
			if alt.Message() == nil {
				continue
			}
			if !IsPrimitiveMsg(alt.Message()) && depth >= g.maxDepth {
				continue // cannot complete: leave the oneof unset (handled by the parent for choice wrappers)
			}
			g.fill(m.Mutable(alt).Message(), depth+1)
			continue
		}
		if fd.Message() == nil {
			continue // proto-native scalar outside a primitive: not FHIR data
		}
		child := fd.Message()
		if string(child.FullName()) == "google.protobuf.Any" {
			// DomainResource.contained
			if depth == 0 && fd.IsList() && !g.noContained && g.variant%3 == 1 { // variants 1, 4, 7, ... carry contained resources
				lst := m.Mutable(fd).List()
				for _, rt := range []string{"Observation", "Patient"}[:2-(g.variant/3)%2] {
					cr := &bcrpb.ContainedResource{}
					sub := &gen{variant: g.variant + 1, maxDepth: 1, noContained: true}
					rf := resourceField(rt)
					rm := cr.ProtoReflect().Mutable(rf).Message()
					sub.fill(rm, 0)
					a, err := anypb.New(cr)
					if err != nil {
						panic(err)
					}
					lst.Append(protoreflect.ValueOfMessage(a.ProtoReflect()))
				}
			}
			continue
		}
		isPrim := IsPrimitiveMsg(child)
		if !isPrim && depth >= g.maxDepth {
			// choice wrappers must not be left empty; other complex children are cut
			continue
		}
		if isChoiceMsg(child) {
			// only create the wrapper when an alternative can be set
			od := child.Oneofs().ByName("choice")
			alt := g.pickAlt(od, depth+1)
			if alt.Message() == nil || (!IsPrimitiveMsg(alt.Message()) && depth+1 >= g.maxDepth) {
				continue
			}
		}
		if fd.IsList() {
			lst := m.Mutable(fd).List()
			cnt := 2
			if full == corePkg+"Extension" || string(child.FullName()) == corePkg+"Extension" {
				cnt = 2
			}
			for k := 0; k < cnt; k++ {
				e := lst.NewElement()
				g.fill(e.Message(), depth+1)
				lst.Append(e)
			}
			continue
		}
		g.fill(m.Mutable(fd).Message(), depth+1)
	}
}

func (g *gen) fillContained(m protoreflect.Message, depth int) {
	rt := []string{"Patient", "Observation", "Organization", "Questionnaire"}[g.next()%4]
	sub := &gen{variant: g.variant + 2, maxDepth: 1, noContained: true}
	sub.fill(m.Mutable(resourceField(rt)).Message(), 0)
}

var refTypedFields = []string{"patient_id", "practitioner_id", "organization_id", "observation_id", "medication_request_id", "medicinal_product_packaged_id", "list_id"}

func (g *gen) fillReference(m protoreflect.Message, depth int) {
	md := m.Descriptor()
	n := g.next()
	setStr := func(field, v string) {
		fd := md.Fields().ByName(protoreflect.Name(field))
		sm := m.Mutable(fd).Message()
		sm.Set(sm.Descriptor().Fields().ByName("value"), protoreflect.ValueOfString(v))
	}
	switch n % 6 {
	case 0, 1: // typed, with and without history
		fd := md.Fields().ByName(protoreflect.Name(refTypedFields[n%len(refTypedFields)]))
		rid := m.Mutable(fd).Message()
		rid.Set(rid.Descriptor().Fields().ByName("value"), protoreflect.ValueOfString(fmt.Sprintf("r%d", n%9)))
		if n%6 == 1 {
			h := rid.Mutable(rid.Descriptor().Fields().ByName("history")).Message()
			h.Set(h.Descriptor().Fields().ByName("value"), protoreflect.ValueOfString(fmt.Sprint(1+n%4)))
		}
	case 2:
		setStr("uri", "http://example.org/fhir/Patient/abs-1")
	case 3:
		setStr("fragment", "c1")
	case 4:
		setStr("uri", "urn:uuid:00000000-0000-0000-0000-000000000042")
	case 5:
		setStr("uri", "http://example.org/not/a/fhir/thing")
	}
	if n%2 == 0 {
		setStr("display", "disp "+fmt.Sprint(n%3))
	}
	if n%5 == 0 && depth < g.maxDepth {
		g.fill(m.Mutable(md.Fields().ByName("identifier")).Message(), g.maxDepth) // shallow identifier
	}
}

// GenResource builds instance `variant` of the named resource type, populated to the given depth.
func GenResource(name string, variant, maxDepth int) proto.Message {
	res := NewResource(name)
	if res == nil {
		return nil
	}
	g := &gen{variant: variant, maxDepth: maxDepth}
	g.fill(res.ProtoReflect(), 0)
	return res
}

// VariantsFor returns how many instances are needed so that every oneof
// alternative directly reachable in the type (to the depth) is chosen at
// least once: the width of the widest oneof other than Reference/Contained/Extension value.
func VariantsFor(name string, maxDepth int) int {
	res := NewResource(name)
	widest := 1
	seen := map[protoreflect.FullName]bool{}
	var walk func(md protoreflect.MessageDescriptor, depth int)
	walk = func(md protoreflect.MessageDescriptor, depth int) {
		if depth > maxDepth || seen[md.FullName()] {
			return
		}
		seen[md.FullName()] = true
		switch string(md.FullName()) {
		case corePkg + "Reference", corePkg + "ContainedResource", corePkg + "Extension", "google.protobuf.Any":
			return
		}
		for i := 0; i < md.Oneofs().Len(); i++ {
			if n := md.Oneofs().Get(i).Fields().Len(); n > widest {
				widest = n
			}
		}
		for i := 0; i < md.Fields().Len(); i++ {
			if c := md.Fields().Get(i).Message(); c != nil {
				walk(c, depth+1)
			}
		}
	}
	walk(res.ProtoReflect().Descriptor(), 0)
	return widest
}

var (
	famMu    sync.Mutex
	famCache = map[string][]proto.Message{}
)

// Family returns the covering instances of one resource type (cached; callers must not mutate them).
func Family(name string, maxDepth, maxVariants int) []proto.Message {
	key := fmt.Sprintf("%s/%d/%d", name, maxDepth, maxVariants)
	famMu.Lock()
	defer famMu.Unlock()
	if f, ok := famCache[key]; ok {
		return f
	}
	n := VariantsFor(name, maxDepth)
	if n > maxVariants {
		n = maxVariants
	}
	var out []proto.Message
	for v := 0; v < n; v++ {
		out = append(out, GenResource(name, v, maxDepth))
	}
	famCache[key] = out
	return out
}

// DescribeType is used in witnesses.
func DescribeType(m proto.Message) string {
	return strings.TrimPrefix(string(m.ProtoReflect().Descriptor().FullName()), corePkg)
}

// FillElement populates a single element (datatype or primitive) in place.
func FillElement(m protoreflect.Message, variant int) {
	g := &gen{variant: variant, maxDepth: 1, noContained: true}
	g.fill(m, 0)
}
