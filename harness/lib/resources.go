package lib

import (
	cpb "github.com/google/fhir/go/proto/google/fhir/proto/r4/core/codes_go_proto"
	dtpb "github.com/google/fhir/go/proto/google/fhir/proto/r4/core/datatypes_go_proto"
	bcrpb "github.com/google/fhir/go/proto/google/fhir/proto/r4/core/resources/bundle_and_contained_resource_go_proto"
	opb "github.com/google/fhir/go/proto/google/fhir/proto/r4/core/resources/observation_go_proto"
	ppb "github.com/google/fhir/go/proto/google/fhir/proto/r4/core/resources/patient_go_proto"
	qpb "github.com/google/fhir/go/proto/google/fhir/proto/r4/core/resources/questionnaire_go_proto"
	"github.com/verily-src/fhirpath-go/internal/fhir"
	"google.golang.org/protobuf/types/known/anypb"
)

// Patient returns a fresh hand-sized Patient. active/deceased take the given
// values (nil = absent).
func PatientWith(active, deceased *bool) *ppb.Patient {
	p := &ppb.Patient{
		Id: fhir.ID("p1"),
		Meta: &dtpb.Meta{
			VersionId: fhir.ID("3"),
			Tag:       []*dtpb.Coding{fhir.Coding("http://t", "x"), fhir.Coding("http://t", "y")},
		},
		Identifier: []*dtpb.Identifier{fhir.Identifier("http://sys", "id-1"), fhir.Identifier("http://sys2", "id-2")},
		Name: []*dtpb.HumanName{
			{Use: &dtpb.HumanName_UseCode{Value: cpb.NameUseCode_OFFICIAL}, Family: fhir.String("Smith"), Given: fhir.Strings("Ann", "Bea")},
			{Use: &dtpb.HumanName_UseCode{Value: cpb.NameUseCode_NICKNAME}, Family: fhir.String("Jones"), Given: fhir.Strings("Cy")},
			{Use: &dtpb.HumanName_UseCode{Value: cpb.NameUseCode_OFFICIAL}, Family: fhir.String("Smith"), Given: fhir.Strings("Ann", "Bea")},
		},
		Telecom: []*dtpb.ContactPoint{
			{System: &dtpb.ContactPoint_SystemCode{Value: cpb.ContactPointSystemCode_PHONE}, Value: fhir.String("555"), Rank: fhir.PositiveInt(1)},
			{System: &dtpb.ContactPoint_SystemCode{Value: cpb.ContactPointSystemCode_EMAIL}, Value: fhir.String("a@b"), Rank: fhir.PositiveInt(2)},
		},
		Gender:    &ppb.Patient_GenderCode{Value: cpb.AdministrativeGenderCode_FEMALE},
		BirthDate: fhir.MustParseDate("1980-02-29"),
		Address:   []*dtpb.Address{{City: fhir.String("Zürich"), Line: fhir.Strings("1 Main St", "Apt 2")}},
		MultipleBirth: &ppb.Patient_MultipleBirthX{Choice: &ppb.Patient_MultipleBirthX_Integer{Integer: fhir.Integer(2)}},
		ManagingOrganization: &dtpb.Reference{Reference: &dtpb.Reference_OrganizationId{OrganizationId: &dtpb.ReferenceId{Value: "org1"}}, Display: fhir.String("Org")},
		GeneralPractitioner: []*dtpb.Reference{
			{Reference: &dtpb.Reference_PractitionerId{PractitionerId: &dtpb.ReferenceId{Value: "pr1", History: fhir.ID("2")}}},
			{Reference: &dtpb.Reference_Uri{Uri: fhir.String("http://x/Practitioner/pr2")}},
		},
		Extension: []*dtpb.Extension{
			{Url: fhir.URI("http://u"), Value: &dtpb.Extension_ValueX{Choice: &dtpb.Extension_ValueX_StringValue{StringValue: fhir.String("x")}}},
			{Url: fhir.URI("http://v"), Value: &dtpb.Extension_ValueX{Choice: &dtpb.Extension_ValueX_Integer{Integer: fhir.Integer(7)}}},
			{Url: fhir.URI("http://u"), Value: &dtpb.Extension_ValueX{Choice: &dtpb.Extension_ValueX_Boolean{Boolean: fhir.Boolean(true)}}},
		},
	}
	if active != nil {
		p.Active = fhir.Boolean(*active)
	}
	if deceased != nil {
		p.Deceased = &ppb.Patient_DeceasedX{Choice: &ppb.Patient_DeceasedX_Boolean{Boolean: fhir.Boolean(*deceased)}}
	}
	return p
}

func B(b bool) *bool { return &b }

// Patient is the default hand-sized Patient (active=true, deceased=false).
func Patient() *ppb.Patient { return PatientWith(B(true), B(false)) }

// Observation returns a hand-sized Observation with a Quantity value.
func Observation() *opb.Observation {
	return &opb.Observation{
		Id:        fhir.ID("o1"),
		Status:    &opb.Observation_StatusCode{Value: cpb.ObservationStatusCode_FINAL},
		Code:      fhir.CodeableConcept("bp", fhir.Coding("http://loinc.org", "85354-9")),
		Subject:   &dtpb.Reference{Reference: &dtpb.Reference_PatientId{PatientId: &dtpb.ReferenceId{Value: "p1"}}},
		Effective: &opb.Observation_EffectiveX{Choice: &opb.Observation_EffectiveX_DateTime{DateTime: fhir.MustParseDateTime("2020-01-15T10:30:15+05:30")}},
		Issued:    fhir.MustParseInstant("2020-01-15T10:30:15.250Z"),
		Value: &opb.Observation_ValueX{Choice: &opb.Observation_ValueX_Quantity{Quantity: &dtpb.Quantity{
			Value: &dtpb.Decimal{Value: "120.50"}, Unit: fhir.String("mmHg"), System: fhir.URI("http://unitsofmeasure.org"), Code: fhir.Code("mm[Hg]")}}},
		Component: []*opb.Observation_Component{
			{Code: fhir.CodeableConcept("sys"), Value: &opb.Observation_Component_ValueX{Choice: &opb.Observation_Component_ValueX_Integer{Integer: fhir.Integer(120)}}},
			{Code: fhir.CodeableConcept("dia"), Value: &opb.Observation_Component_ValueX{Choice: &opb.Observation_Component_ValueX_StringValue{StringValue: fhir.String("eighty")}}},
		},
		Note: []*dtpb.Annotation{{Text: fhir.Markdown("n1")}, {Text: fhir.Markdown("n2")}},
	}
}

// Questionnaire returns a nested questionnaire (item.item).
func Questionnaire() *qpb.Questionnaire {
	return &qpb.Questionnaire{
		Id:     fhir.ID("q1"),
		Status: &qpb.Questionnaire_StatusCode{Value: cpb.PublicationStatusCode_ACTIVE},
		Item: []*qpb.Questionnaire_Item{
			{LinkId: fhir.String("1"), Type: &qpb.Questionnaire_Item_TypeCode{Value: cpb.QuestionnaireItemTypeCode_GROUP},
				Item: []*qpb.Questionnaire_Item{
					{LinkId: fhir.String("1.1"), Type: &qpb.Questionnaire_Item_TypeCode{Value: cpb.QuestionnaireItemTypeCode_STRING}},
					{LinkId: fhir.String("1.2"), Type: &qpb.Questionnaire_Item_TypeCode{Value: cpb.QuestionnaireItemTypeCode_BOOLEAN}},
				}},
			{LinkId: fhir.String("2"), Type: &qpb.Questionnaire_Item_TypeCode{Value: cpb.QuestionnaireItemTypeCode_INTEGER}},
		},
	}
}

// PatientWithContained returns a Patient carrying a contained Observation.
func PatientWithContained() *ppb.Patient {
	p := Patient()
	cr := &bcrpb.ContainedResource{OneofResource: &bcrpb.ContainedResource_Observation{Observation: Observation()}}
	a, err := anypb.New(cr)
	if err != nil {
		panic(err)
	}
	p.Contained = []*anypb.Any{a}
	return p
}

// Bundle returns a two-entry bundle (Patient, Observation).
func Bundle() *bcrpb.Bundle {
	return &bcrpb.Bundle{
		Id:   fhir.ID("b1"),
		Type: &bcrpb.Bundle_TypeCode{Value: cpb.BundleTypeCode_COLLECTION},
		Entry: []*bcrpb.Bundle_Entry{
			{FullUrl: fhir.URI("urn:uuid:1"), Resource: &bcrpb.ContainedResource{OneofResource: &bcrpb.ContainedResource_Patient{Patient: Patient()}}},
			{FullUrl: fhir.URI("urn:uuid:2"), Resource: &bcrpb.ContainedResource{OneofResource: &bcrpb.ContainedResource_Observation{Observation: Observation()}}},
		},
	}
}
