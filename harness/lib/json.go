package lib

import (
	"bytes"
	"encoding/json"
	"fmt"
	"sync"

	"github.com/google/fhir/go/fhirversion"
	"github.com/google/fhir/go/jsonformat"
	dtpb "github.com/google/fhir/go/proto/google/fhir/proto/r4/core/datatypes_go_proto"
	ppb "github.com/google/fhir/go/proto/google/fhir/proto/r4/core/resources/patient_go_proto"
	"google.golang.org/protobuf/proto"
	"google.golang.org/protobuf/reflect/protoreflect"
)

var (
	marshOnce sync.Once
	marsh     *jsonformat.Marshaller
	unmarsh   *jsonformat.Unmarshaller
)

func initJSON() {
	marshOnce.Do(func() {
		var err error
		marsh, err = jsonformat.NewMarshaller(false, "", "", fhirversion.R4)
		if err != nil {
			panic(err)
		}
		unmarsh, err = jsonformat.NewUnmarshallerWithoutValidation("UTC", fhirversion.R4)
		if err != nil {
			panic(err)
		}
	})
}

// ResourceJSON renders a resource as pure FHIR JSON (google/fhir jsonformat,
// which the repository does not implement) and returns the generic tree.
// The resource is cloned first: MarshalResource normalises references in place.
func ResourceJSON(res proto.Message) (map[string]any, []byte, error) {
	initJSON()
	b, err := marsh.MarshalResource(proto.Clone(res))
	if err != nil {
		return nil, nil, err
	}
	dec := json.NewDecoder(bytes.NewReader(b))
	dec.UseNumber()
	var tree map[string]any
	if err := dec.Decode(&tree); err != nil {
		return nil, b, err
	}
	return tree, b, nil
}

// ElementJSON renders a single element (primitive or complex datatype).
func ElementJSON(el proto.Message) (any, error) {
	initJSON()
	b, err := marsh.MarshalElement(proto.Clone(el))
	if err != nil {
		return nil, err
	}
	dec := json.NewDecoder(bytes.NewReader(b))
	dec.UseNumber()
	var v any
	if err := dec.Decode(&v); err != nil {
		return nil, fmt.Errorf("%w: %s", err, b)
	}
	return v, nil
}

// ParseResourceJSON parses FHIR JSON into a ContainedResource proto.
func ParseResourceJSON(b []byte) (proto.Message, error) {
	initJSON()
	return unmarsh.Unmarshal(b)
}

// PrimitiveJSON renders a FHIR datatype element by carrying it in
// Patient.extension[0].value[x] and returns the JSON value found there.
func PrimitiveJSON(el proto.Message) (any, error) {
	vx := &dtpb.Extension_ValueX{}
	m := vx.ProtoReflect()
	want := el.ProtoReflect().Descriptor().FullName()
	oo := m.Descriptor().Oneofs().ByName("choice")
	set := false
	for i := 0; i < oo.Fields().Len(); i++ {
		fd := oo.Fields().Get(i)
		if fd.Message() != nil && fd.Message().FullName() == want {
			m.Set(fd, protoreflect.ValueOfMessage(proto.Clone(el).ProtoReflect()))
			set = true
			break
		}
	}
	if !set {
		return nil, fmt.Errorf("no extension value alternative for %s", want)
	}
	p := &ppb.Patient{Extension: []*dtpb.Extension{{Url: &dtpb.Uri{Value: "http://carrier"}, Value: vx}}}
	tree, _, err := ResourceJSON(p)
	if err != nil {
		return nil, err
	}
	exts, _ := tree["extension"].([]any)
	if len(exts) != 1 {
		return nil, fmt.Errorf("carrier lost its extension")
	}
	for k, v := range exts[0].(map[string]any) {
		if len(k) > 5 && k[:5] == "value" {
			return v, nil
		}
	}
	return nil, fmt.Errorf("no value[x] in carrier JSON")
}
