// Package lib holds what the checks share: the evaluation sandbox, value
// pools, resource generators, printers and reference models.
package lib

import (
	"crypto/sha1"
	"encoding/hex"
	"fmt"
	"sort"
	"strings"
	"time"

	"github.com/verily-src/fhirpath-go/fhirpath"
	"github.com/verily-src/fhirpath-go/fhirpath/evalopts"
	"github.com/verily-src/fhirpath-go/fhirpath/system"
	"github.com/verily-src/fhirpath-go/fhirpath/verifh/core"
	"github.com/verily-src/fhirpath-go/internal/fhir"
	"google.golang.org/protobuf/proto"
	"google.golang.org/protobuf/reflect/protoreflect"
)

// PinnedNow is the instant every evaluation is pinned to (the wall clock is
// never an input of a check, except in C04's clock sub-check).
var PinnedNow = time.Date(2021, 3, 4, 5, 6, 7, 89000000, time.FixedZone("", 3600))

// Res is the outcome of compiling and evaluating one program.
type Res struct {
	Src        string
	CompileErr error
	Err        error
	Panic      *core.PanicInfo
	Phase      string // where the panic happened: compile / evaluate
	Coll       system.Collection
	Expr       *fhirpath.Expression
}

func (r Res) OK() bool { return r.CompileErr == nil && r.Err == nil && r.Panic == nil }

// Class summarises the outcome kind.
func (r Res) Class() string {
	switch {
	case r.Panic != nil:
		return "panic"
	case r.CompileErr != nil:
		return "compile-error"
	case r.Err != nil:
		return "error"
	case len(r.Coll) == 0:
		return "empty"
	case len(r.Coll) == 1:
		return "value"
	default:
		return "multi"
	}
}

func (r Res) String() string {
	switch {
	case r.Panic != nil:
		return "PANIC(" + r.Phase + "): " + r.Panic.Raw + " @" + r.Panic.Locus
	case r.CompileErr != nil:
		return "COMPILE-ERROR: " + core.Short(r.CompileErr.Error(), 200)
	case r.Err != nil:
		return "ERROR: " + core.Short(r.Err.Error(), 200)
	}
	return ShowColl(r.Coll)
}

// Compile compiles src, capturing panics.
func Compile(src string, copts ...fhirpath.CompileOption) (res Res) {
	res.Src = src
	res.Phase = "compile"
	res.Panic = core.Try(func() {
		res.Expr, res.CompileErr = fhirpath.Compile(src, copts...)
	})
	return
}

// EvalOpts evaluates a compiled expression with explicit options.
func EvalOpts(res Res, in []fhir.Resource, opts ...fhirpath.EvaluateOption) Res {
	if res.Panic != nil || res.CompileErr != nil {
		return res
	}
	res.Phase = "evaluate"
	res.Panic = core.Try(func() {
		res.Coll, res.Err = res.Expr.Evaluate(in, opts...)
	})
	return res
}

// EnvOpts turns an env map into evaluate options in sorted-name order, with the clock pinned.
func EnvOpts(env map[string]any) []fhirpath.EvaluateOption {
	opts := []fhirpath.EvaluateOption{evalopts.OverrideTime(PinnedNow)}
	names := make([]string, 0, len(env))
	for k := range env {
		names = append(names, k)
	}
	sort.Strings(names)
	for _, k := range names {
		opts = append(opts, evalopts.EnvVariable(k, env[k]))
	}
	return opts
}

// Run compiles and evaluates src on in with env variables.
func Run(src string, in []fhir.Resource, env map[string]any, copts ...fhirpath.CompileOption) Res {
	return EvalOpts(Compile(src, copts...), in, EnvOpts(env)...)
}

// ---------------------------------------------------------------- printing

// Show renders one collection item deterministically.
func Show(v any) string {
	switch x := v.(type) {
	case nil:
		return "<nil>"
	case system.Boolean:
		return fmt.Sprintf("Boolean:%v", bool(x))
	case system.Integer:
		return fmt.Sprintf("Integer:%d", int32(x))
	case system.Decimal:
		return "Decimal:" + x.String()
	case system.String:
		return fmt.Sprintf("String:%q", string(x))
	case system.Date:
		return "Date:" + x.String()
	case system.DateTime:
		return "DateTime:" + x.String()
	case system.Time:
		return "Time:" + x.String()
	case system.Quantity:
		return "Quantity:" + x.String()
	case system.Collection:
		return "Collection" + ShowColl(x)
	case proto.Message:
		return ShowMsg(x)
	}
	return fmt.Sprintf("%T:%v", v, v)
}

// ShowMsg renders a proto message as TypeName(value) for primitives, else TypeName#hash.
func ShowMsg(m proto.Message) string {
	if m == nil || !m.ProtoReflect().IsValid() {
		return fmt.Sprintf("%T(nil)", m)
	}
	d := m.ProtoReflect().Descriptor()
	name := string(d.Name())
	if p := d.Parent(); p != nil {
		if pm, ok := p.(protoreflect.MessageDescriptor); ok {
			name = string(pm.Name()) + "." + name
		}
	}
	return name + "#" + MsgHash(m)
}

func MsgHash(m proto.Message) string {
	b, err := proto.MarshalOptions{Deterministic: true}.Marshal(m)
	if err != nil {
		return "marshal-error"
	}
	h := sha1.Sum(b)
	return hex.EncodeToString(h[:5])
}

func ShowColl(c system.Collection) string {
	parts := make([]string, len(c))
	for i, v := range c {
		parts[i] = Show(v)
	}
	return "[" + strings.Join(parts, ", ") + "]"
}
