package lib

import (
	"fmt"
	"reflect"
	"runtime"
	"sort"
	"strings"
	"unsafe"

	"github.com/verily-src/fhirpath-go/fhirpath/system"
)

// FuncName returns the implementation name behind a func value (e.g.
// "fhirpath/internal/funcs/impl.ToInteger").
func FuncName(f any) string {
	v := reflect.ValueOf(f)
	if v.Kind() != reflect.Func || v.IsNil() {
		return "<nil func>"
	}
	fn := runtime.FuncForPC(v.Pointer())
	if fn == nil {
		return "<unknown>"
	}
	return strings.TrimPrefix(fn.Name(), "github.com/verily-src/fhirpath-go/")
}

func accessible(v reflect.Value) reflect.Value {
	if v.CanInterface() {
		return v
	}
	if v.CanAddr() {
		return reflect.NewAt(v.Type(), unsafe.Pointer(v.UnsafeAddr())).Elem()
	}
	return v
}

// DumpAST renders the private expression tree of a compiled expression
// (fhirpath.Expression or patch.Expression) deterministically, including the
// implementation function names bound to function and operator nodes.
func DumpAST(e any) string {
	v := reflect.ValueOf(e)
	if v.Kind() == reflect.Ptr {
		if v.IsNil() {
			return "<nil>"
		}
		v = v.Elem()
	}
	f := v.FieldByName("expression")
	if !f.IsValid() {
		return "<no expression field>"
	}
	var sb strings.Builder
	dumpValue(&sb, accessible(f), 0)
	return sb.String()
}

// CountNodes counts expression nodes (struct values reached) in a dump.
func dumpValue(sb *strings.Builder, v reflect.Value, depth int) {
	if depth > 200 {
		sb.WriteString("<deep>")
		return
	}
	if !v.IsValid() {
		sb.WriteString("<invalid>")
		return
	}
	if v.CanInterface() {
		if a, ok := v.Interface().(system.Any); ok && v.Kind() != reflect.Interface {
			sb.WriteString(Show(a))
			return
		}
	}
	switch v.Kind() {
	case reflect.Interface, reflect.Ptr:
		if v.IsNil() {
			sb.WriteString("nil")
			return
		}
		dumpValue(sb, accessible(v.Elem()), depth+1)
	case reflect.Struct:
		t := v.Type()
		sb.WriteString(t.Name())
		sb.WriteString("{")
		for i := 0; i < v.NumField(); i++ {
			if i > 0 {
				sb.WriteString(",")
			}
			sb.WriteString(t.Field(i).Name)
			sb.WriteString(":")
			fv := v.Field(i)
			if !fv.CanInterface() && !fv.CanAddr() {
				// copy into addressable storage
				cp := reflect.New(t).Elem()
				cp.Set(v)
				fv = cp.Field(i)
			}
			dumpValue(sb, accessible(fv), depth+1)
		}
		sb.WriteString("}")
	case reflect.Slice, reflect.Array:
		sb.WriteString("[")
		for i := 0; i < v.Len(); i++ {
			if i > 0 {
				sb.WriteString(",")
			}
			dumpValue(sb, accessible(v.Index(i)), depth+1)
		}
		sb.WriteString("]")
	case reflect.Func:
		if v.IsNil() {
			sb.WriteString("func:nil")
			return
		}
		fn := runtime.FuncForPC(v.Pointer())
		name := "?"
		if fn != nil {
			name = strings.TrimPrefix(fn.Name(), "github.com/verily-src/fhirpath-go/")
		}
		sb.WriteString("func:" + name)
	case reflect.Map:
		keys := v.MapKeys()
		strs := make([]string, len(keys))
		for i, k := range keys {
			strs[i] = fmt.Sprint(k)
		}
		sort.Strings(strs)
		sb.WriteString("map" + fmt.Sprint(strs))
	case reflect.String:
		fmt.Fprintf(sb, "%q", v.String())
	case reflect.Bool:
		fmt.Fprint(sb, v.Bool())
	case reflect.Int, reflect.Int8, reflect.Int16, reflect.Int32, reflect.Int64:
		fmt.Fprint(sb, v.Int())
	case reflect.Uint, reflect.Uint8, reflect.Uint16, reflect.Uint32, reflect.Uint64:
		fmt.Fprint(sb, v.Uint())
	default:
		fmt.Fprintf(sb, "<%s>", v.Kind())
	}
}
