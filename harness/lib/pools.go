package lib

import (
	"fmt"
	"math"
	"math/big"
	"strings"

	cpb "github.com/google/fhir/go/proto/google/fhir/proto/r4/core/codes_go_proto"
	dtpb "github.com/google/fhir/go/proto/google/fhir/proto/r4/core/datatypes_go_proto"
	ppb "github.com/google/fhir/go/proto/google/fhir/proto/r4/core/resources/patient_go_proto"
	"github.com/verily-src/fhirpath-go/fhirpath/system"
	"github.com/verily-src/fhirpath-go/internal/fhir"
)

// Val is one pool value: usable as a literal (Lit != "") and/or as an
// environment variable (V).
type Val struct {
	ID    string // stable short name, used in finding keys' witnesses
	Lit   string // FHIRPath literal text, "" when the value has no literal form
	V     any    // system.Any, FHIR element, or system.Collection
	Kind  string // System type name or "fhir.<kind>"
	Class string // coarse feature class used in finding keys
	// reference-model view of the value (independent of the repository)
	RKind string   // num | str | bool | temporal | qty | complex
	RNum  *big.Rat // num, qty
	RStr  string   // str; qty: unit
	RBool bool
	RT    RefT
}

// Src returns the source text denoting the value: its literal when it has
// one and lit is requested, otherwise %name, registering it in env.
func (v Val) Src(name string, env map[string]any, lit bool) string {
	if lit && v.Lit != "" {
		return v.Lit
	}
	env[name] = v.V
	return "%" + name
}

func mustDate(s string) system.Date         { return system.MustParseDate(s) }
func mustDateTime(s string) system.DateTime { return system.MustParseDateTime(s) }
func mustTime(s string) system.Time         { return system.MustParseTime(s) }
func mustDec(s string) system.Decimal       { return Dec(s) }
func mustQty(n, u string) system.Quantity   { return Qty(n, u) }

func intVal(i int64) Val {
	cls := "int"
	switch {
	case i == 0:
		cls = "int.zero"
	case i == math.MinInt32:
		cls = "int.min"
	case i == math.MaxInt32:
		cls = "int.max"
	case i < 0:
		cls = "int.neg"
	}
	lit := ""
	if i >= 0 {
		lit = fmt.Sprint(i)
	}
	return Val{ID: fmt.Sprintf("i%d", i), Lit: lit, V: system.Integer(int32(i)), Kind: "Integer", Class: cls}
}

func decVal(s string) Val {
	lit := s
	if strings.HasPrefix(s, "-") || !strings.Contains(s, ".") {
		lit = ""
	}
	cls := "dec"
	d := mustDec(s)
	if d.String() == "0" {
		cls = "dec.zero"
	} else if strings.HasPrefix(s, "-") {
		cls = "dec.neg"
	}
	if len(s) > 18 {
		cls += ".long"
	}
	return Val{ID: "d" + s, Lit: lit, V: d, Kind: "Decimal", Class: cls}
}

func strVal(s string) Val {
	lit := ""
	if !strings.ContainsAny(s, "'\\") {
		lit = "'" + s + "'"
	}
	cls := "str"
	if s == "" {
		cls = "str.empty"
	} else if len(s) != len([]rune(s)) {
		cls = "str.nonascii"
	}
	return Val{ID: fmt.Sprintf("s%q", s), Lit: lit, V: system.String(s), Kind: "String", Class: cls}
}

// IntBoundary is the property's Integer boundary set.
var IntBoundary = []int64{0, 1, -1, 2, -2, 46340, -46340, 46341, -46341, 65536, -65536,
	math.MaxInt32 - 1, math.MaxInt32, math.MinInt32 + 1, math.MinInt32}

// DecStrings is the shared decimal pool (text form).
var DecStrings = []string{"0.0", "0.00", "1.0", "1.00", "0.5", "-0.5", "1.5", "-1.5", "2.5", "-2.5", "0.1", "0.25",
	"3.14159", "-3.14159", "0.000000000000000000000000000001", "1234567890123456789012345678901234567890.5",
	"99999999999.9", "2147483647.5", "-2147483648.5", "2147483648.0", "0.999", "10.0", "100.0", "-100.0"}

var StringPool = []string{"", "a", "abc", "b", "A", "é", "€", "😀", "é", "1", "1.0", " 1", "+1", "-1", "1e3", "true", "T", "yes", "false",
	"2020", "2020-01", "2020-01-15", "2020-13-01", "2020-01-15T10:00:00Z", "T10:00", "10:00", "24:00", "5 'mg'", "5", "5 days", "5days", "1 'wk'", "abc def",
	// characters that mean something inside a literal but are plain characters in a value: a backslash, an apostrophe at
	// either end, a backslash followed by n, a written-out escape
	"a\\b", "Jones'", "'t Hart'", "a\\nb", "a\nb", "\\u0041"}

type temporal struct{ lit, kind, class string }

var DatePool = []string{"2020", "2021", "2020-01", "2020-02", "2020-01-15", "2020-01-31", "2020-02-29", "2019-12-31"}
var DateTimePool = []string{"2020T", "2020-01T", "2020-01-15T", "2020-01-15T10", "2020-01-15T10:30", "2020-01-15T10:30:15", "2020-01-15T10:30:15.250",
	"2020-01-15T10Z", "2020-01-15T10:30+05:30", "2020-01-15T10:30:15Z", "2020-01-15T10:30:15+05:30", "2020-01-15T10:30:15-11:00", "2020-01-15T10:30:15.250Z",
	"2020-01-15T10:30:15.250+05:30", "2020-01-15T05:00:15Z", "2020-01-14T21:30:15-11:00", "2020-01-15T23:59:59.999Z", "2021-01-15T10:30:15Z"}
var TimePool = []string{"T10", "T10:30", "T10:30:15", "T10:30:15.250", "T10:30:15.000", "T00:00:00", "T23:59:59.999", "T11"}

type qty struct{ n, unit, lit string }

var QtyPool = []qty{
	{"1", "mg", "1 'mg'"}, {"1.0", "mg", "1.0 'mg'"}, {"2", "mg", "2 'mg'"}, {"1", "kg", "1 'kg'"}, {"1000", "g", "1000 'g'"},
	{"1", "year", "1 year"}, {"1", "years", "1 years"}, {"12", "months", "12 months"}, {"1", "a", "1 'a'"}, {"7", "days", "7 days"}, {"1", "week", "1 week"},
	{"1", "1", "1 '1'"}, {"-1", "mg", ""}, {"0", "mg", "0 'mg'"}, {"1.5", "hours", "1.5 hours"},
}

// OrderingExtras: values for the equality/ordering check only - strings whose code-point order differs from
// their UTF-16 code-unit order, and quantities whose units differ only in case or by a trailing s.
func OrderingExtras() []Val {
	var p []Val
	for _, s := range []string{"z", "\uE000", "\uFF21", "\U0001F600", "\U00010000", "a\uFF21", "a\U0001F600"} {
		p = append(p, strVal(s))
	}
	for _, q := range []qty{{"1", "Mg", "1 'Mg'"}, {"1", "ms", "1 'ms'"}, {"1", "m", "1 'm'"}, {"1", "Ms", "1 'Ms'"}, {"2", "m", "2 'm'"}, {"1", "mm", "1 'mm'"}, {"1", "mms", "1 'mms'"}} {
		p = append(p, Val{ID: "q" + q.n + q.unit, Lit: q.lit, V: mustQty(q.n, q.unit), Kind: "Quantity", Class: "qty." + q.unit, RKind: "qty", RNum: ratOf(q.n), RStr: q.unit})
	}
	// decimals of 16 and 17 significant digits that differ in the last one (a double does not tell them apart)
	for _, d := range []string{"1.0000000000000001", "1.0000000000000000", "9007199254740993.0", "9007199254740992.0", "0.30000000000000001", "0.30000000000000000", "0.1000000000000000055", "12345678901234567.8", "12345678901234567.9"} {
		p = append(p, decVal(d))
	}
	// millisecond literals and the microsecond elements that denote the same millisecond (a System value keeps milliseconds)
	for _, s := range []string{"2020-01-15T10:30:15.123Z", "2020-01-15T12:30:15.123+02:00", "2020-01-15T10:30:15.124Z"} {
		p = append(p, Val{ID: "@" + s, Lit: "@" + s, V: mustDateTime(s), Kind: "DateTime", Class: "datetime.p6.ms3"})
	}
	p = append(p, Val{ID: "@T10:30:15.123", Lit: "@T10:30:15.123", V: mustTime("10:30:15.123"), Kind: "Time", Class: "time.p3.ms3"})
	for _, t := range []string{"10:00:00.999", "10:00:01", "23:59:59.999", "00:00:00.000"} {
		p = append(p, Val{ID: "@T" + t, Lit: "@T" + t, V: mustTime(t), Kind: "Time", Class: "time.carry"})
	}
	for i := range p {
		attachRef(&p[i])
	}
	for _, e := range []struct {
		id, kind, class, rkind, text string
		v                            any
	}{
		{"f.instant.us", "instant", "fhir.instant.us", "DateTime", "2020-01-15T10:30:15.123Z", ProtoInstant("2020-01-15T10:30:15.123456Z")},
		{"f.instant.us.off", "instant", "fhir.instant.us", "DateTime", "2020-01-15T12:30:15.123+02:00", ProtoInstant("2020-01-15T12:30:15.123999+02:00")},
		{"f.dt.us", "dateTime", "fhir.datetime.us", "DateTime", "2020-01-15T10:30:15.123Z", ProtoDateTime("2020-01-15T10:30:15.123456Z")},
		{"f.time.us", "time", "fhir.time.us", "Time", "T10:30:15.123", ProtoTime("10:30:15.123456")},
		// microseconds that would carry into the next second / the next day when rounded: a System value cuts them
		{"f.time.us.carry", "time", "fhir.time.us", "Time", "T10:00:00.999", ProtoTime("10:00:00.999500")},
		{"f.time.us.midnight", "time", "fhir.time.us", "Time", "T23:59:59.999", ProtoTime("23:59:59.999999")},
		{"f.dt.us.carry", "dateTime", "fhir.datetime.us", "DateTime", "2020-01-15T10:30:15.999Z", ProtoDateTime("2020-01-15T10:30:15.999500Z")},
		{"f.instant.us.carry", "instant", "fhir.instant.us", "DateTime", "2020-12-31T23:59:59.999Z", ProtoInstant("2020-12-31T23:59:59.999999Z")},
	} {
		t, ok := ParseRefT(e.rkind, e.text)
		if !ok {
			panic("ordering extras " + e.text)
		}
		p = append(p, Val{ID: e.id, V: e.v, Kind: "fhir." + e.kind, Class: e.class, RKind: "temporal", RT: t})
	}
	return p
}

var sysPool []Val

// SystemPool returns the System value pool V (every System type, boundary
// values, every precision/offset form).
func SystemPool() []Val {
	if sysPool != nil {
		return sysPool
	}
	var p []Val
	p = append(p, Val{ID: "true", Lit: "true", V: system.Boolean(true), Kind: "Boolean", Class: "bool"},
		Val{ID: "false", Lit: "false", V: system.Boolean(false), Kind: "Boolean", Class: "bool"})
	for _, i := range IntBoundary {
		p = append(p, intVal(i))
	}
	p = append(p, intVal(3), intVal(10), intVal(100))
	for _, s := range DecStrings {
		p = append(p, decVal(s))
	}
	for _, s := range StringPool {
		p = append(p, strVal(s))
	}
	for _, s := range DatePool {
		p = append(p, Val{ID: "@" + s, Lit: "@" + s, V: mustDate(s), Kind: "Date", Class: fmt.Sprintf("date.p%d", strings.Count(s, "-"))})
	}
	for _, s := range DateTimePool {
		cls := "datetime.p" + fmt.Sprint(dtPrec(s))
		if strings.HasSuffix(s, "Z") {
			cls += ".Z"
		} else if i := strings.IndexAny(s[strings.Index(s, "T"):], "+-"); i >= 0 {
			cls += ".off"
		}
		p = append(p, Val{ID: "@" + s, Lit: "@" + s, V: mustDateTime(s), Kind: "DateTime", Class: cls})
	}
	for _, s := range TimePool {
		p = append(p, Val{ID: "@" + s, Lit: "@" + s, V: mustTime(s[1:]), Kind: "Time", Class: fmt.Sprintf("time.p%d", strings.Count(s, ":")+strings.Count(s, "."))})
	}
	for _, q := range QtyPool {
		p = append(p, Val{ID: "q" + q.n + q.unit, Lit: q.lit, V: mustQty(q.n, q.unit), Kind: "Quantity", Class: "qty." + q.unit, RKind: "qty", RNum: ratOf(q.n), RStr: q.unit})
	}
	for i := range p {
		attachRef(&p[i])
	}
	sysPool = p
	return p
}

func RatOf(s string) *big.Rat { return ratOf(s) }

func ratOf(s string) *big.Rat {
	r, ok := new(big.Rat).SetString(s)
	if !ok {
		panic("ratOf " + s)
	}
	return r
}

// attachRef fills the reference view of a System pool value from its ID/literal text.
func attachRef(v *Val) {
	switch v.Kind {
	case "Boolean":
		v.RKind, v.RBool = "bool", v.ID == "true"
	case "Integer":
		v.RKind, v.RNum = "num", ratOf(strings.TrimPrefix(v.ID, "i"))
	case "Decimal":
		v.RKind, v.RNum = "num", ratOf(strings.TrimPrefix(v.ID, "d"))
	case "String":
		v.RKind, v.RStr = "str", string(v.V.(system.String))
	case "Date", "DateTime", "Time":
		t, ok := ParseRefT(v.Kind, strings.TrimPrefix(v.ID, "@"))
		if !ok {
			panic("attachRef " + v.ID)
		}
		v.RKind, v.RT = "temporal", t
	}
}

func dtPrec(s string) int {
	t := strings.Index(s, "T")
	rest := s[t+1:]
	if i := strings.IndexAny(rest, "Z+"); i >= 0 {
		rest = rest[:i]
	} else if i := strings.LastIndex(rest, "-"); i >= 0 {
		rest = rest[:i]
	}
	if rest == "" {
		return strings.Count(s[:t], "-") // 0 year,1 month,2 day
	}
	return 3 + strings.Count(rest, ":") + strings.Count(rest, ".")
}

// ----------------------------------------------------------- FHIR elements


var elemPool []Val

// NameA / NameA2 are equal copies; NameB differs.
func NameA() *dtpb.HumanName {
	return &dtpb.HumanName{Family: fhir.String("Smith"), Given: fhir.Strings("Ann", "Bea")}
}
func NameB() *dtpb.HumanName {
	return &dtpb.HumanName{Family: fhir.String("Jones"), Given: fhir.Strings("Cy")}
}

// ElementPool returns the FHIR element pool E: one element of every FHIR
// primitive kind plus complex elements.
func ElementPool() []Val {
	if elemPool != nil {
		return elemPool
	}
	num := func(id, kind, class, text string, v any) Val {
		return Val{ID: id, V: v, Kind: "fhir." + kind, Class: class, RKind: "num", RNum: ratOf(text)}
	}
	str := func(id, kind, class, text string, v any) Val {
		return Val{ID: id, V: v, Kind: "fhir." + kind, Class: class, RKind: "str", RStr: text}
	}
	tmp := func(id, kind, class, rkind, text string, v any) Val {
		t, ok := ParseRefT(rkind, text)
		if !ok {
			panic("element pool " + text)
		}
		return Val{ID: id, V: v, Kind: "fhir." + kind, Class: class, RKind: "temporal", RT: t}
	}
	cx := func(id, kind string, v any) Val { return Val{ID: id, V: v, Kind: "fhir." + kind, Class: "fhir.complex", RKind: "complex"} }
	p := []Val{
		{ID: "f.bool.t", V: fhir.Boolean(true), Kind: "fhir.boolean", Class: "fhir.bool", RKind: "bool", RBool: true},
		{ID: "f.bool.f", V: fhir.Boolean(false), Kind: "fhir.boolean", Class: "fhir.bool", RKind: "bool", RBool: false},
		num("f.int.1", "integer", "fhir.int", "1", fhir.Integer(1)),
		num("f.int.min", "integer", "fhir.int.min", "-2147483648", fhir.Integer(math.MinInt32)),
		num("f.int.max", "integer", "fhir.int.max", "2147483647", fhir.Integer(math.MaxInt32)),
		num("f.uint.0", "unsignedInt", "fhir.uint", "0", fhir.UnsignedInt(0)),
		num("f.uint.max", "unsignedInt", "fhir.uint.max", "2147483647", fhir.UnsignedInt(math.MaxInt32)),
		num("f.pint.1", "positiveInt", "fhir.pint", "1", fhir.PositiveInt(1)),
		num("f.dec.1.0", "decimal", "fhir.dec", "1.0", &dtpb.Decimal{Value: "1.0"}),
		num("f.dec.1.50", "decimal", "fhir.dec", "1.50", &dtpb.Decimal{Value: "1.50"}),
		num("f.dec.long", "decimal", "fhir.dec.long", "1234567890123456789012345678901234567890.5", &dtpb.Decimal{Value: "1234567890123456789012345678901234567890.5"}),
		str("f.str.a", "string", "fhir.str", "a", fhir.String("a")),
		str("f.str.abc", "string", "fhir.str", "abc", fhir.String("abc")),
		str("f.str.1", "string", "fhir.str", "1", fhir.String("1")),
		str("f.str.e", "string", "fhir.str.nonascii", "é😀", fhir.String("é😀")),
		str("f.str.backslash", "string", "fhir.str.escapes", "a\\b", fhir.String("a\\b")),
		str("f.str.apostrophe", "string", "fhir.str.escapes", "Jones'", fhir.String("Jones'")),
		str("f.str.apostrophes", "string", "fhir.str.escapes", "'t Hart'", fhir.String("'t Hart'")),
		str("f.str.backslash-n", "string", "fhir.str.escapes", "a\\nb", fhir.String("a\\nb")),
		str("f.code.backslash", "code", "fhir.code.escapes", "a\\b", fhir.Code("a\\b")),
		num("f.dec.1.5e3", "decimal", "fhir.dec.exp", "1.5e3", &dtpb.Decimal{Value: "1.5e3"}),
		num("f.dec.1E+2", "decimal", "fhir.dec.exp", "1E+2", &dtpb.Decimal{Value: "1E+2"}),
		num("f.dec.1e-05", "decimal", "fhir.dec.exp", "1e-05", &dtpb.Decimal{Value: "1e-05"}),
		str("f.code.a", "code", "fhir.code", "a", fhir.Code("a")),
		str("f.code.enum", "code", "fhir.code.enum", "female", &ppb.Patient_GenderCode{Value: cpb.AdministrativeGenderCode_FEMALE}),
		str("f.id", "id", "fhir.id", "a", fhir.ID("a")),
		str("f.markdown", "markdown", "fhir.markdown", "abc", fhir.Markdown("abc")),
		str("f.uri", "uri", "fhir.uri", "http://a", fhir.URI("http://a")),
		str("f.url", "url", "fhir.url", "http://a", fhir.URL("http://a")),
		str("f.canonical", "canonical", "fhir.canonical", "http://a|1", &dtpb.Canonical{Value: "http://a|1"}),
		str("f.oid", "oid", "fhir.oid", "urn:oid:1.2.3", &dtpb.Oid{Value: "urn:oid:1.2.3"}),
		str("f.uuid", "uuid", "fhir.uuid", "urn:uuid:00000000-0000-0000-0000-000000000001", &dtpb.Uuid{Value: "urn:uuid:00000000-0000-0000-0000-000000000001"}),
		str("f.base64", "base64Binary", "fhir.base64", "YWI=", fhir.Base64Binary([]byte("ab"))),
		tmp("f.date.y", "date", "fhir.date.p0", "Date", "2020", ProtoDate("2020")),
		tmp("f.date.m", "date", "fhir.date.p1", "Date", "2020-01", ProtoDate("2020-01")),
		tmp("f.date.d", "date", "fhir.date.p2", "Date", "2020-01-15", ProtoDate("2020-01-15")),
		tmp("f.dt.y", "dateTime", "fhir.datetime.p0", "DateTime", "2020T", ProtoDateTime("2020")),
		tmp("f.dt.d", "dateTime", "fhir.datetime.p2", "DateTime", "2020-01-15T", ProtoDateTime("2020-01-15")),
		tmp("f.dt.s.Z", "dateTime", "fhir.datetime.p5", "DateTime", "2020-01-15T10:30:15Z", ProtoDateTime("2020-01-15T10:30:15Z")),
		tmp("f.dt.s.off", "dateTime", "fhir.datetime.p5.off", "DateTime", "2020-01-15T10:30:15+05:30", ProtoDateTime("2020-01-15T10:30:15+05:30")),
		tmp("f.dt.ms", "dateTime", "fhir.datetime.p6", "DateTime", "2020-01-15T10:30:15.250Z", ProtoDateTime("2020-01-15T10:30:15.250Z")),
		tmp("f.instant", "instant", "fhir.instant", "DateTime", "2020-01-15T10:30:15.250+05:30", ProtoInstant("2020-01-15T10:30:15.250+05:30")),
		tmp("f.time.s", "time", "fhir.time.p2", "Time", "T10:30:15", ProtoTime("10:30:15")),
		tmp("f.time.ms", "time", "fhir.time.p3", "Time", "T10:30:15.250", ProtoTime("10:30:15.250")),
		{ID: "f.qty.mg", Kind: "fhir.Quantity", Class: "fhir.qty", RKind: "qty", RNum: ratOf("1"), RStr: "mg", V: &dtpb.Quantity{Value: &dtpb.Decimal{Value: "1"}, Code: fhir.Code("mg"), System: fhir.URI("http://unitsofmeasure.org"), Unit: fhir.String("mg")}},
		{ID: "f.qty.kg", Kind: "fhir.Quantity", Class: "fhir.qty", RKind: "qty", RNum: ratOf("1"), RStr: "kg", V: &dtpb.Quantity{Value: &dtpb.Decimal{Value: "1"}, Code: fhir.Code("kg"), Unit: fhir.String("kg")}},
		cx("f.nameA", "HumanName", NameA()),
		cx("f.nameA2", "HumanName", NameA()),
		cx("f.nameB", "HumanName", NameB()),
		cx("f.coding", "Coding", fhir.Coding("http://s", "c")),
		cx("f.period", "Period", &dtpb.Period{Start: ProtoDateTime("2020-01-15")}),
		cx("f.ref", "Reference", &dtpb.Reference{Reference: &dtpb.Reference_PatientId{PatientId: &dtpb.ReferenceId{Value: "p1"}}}),
		cx("f.ext", "Extension", &dtpb.Extension{Url: fhir.URI("http://u"), Value: &dtpb.Extension_ValueX{Choice: &dtpb.Extension_ValueX_StringValue{StringValue: fhir.String("x")}}}),
	}
	elemPool = p
	return p
}

// IsComplex reports whether a pool value is a non-primitive FHIR element.
func (v Val) IsComplex() bool { return v.Class == "fhir.complex" }
