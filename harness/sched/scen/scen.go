// Package scen holds the thread bodies of the C04 scenarios. It depends only
// on the library's public packages, so the same bodies run under the
// controlled scheduler (instrumented tree) and free-running under -race.
package scen

import (
	"fmt"
	opb "github.com/google/fhir/go/proto/google/fhir/proto/r4/core/resources/observation_go_proto"
	"time"

	"github.com/verily-src/fhirpath-go/fhirpath"
	"github.com/verily-src/fhirpath-go/fhirpath/compopts"
	"github.com/verily-src/fhirpath-go/fhirpath/evalopts"
	"github.com/verily-src/fhirpath-go/fhirpath/patch"
	"github.com/verily-src/fhirpath-go/fhirpath/system"
	"github.com/verily-src/fhirpath-go/fhirpath/verifh/lib"
	"github.com/verily-src/fhirpath-go/internal/fhir"
	"google.golang.org/protobuf/proto"
)

// Instance is one set-up scenario: shared objects are created by Setup (outside
// the exploration), Threads are the concurrent bodies, each returning its
// observation; Intact reports whether the shared inputs are unchanged.
type Instance struct {
	Threads []func() string
	Intact  func() string // "" = unchanged
}

type Scenario struct {
	Name  string
	Setup func() *Instance
}

func show(c system.Collection, err error) string {
	if err != nil {
		return "ERROR: " + err.Error()
	}
	return lib.ShowColl(c)
}

func finger(m proto.Message) string {
	b, _ := proto.MarshalOptions{Deterministic: true}.Marshal(m)
	return string(b)
}

// sharedEval: n threads evaluate one shared compiled expression on one shared resource
func sharedEval(name, src string, n int, opts func(t int) []fhirpath.EvaluateOption, copts ...fhirpath.CompileOption) Scenario {
	return sharedEvalOn(name, src, n, func() fhir.Resource { return lib.Patient() }, opts, copts...)
}

// microObservation: an Observation whose effectiveDateTime and issued carry microseconds (finer than a System value keeps)
func microObservation() fhir.Resource {
	o := lib.Observation()
	o.Effective = &opb.Observation_EffectiveX{Choice: &opb.Observation_EffectiveX_DateTime{DateTime: lib.ProtoDateTime("2020-03-04T10:20:30.123456Z")}}
	o.Issued = lib.ProtoInstant("2020-03-04T10:20:30.654321+02:00")
	return o
}

func sharedEvalOn(name, src string, n int, mk func() fhir.Resource, opts func(t int) []fhirpath.EvaluateOption, copts ...fhirpath.CompileOption) Scenario {
	return Scenario{Name: name, Setup: func() *Instance {
		e, err := fhirpath.Compile(src, copts...)
		if err != nil {
			panic("scenario " + name + ": " + err.Error())
		}
		res := mk()
		in := []fhir.Resource{res}
		before := finger(res)
		inst := &Instance{Intact: func() string {
			if finger(res) != before {
				return "shared input resource changed"
			}
			return ""
		}}
		for t := 0; t < n; t++ {
			t := t
			inst.Threads = append(inst.Threads, func() string { return show(e.Evaluate(in, opts(t)...)) })
		}
		return inst
	}}
}

// mixedEval: every thread evaluates an expression of its own on the shared resource - what one evaluation does to
// anything process-wide (a table, a memo, a setting of a library underneath) must not show in another
func mixedEval(name string, srcs ...string) Scenario {
	return Scenario{Name: name, Setup: func() *Instance {
		res := lib.Patient()
		in := []fhir.Resource{res}
		before := finger(res)
		inst := &Instance{Intact: func() string {
			if finger(res) != before {
				return "shared input resource changed"
			}
			return ""
		}}
		for t, src := range srcs {
			e, err := fhirpath.Compile(src)
			if err != nil {
				panic("scenario " + name + ": " + err.Error())
			}
			t := t
			inst.Threads = append(inst.Threads, func() string { return show(e.Evaluate(in, pinned(t)...)) })
		}
		return inst
	}}
}

func pinned(t int) []fhirpath.EvaluateOption {
	return []fhirpath.EvaluateOption{evalopts.OverrideTime(lib.PinnedNow.Add(time.Duration(t) * time.Hour)), evalopts.EnvVariable("v", system.Integer(int32(t+1))), evalopts.EnvVariable("who", system.String(fmt.Sprintf("T%d", t)))}
}

func tagFn(in system.Collection, s system.String) (system.Collection, error) {
	return system.Collection{system.String(fmt.Sprintf("%s/%d", s, len(in)))}, nil
}

func pairFn(in system.Collection, a, b system.String) (system.Collection, error) {
	return system.Collection{a + "+" + b}, nil
}

// All returns the scenarios in a fixed order.
func All() []Scenario {
	return []Scenario{
		sharedEval("S1-where", "Patient.name.where(use = 'official').given", 2, pinned),
		sharedEval("S1-select", "Patient.name.select(given.first() & ' ' & family)", 2, pinned),
		sharedEval("S1-all", "Patient.name.all(given.count() > 0) and Patient.telecom.exists(rank > 1)", 2, pinned),
		sharedEval("S1-now", "now().toString() & '|' & today().toString() & '|' & (now() = now()).toString()", 2, pinned),
		sharedEval("S1-env", "%v + 1 + Patient.name.count()", 2, pinned),
		sharedEval("S1-isas", "Patient.deceased is boolean and (Patient.multipleBirth as integer) = 2", 2, pinned),
		sharedEval("S1-arith", "Patient.telecom.rank.first() + 1 * 2 - 3", 2, pinned),
		sharedEval("S1-custom", "Patient.name.tag(%who)", 2, pinned, compopts.AddFunction("tag", tagFn)),
		sharedEval("S1-custom-nested", "pair(%who, pair(%who, 'x'))", 2, pinned, compopts.AddFunction("pair", pairFn)),
		{Name: "S2-compile-addfunction", Setup: func() *Instance {
			mk := func(name string, tag int) func() string {
				return func() string {
					e, err := fhirpath.Compile(name+"()", compopts.AddFunction(name, func(system.Collection) (system.Collection, error) {
						return system.Collection{system.Integer(int32(tag))}, nil
					}))
					if err != nil {
						return "compile error: " + err.Error()
					}
					out := show(e.Evaluate([]fhir.Resource{lib.Patient()}))
					_, perr := fhirpath.Compile(name + "()")
					_, oerr := fhirpath.Compile(map[string]string{"a": "b", "b": "a"}[name] + "()")
					return fmt.Sprintf("%s; plain Compile of own name rejected=%v; of the other thread's name rejected=%v", out, perr != nil, oerr != nil)
				}
			}
			return &Instance{Threads: []func() string{mk("a", 1), mk("b", 2)}, Intact: func() string { return "" }}
		}},
		{Name: "S3-patch-shared-expression", Setup: func() *Instance {
			e, err := patch.Compile("Patient.name[0]")
			if err != nil {
				panic(err)
			}
			return &Instance{Intact: func() string { return "" }, Threads: []func() string{
				func() string {
					p := lib.Patient()
					err := e.Delete(p)
					return fmt.Sprintf("delete err=%v names=%d first=%s", err, len(p.Name), p.Name[0].GetFamily().GetValue())
				},
				func() string {
					p := lib.Patient()
					p.Name = p.Name[:2]
					err := e.Replace(p, lib.NameB())
					return fmt.Sprintf("replace err=%v names=%d first=%s", err, len(p.Name), p.Name[0].GetFamily().GetValue())
				},
			}}
		}},
		{Name: "S4-evaluate-vs-compile-experimental", Setup: func() *Instance {
			e, err := fhirpath.Compile("Patient.name.given.count()")
			if err != nil {
				panic(err)
			}
			res := lib.Patient()
			before := finger(res)
			return &Instance{Intact: func() string {
				if finger(res) != before {
					return "shared input resource changed"
				}
				return ""
			}, Threads: []func() string{
				func() string {
					a := show(e.Evaluate([]fhir.Resource{res}))
					_, perr := fhirpath.Compile("Patient.name.given.join(',')")
					return fmt.Sprintf("%s; plain join rejected=%v", a, perr != nil)
				},
				func() string {
					x, err := fhirpath.Compile("Patient.name.given.join(',')", compopts.WithExperimentalFuncs())
					if err != nil {
						return "experimental compile error"
					}
					_, perr := fhirpath.Compile("Patient.name.given.join(',')")
					return fmt.Sprintf("%s; plain join rejected=%v", show(x.Evaluate([]fhir.Resource{res})), perr != nil)
				},
			}}
		}},
		sharedEvalOn("S7-microsecond-elements", "Observation.effective > @2019-01-01T00:00:00Z and Observation.issued.toString().length() > 0 and Observation.effective.toString() = Observation.effective.toString()", 2, microObservation, pinned),
		mixedEval("S6-division-scales", "0.00000000000000000007 / 2.0", "1 / 3"),
		mixedEval("S6-division-decimal", "10.0 / 3.0", "0.000000000000000000000001 / 7"),
		mixedEval("S6-conversions", "'3 days'.toQuantity('hours')", "'3 days'.toQuantity()"),
		mixedEval("S6-types", "Patient.name.first() is HumanName", "Patient.telecom.first() is HumanName"),
		mixedEval("S6-strings", "'abc'.matches('a.c') and 'xbc'.replaceMatches('b', 'y') = 'xyc'", "'abd'.matches('a.c$') and Patient.name.family.first().upper() = 'SMITH'"),
		sharedEval("S5-three-threads", "Patient.name.where(family = 'Smith').select(given.first() & %who)", 3, pinned),
	}
}

// ByName finds a scenario.
func ByName(name string) *Scenario {
	for _, s := range All() {
		if s.Name == name {
			s := s
			return &s
		}
	}
	return nil
}
