//go:build verif

// Package explore is the controlled cooperative scheduler and the
// preemption-bounded depth-first explorer of the C04 schedule sub-space. It is
// built only against the instrumented copy of the tree (it imports the
// generated shim).
package explore

import (
	"errors"
	"fmt"
	"strings"
	"sync/atomic"
	"time"

	"github.com/verily-src/fhirpath-go/fhirpath/verifh/sched/scen"
	"github.com/verily-src/fhirpath-go/internal/verifsched"
)

type event struct {
	tid     int
	done    bool
	site    int
	blocked bool // sent by the watchdog, not by a thread
}

type step struct {
	tid     int
	site    int // site reached by the thread after being resumed (-1 = finished)
	enabled []int
	running int // thread that was running before this decision (-1 none); it is enabled[0] if still enabled
}

type execution struct {
	choices []int
	steps   []step
	obs     []string
	writes  []string
	intact  string
}

type run struct {
	resume []chan struct{}
	events chan event
	cur    int
	writes []string
	free   atomic.Bool // set when a schedule is abandoned: every thread then runs to its end without yielding
	nsteps atomic.Int64
}

// one watchdog for the process: when the current run has not moved for BlockedAfter it tells the explorer (which is
// then waiting for an event) that the resumed thread is blocked. No per-step timer: a step costs what it cost before.
var curRun atomic.Pointer[run]

func init() {
	go func() {
		var last *run
		var lastSteps int64
		var since time.Time
		for {
			time.Sleep(250 * time.Millisecond)
			r := curRun.Load()
			if r == nil || r.free.Load() {
				last = nil
				continue
			}
			if n := r.nsteps.Load(); r != last || n != lastSteps {
				last, lastSteps, since = r, n, time.Now()
				continue
			}
			if time.Since(since) >= BlockedAfter {
				select {
				case r.events <- event{blocked: true}:
				default:
				}
				last = nil
			}
		}
	}()
}

func (r *run) Point(site int) {
	if r.free.Load() {
		return
	}
	tid := r.cur // read before yielding: the explorer changes cur as soon as it has the event
	r.events <- event{tid: tid, site: site}
	<-r.resume[tid]
}

// errBlocked: the thread that was resumed neither reached a scheduling point nor finished within BlockedAfter. The code
// under test then waits on synchronisation the scheduler does not model (a sync.Mutex / Once / Map held by a thread that
// is parked at a point). Such a wait is no violation - a lock is a legitimate way to be goroutine-safe - but the schedule
// is not one the real runtime could produce at this granularity (the waiting thread is not enabled), so it is abandoned:
// every thread is released to run freely to its end (which also releases process-wide locks), and the explorer goes on.
var errBlocked = errors.New("blocked on synchronisation outside the scheduler")

// BlockedAfter is how long a resumed thread may stay silent. A step between two points takes microseconds; a timeout
// can only cost a schedule (counted and reported), never raise an alarm.
var BlockedAfter = 3 * time.Second

func (r *run) Access(site int, write bool) {
	if write {
		s := verifsched.Sites[site]
		r.writes = append(r.writes, fmt.Sprintf("%s written at %s:%d (thread %d)", s.What, s.File, s.Line, r.cur))
		r.Point(site)
	}
}

// execute runs one schedule: the choices of prefix, then the default choice 0 everywhere.
func execute(sc *scen.Scenario, prefix []int) (*execution, error) {
	inst := sc.Setup()
	n := len(inst.Threads)
	r := &run{resume: make([]chan struct{}, n), events: make(chan event), cur: -1}
	x := &execution{obs: make([]string, n)}
	done := make([]bool, n)
	for t := 0; t < n; t++ {
		r.resume[t] = make(chan struct{})
		t := t
		go func() {
			<-r.resume[t]
			func() {
				defer func() {
					if p := recover(); p != nil {
						x.obs[t] = fmt.Sprintf("PANIC: %v", p)
					}
				}()
				x.obs[t] = inst.Threads[t]()
			}()
			r.events <- event{tid: t, done: true, site: -1}
		}()
	}
	verifsched.SetHook(r)
	defer verifsched.SetHook(nil)
	curRun.Store(r)
	defer curRun.Store(nil)
	running := -1
	for i := 0; ; i++ {
		var enabled []int
		if running >= 0 && !done[running] {
			enabled = append(enabled, running)
		}
		for t := 0; t < n; t++ {
			if !done[t] && !(running >= 0 && t == running) {
				enabled = append(enabled, t)
			}
		}
		if len(enabled) == 0 {
			break
		}
		c := 0
		if i < len(prefix) {
			c = prefix[i]
			if c >= len(enabled) {
				return nil, fmt.Errorf("replay diverged: choice %d of step %d out of range (%d enabled)", c, i, len(enabled))
			}
		}
		t := enabled[c]
		x.choices = append(x.choices, c)
		r.cur = t
		r.resume[t] <- struct{}{}
		r.nsteps.Add(1)
		ev := <-r.events
		if ev.blocked {
			// abandon: free-run everything; parked threads are resumed, the blocked one follows once the lock is released
			r.free.Store(true)
			left := 0
			for u := 0; u < n; u++ {
				if !done[u] {
					left++
					if u != t {
						u := u
						go func() { r.resume[u] <- struct{}{} }()
					}
				}
			}
			limit := time.After(60 * time.Second)
			for left > 0 {
				select {
				case e := <-r.events:
					if e.blocked {
						continue
					}
					if e.done {
						left--
					} else {
						// a thread that had passed the free check before it was set: let it go on
						e := e
						go func() { r.resume[e.tid] <- struct{}{} }()
					}
				case <-limit:
					return nil, fmt.Errorf("threads still blocked 60 s after all of them were released (deadlock in the code under test?) at step %d, thread %d", i, t)
				}
			}
			return nil, errBlocked
		}
		if ev.tid != t {
			return nil, fmt.Errorf("scheduler error: resumed thread %d but thread %d reported", t, ev.tid)
		}
		st := step{tid: t, site: ev.site, enabled: enabled, running: -1}
		if running >= 0 && !done[running] {
			st.running = running
		}
		x.steps = append(x.steps, st)
		if ev.done {
			done[t] = true
		}
		running = t
	}
	x.writes = r.writes
	x.intact = inst.Intact()
	return x, nil
}

// Result of exploring one scenario.
type Result struct {
	Scenario   string         `json:"scenario"`
	Executions int64          `json:"executions"`
	Points     []int          `json:"points_per_thread"`
	Bound      int            `json:"preemption_bound"`
	Exhaustive bool           `json:"exhaustive"`
	Outcomes   int            `json:"distinct_observation_vectors"`
	Sites      int            `json:"distinct_sites"`
	Findings   []Finding      `json:"findings"`
	Blocked    int            `json:"schedules_abandoned_blocked"`
	Note       string         `json:"note"`
	Sample     map[string]any `json:"sample,omitempty"`
}

type Finding struct {
	Key     string         `json:"key"`
	Witness map[string]any `json:"witness"`
}

func (x *execution) schedule() string {
	var sb strings.Builder
	last, cnt := -1, 0
	flush := func() {
		if cnt > 0 {
			fmt.Fprintf(&sb, "T%dx%d ", last, cnt)
		}
	}
	for _, s := range x.steps {
		if s.tid != last {
			flush()
			last, cnt = s.tid, 0
		}
		cnt++
	}
	flush()
	return strings.TrimSpace(sb.String())
}

func (x *execution) preemptions() int {
	p := 0
	for i, s := range x.steps {
		if s.running >= 0 && x.choices[i] != 0 {
			p++
		}
	}
	return p
}

// Explore runs the preemption-bounded DFS for bounds 0..maxBound, each within maxExec executions.
func Explore(sc *scen.Scenario, maxBound int, maxExec int64) *Result {
	res := &Result{Scenario: sc.Name, Exhaustive: true}
	// isolated observations: each thread alone on a fresh instance, no other thread started
	n := len(sc.Setup().Threads)
	isolated := make([]string, n)
	for t := 0; t < n; t++ {
		inst := sc.Setup()
		isolated[t] = inst.Threads[t]()
	}
	// determinism gate: the default schedule twice
	a, err := execute(sc, nil)
	if err != nil {
		res.Findings = append(res.Findings, Finding{"harness-error", map[string]any{"err": err.Error()}})
		return res
	}
	b, _ := execute(sc, nil)
	if b == nil || fmt.Sprint(a.steps) != fmt.Sprint(b.steps) || fmt.Sprint(a.obs) != fmt.Sprint(b.obs) {
		res.Findings = append(res.Findings, Finding{"harness-error", map[string]any{"err": "the default schedule is not reproducible: nondeterminism outside the scheduler"}})
		return res
	}
	res.Points = make([]int, n)
	sites := map[int]bool{}
	for _, s := range a.steps {
		res.Points[s.tid]++
		sites[s.site] = true
	}
	res.Sites = len(sites)
	outcomes := map[string]bool{}
	seenKey := map[string]bool{}
	check := func(x *execution) {
		outcomes[strings.Join(x.obs, "\x00")] = true
		for t := range x.obs {
			if x.obs[t] != isolated[t] {
				key := "observation-differs-from-isolated"
				if strings.HasPrefix(x.obs[t], "PANIC") {
					key = "panic-under-interleaving"
				}
				if !seenKey[key] {
					seenKey[key] = true
					res.Findings = append(res.Findings, Finding{key, map[string]any{"thread": t, "observed": x.obs[t], "isolated": isolated[t], "schedule": x.schedule(), "choices": fmt.Sprint(x.choices), "preemptions": x.preemptions()}})
				}
			}
		}
		for _, w := range x.writes {
			key := "package-level-variable-written-at-run-time|" + strings.SplitN(w, " ", 2)[0]
			if !seenKey[key] {
				seenKey[key] = true
				res.Findings = append(res.Findings, Finding{key, map[string]any{"write": w, "schedule": x.schedule(), "choices": fmt.Sprint(x.choices)}})
			}
		}
		if x.intact != "" && !seenKey["input"] {
			seenKey["input"] = true
			res.Findings = append(res.Findings, Finding{"shared-input-mutated", map[string]any{"what": x.intact, "schedule": x.schedule(), "choices": fmt.Sprint(x.choices)}})
		}
	}
	var lastCount int64
	totalPoints := int64(0)
	for _, p := range res.Points {
		totalPoints += int64(p)
	}
	for bound := 0; bound <= maxBound; bound++ {
		// the number of schedules grows by about (points / bound) per extra preemption: a bound whose
		// estimate exceeds the budget is not started, so that every reported bound is complete
		if bound >= 2 && lastCount*totalPoints/int64(bound) > maxExec {
			res.Note += fmt.Sprintf("; bound %d not started (estimated %d executions > budget %d)", bound, lastCount*totalPoints/int64(bound), maxExec)
			break
		}
		var count int64
		capped := false
		var dfs func(prefix []int)
		dfs = func(prefix []int) {
			if capped {
				return
			}
			x, err := execute(sc, prefix)
			if err == errBlocked {
				// infeasible at this granularity (see errBlocked); nothing below this prefix is explored
				res.Blocked++
				if res.Blocked >= 40 {
					res.Note += "; stopped after 40 schedules in which a thread waited on synchronisation outside the scheduler (locks in the code under test): the schedule space is not covered"
					res.Exhaustive = false
					capped = true
				}
				return
			}
			if err != nil {
				res.Findings = append(res.Findings, Finding{"harness-error", map[string]any{"err": err.Error(), "prefix": fmt.Sprint(prefix)}})
				capped = true
				return
			}
			count++
			res.Executions++
			check(x)
			if count >= maxExec {
				capped = true
				return
			}
			// preemptions used up to each step
			used := 0
			for i := range x.steps {
				if i >= len(prefix) {
					cost := used
					if x.steps[i].running >= 0 {
						cost++
					}
					if cost <= bound {
						for alt := 1; alt < len(x.steps[i].enabled); alt++ {
							dfs(append(append([]int{}, x.choices[:i]...), alt))
							if capped {
								return
							}
						}
					}
				}
				if x.steps[i].running >= 0 && x.choices[i] != 0 {
					used++
				}
			}
		}
		dfs(nil)
		if capped {
			res.Note = fmt.Sprintf("bound %d stopped after %d executions (cap); bound %d was explored completely", bound, count, bound-1)
			res.Exhaustive = false
			break
		}
		res.Bound = bound
		lastCount = count
		res.Note = fmt.Sprintf("all schedules with <=%d preemptions explored (%d executions at this bound)", bound, count)
	}
	res.Outcomes = len(outcomes)
	res.Sample = map[string]any{"default_schedule": a.schedule(), "isolated_observations": isolated}
	return res
}
