package core

import (
	"bufio"
	"crypto/sha1"
	"encoding/hex"
	"encoding/json"
	"fmt"
	"os"
	"os/exec"
	"path/filepath"
	"regexp"
	"runtime"
	"sort"
	"strconv"
	"strings"
	"sync"
	"time"
)

// ------------------------------------------------------------------ worker

type WorkerOut struct {
	Shard    int                 `json:"shard"`
	Evals    int64               `json:"evals"`
	Nontriv  int64               `json:"nontrivial"`
	States   []string            `json:"states"`
	Outcomes []string            `json:"outcomes"`
	Findings []*Finding          `json:"findings"`
	Samples  map[string][]any    `json:"samples"`
	PerSub   map[string]*SubStat `json:"per_sub"`
	Cap      bool                `json:"cap"`
	CapNote  string              `json:"cap_note"`
	Aborted  string              `json:"aborted,omitempty"` // "hang" with details
	HangSub  int                 `json:"hang_sub"`
	HangIdx  int                 `json:"hang_idx"`
}

type skipKey struct{ sub, idx int }

const HangBudget = 45 * time.Second

// WorkerMain executes shard `shard` of `nshards` of check id and writes the result file.
// only >= 0 restricts execution to (onlySub, onlyIdx).
// UptoSub/UptoIdx (set through SetUpto) stop the shard after that index: used to re-execute the
// history that precedes a failing case.
var uptoSub, uptoIdx = -1, -1

func SetUpto(sub, idx int) { uptoSub, uptoIdx = sub, idx }

func WorkerMain(id, tier string, shard, nshards int, out string, traceFile string, skips []string, onlySub, onlyIdx int, deadline time.Time) int {
	c := Get(id)
	if c == nil {
		fmt.Fprintln(os.Stderr, "unknown check", id)
		return 2
	}
	subs := c.Subs(tier)
	r := NewRec(tier)
	r.Shard = shard
	skip := map[skipKey]bool{}
	for _, s := range skips {
		var a, b int
		if _, err := fmt.Sscanf(s, "%d:%d", &a, &b); err == nil {
			skip[skipKey{a, b}] = true
		}
	}
	var trace *os.File
	if traceFile != "" {
		trace, _ = os.OpenFile(traceFile, os.O_CREATE|os.O_WRONLY|os.O_TRUNC, 0o644)
	}
	var mu sync.Mutex // guards write-out against watchdog
	writeOut := func(aborted string) {
		wo := &WorkerOut{Shard: shard, Evals: r.Evals, Nontriv: r.NontrivialCount(), Samples: r.Samples, PerSub: r.PerSub, Cap: r.Cap, CapNote: r.CapNote, Aborted: aborted, HangSub: r.subIdx, HangIdx: r.index}
		for s := range r.States {
			wo.States = append(wo.States, s)
		}
		for s := range r.Outcomes {
			wo.Outcomes = append(wo.Outcomes, s)
		}
		for _, f := range r.Findings {
			wo.Findings = append(wo.Findings, f)
		}
		b, _ := json.Marshal(wo)
		os.WriteFile(out+".tmp", b, 0o644)
		os.Rename(out+".tmp", out)
	}
	// hang watchdog
	go func() {
		for {
			time.Sleep(time.Second)
			if time.Since(time.Unix(0, r.beat.Load())) > HangBudget {
				mu.Lock()
				buf := make([]byte, 1<<20)
				n := runtime.Stack(buf, true)
				lbl, _ := r.label.Load().(string)
				fmt.Fprintf(os.Stderr, "HANG in %s sub=%d index=%d label=%s\n%s\n", id, r.subIdx, r.index, lbl, Short(string(buf[:n]), 6000))
				// record is racy by nature (main goroutine is stuck); only counters are read
				writeOut("hang:" + lbl)
				os.Exit(3)
			}
		}
	}()
	for si := range subs {
		s := &subs[si]
		if onlySub >= 0 && si != onlySub {
			continue
		}
		st := &SubStat{N: s.N, Note: s.Note}
		r.PerSub[s.Name] = st
		for i := shard; i < s.N; i += nshards {
			if onlySub >= 0 && i != onlyIdx {
				continue
			}
			if skip[skipKey{si, i}] {
				continue
			}
			if !deadline.IsZero() && time.Now().After(deadline) {
				r.CapHit("tier deadline reached in " + s.Name)
				break
			}
			if trace != nil {
				fmt.Fprintf(trace, "%d:%d\n", si, i)
			}
			r.begin(s, si, i)
			if pi := Try(func() { s.Run(i, r) }); pi != nil {
				// a panic escaping a check body: if it originates in the repo it is
				// a violation of the property's totality aspect; if in the harness,
				// it is a harness bug and must not be reported as a violation.
				if pi.Locus == "?" {
					fmt.Fprintf(os.Stderr, "HARNESS PANIC in %s/%s index %d: %s\n%s\n", id, s.Name, i, pi.Raw, pi.Stack)
					mu.Lock()
					writeOut("harness-panic")
					os.Exit(4)
				}
				r.Fail("escaped-"+pi.Key()+"|"+s.Name, W{"panic": pi.Raw, "stack": Short(pi.Stack, 3000)})
			}
			st.Done++
			if uptoSub == si && uptoIdx == i {
				mu.Lock()
				writeOut("")
				return 0
			}
		}
	}
	mu.Lock()
	writeOut("")
	return 0
}

// -------------------------------------------------------------- coordinator

type Known struct {
	Property    string `json:"property"`
	Key         string `json:"key"`
	Description string `json:"description"`
	Witness     any    `json:"witness,omitempty"`
}

type KnownFile struct {
	Comment  string   `json:"comment"`
	Findings []Known  `json:"findings"`
	Fixed    []string `json:"fixed"`
}

func LoadKnown(path string) (*KnownFile, error) {
	kf := &KnownFile{}
	b, err := os.ReadFile(path)
	if err != nil {
		if os.IsNotExist(err) {
			return kf, nil
		}
		return nil, err
	}
	if err := json.Unmarshal(b, kf); err != nil {
		return nil, err
	}
	return kf, nil
}

type Opts struct {
	ID, Tier   string
	VerifDir   string
	Self       string // path of this binary
	NShards    int
	Seed       int
	DumpNovel  string // if set: write novel findings (as Known entries) to this file instead of failing
	Deadline   time.Duration
	ReplayFile string
}

func keyHash(k string) string {
	h := sha1.Sum([]byte(k))
	return hex.EncodeToString(h[:6])
}

func runWorker(o *Opts, shard, nshards int, out string, extra ...string) (int, string) {
	args := []string{"worker", o.ID, o.Tier, strconv.Itoa(shard), strconv.Itoa(nshards), out}
	args = append(args, extra...)
	cmd := exec.Command(o.Self, args...)
	var errb strings.Builder
	cmd.Stderr = &errb
	cmd.Stdout = os.Stderr
	cmd.Env = append(os.Environ(), "GOMAXPROCS=2", "GOTRACEBACK=single")
	err := cmd.Run()
	code := 0
	if err != nil {
		code = 1
		if ee, ok := err.(*exec.ExitError); ok {
			code = ee.ExitCode()
		}
	}
	return code, errb.String()
}

func readOut(path string) *WorkerOut {
	b, err := os.ReadFile(path)
	if err != nil {
		return nil
	}
	wo := &WorkerOut{}
	if json.Unmarshal(b, wo) != nil {
		return nil
	}
	return wo
}

// CoordinatorMain runs the whole check and returns the process exit code.
func CoordinatorMain(o *Opts) int {
	start := time.Now()
	c := Get(o.ID)
	if c == nil {
		fmt.Fprintln(os.Stderr, "unknown check", o.ID)
		return 2
	}
	subs := c.Subs(o.Tier)
	scratch, err := os.MkdirTemp("", "vcheck-"+o.ID+"-")
	if err != nil {
		fmt.Fprintln(os.Stderr, err)
		return 2
	}
	defer os.RemoveAll(scratch)
	deadlineArg := ""
	if o.Deadline > 0 {
		deadlineArg = "--deadline=" + strconv.FormatInt(time.Now().Add(o.Deadline).Unix(), 10)
	}

	type shardRes struct {
		outs   []*WorkerOut
		fatals []*Finding
		err    string
	}
	results := make([]shardRes, o.NShards)
	var wg sync.WaitGroup
	for sh := 0; sh < o.NShards; sh++ {
		wg.Add(1)
		go func(sh int) {
			defer wg.Done()
			res := &results[sh]
			var skips []string
			for attempt := 0; attempt < 40; attempt++ {
				out := filepath.Join(scratch, fmt.Sprintf("out-%d-%d.json", sh, attempt))
				tracef := filepath.Join(scratch, fmt.Sprintf("trace-%d.txt", sh))
				extra := []string{}
				if deadlineArg != "" {
					extra = append(extra, deadlineArg)
				}
				if attempt > 0 {
					extra = append(extra, "--trace="+tracef)
				}
				if len(skips) > 0 {
					extra = append(extra, "--skip="+strings.Join(skips, ","))
				}
				code, stderr := runWorker(o, sh, o.NShards, out, extra...)
				wo := readOut(out)
				if code == 0 && wo != nil {
					res.outs = append(res.outs, wo)
					return
				}
				if code == 4 || code == 2 {
					res.err = "harness error in shard " + strconv.Itoa(sh) + ": " + Short(stderr, 4000)
					return
				}
				if code == 3 && wo != nil { // hang, attributed by the worker itself
					sub := "?"
					if wo.HangSub < len(subs) {
						sub = subs[wo.HangSub].Name
					}
					res.fatals = append(res.fatals, &Finding{Key: "hang|" + sub + "|" + wo.Aborted, Count: 1, Sub: sub, SubIdx: wo.HangSub, Index: wo.HangIdx,
						Witness: W{"what": "no progress for " + HangBudget.String(), "stderr": Short(stderr, 3000)}})
					// partial results of a hung worker are discarded; redo shard without that index
					skips = append(skips, fmt.Sprintf("%d:%d", wo.HangSub, wo.HangIdx))
					continue
				}
				// fatal death (stack overflow, OOM, os.Exit in code under test)
				if attempt == 0 {
					continue // redo with tracing to attribute
				}
				last := lastLine(tracef)
				var a, b int
				if _, err := fmt.Sscanf(last, "%d:%d", &a, &b); err != nil {
					res.err = "worker died without trace: " + Short(stderr, 3000)
					return
				}
				sub := subs[a].Name
				res.fatals = append(res.fatals, &Finding{Key: "fatal|" + sub + "|" + NormMsg(firstLine(stderr)), Count: 1, Sub: sub, SubIdx: a, Index: b,
					Witness: W{"what": "worker process died", "stderr": Short(stderr, 3000)}})
				skips = append(skips, last)
			}
			res.err = "too many worker deaths in shard " + strconv.Itoa(sh)
		}(sh)
	}
	wg.Wait()

	// merge
	merged := NewRec(o.Tier)
	perSub := map[string]*SubStat{}
	for _, s := range subs {
		perSub[s.Name] = &SubStat{N: s.N, Note: s.Note}
	}
	var nontriv int64
	capHit, capNote := false, ""
	add := func(f *Finding) {
		m := merged.Findings[f.Key]
		if m == nil {
			cp := *f
			merged.Findings[f.Key] = &cp
			return
		}
		m.Count += f.Count
		if f.SubIdx < m.SubIdx || (f.SubIdx == m.SubIdx && (f.Index < m.Index || (f.Index == m.Index && f.Seq < m.Seq))) {
			cnt := m.Count
			*m = *f
			m.Count = cnt
		}
	}
	for sh := range results {
		if results[sh].err != "" {
			fmt.Fprintln(os.Stderr, "HARNESS-ERROR:", results[sh].err)
			return 2
		}
		for _, f := range results[sh].fatals {
			add(f)
		}
		for _, wo := range results[sh].outs {
			merged.Evals += wo.Evals
			nontriv += wo.Nontriv
			for _, s := range wo.States {
				merged.States[s] = struct{}{}
			}
			for _, s := range wo.Outcomes {
				merged.Outcomes[s] = struct{}{}
			}
			for _, f := range wo.Findings {
				add(f)
			}
			for k, v := range wo.Samples {
				if len(merged.Samples[k]) < 2 {
					merged.Samples[k] = append(merged.Samples[k], v...)
				}
			}
			for k, v := range wo.PerSub {
				if ps := perSub[k]; ps != nil {
					ps.Done += v.Done
					ps.Evals += v.Evals
					ps.Findings += v.Findings
				}
			}
			if wo.Cap {
				capHit, capNote = true, wo.CapNote
			}
		}
	}

	// classify
	kf, err := LoadKnown(filepath.Join(o.VerifDir, "known_findings.json"))
	if err != nil {
		fmt.Fprintln(os.Stderr, "HARNESS-ERROR: known_findings.json:", err)
		return 2
	}
	known := map[string]Known{}
	var knownGlobs []knownGlob
	for _, k := range kf.Findings {
		if k.Property != o.ID {
			continue
		}
		if strings.Contains(k.Key, "*") {
			knownGlobs = append(knownGlobs, knownGlob{re: globRegexp(k.Key), k: k})
		} else {
			known[k.Key] = k
		}
	}
	lookup := func(key string) (Known, bool) {
		if kn, ok := known[key]; ok {
			return kn, true
		}
		for _, g := range knownGlobs {
			if g.re.MatchString(key) {
				return g.k, true
			}
		}
		return Known{}, false
	}
	var keys []string
	for k := range merged.Findings {
		keys = append(keys, k)
	}
	sort.Slice(keys, func(i, j int) bool {
		a, b := merged.Findings[keys[i]], merged.Findings[keys[j]]
		if a.SubIdx != b.SubIdx {
			return a.SubIdx < b.SubIdx
		}
		if a.Index != b.Index {
			return a.Index < b.Index
		}
		return a.Key < b.Key
	})
	var knownHit []string
	var novel []*Finding
	printedKnown := map[string]bool{}
	for _, k := range keys {
		if kn, ok := lookup(k); ok {
			knownHit = append(knownHit, k)
			if !printedKnown[kn.Key] { // one line per listed finding, not per matching key
				printedKnown[kn.Key] = true
				fmt.Printf("KNOWN-FINDING: property=%s %s [%s] (first witness key %s)\n", o.ID, oneLine(kn.Description), kn.Key, k)
			}
		} else {
			novel = append(novel, merged.Findings[k])
		}
	}

	if o.DumpNovel != "" {
		var ks []Known
		for _, f := range novel {
			ks = append(ks, Known{Property: o.ID, Key: f.Key, Description: "TODO", Witness: f.Witness})
		}
		b, _ := json.MarshalIndent(ks, "", " ")
		os.WriteFile(o.DumpNovel, b, 0o644)
		fmt.Fprintf(os.Stderr, "dumped %d novel finding keys to %s\n", len(ks), o.DumpNovel)
	}

	// confirm novel findings: re-execute up to maxConfirm keys 5x in fresh processes
	const maxConfirm = 6
	violations := 0
	var violLines []string
	var unreproducible []string
	outDir := o.VerifDir
	if d := os.Getenv("VERIF_OUT_DIR"); d != "" {
		outDir = d // seeded-change runs write their evidence and replays elsewhere
	}
	replayDir := filepath.Join(outDir, "replays", o.ID)
	for n, f := range novel {
		if n >= maxConfirm {
			break
		}
		ok := true
		if !strings.HasPrefix(f.Key, "hang|") && !strings.HasPrefix(f.Key, "fatal|") {
			var cw sync.WaitGroup
			oks := make([]bool, 5)
			for rep := 0; rep < 5; rep++ {
				cw.Add(1)
				go func(rep int) {
					defer cw.Done()
					out := filepath.Join(scratch, fmt.Sprintf("confirm-%d-%d.json", n, rep))
					code, _ := runWorker(o, 0, 1, out, fmt.Sprintf("--only=%d:%d", f.SubIdx, f.Index))
					wo := readOut(out)
					if code == 0 && wo != nil {
						for _, g := range wo.Findings {
							if g.Key == f.Key {
								oks[rep] = true
							}
						}
					}
				}(rep)
			}
			cw.Wait()
			for _, b := range oks {
				ok = ok && b
			}
		}
		history := false
		if !ok && !strings.HasPrefix(f.Key, "hang|") && !strings.HasPrefix(f.Key, "fatal|") {
			// the case may depend on the cases executed before it in its shard (state kept by the code under
			// test between calls): re-execute that history, 5x in fresh processes; the order inside a shard is fixed
			var cw sync.WaitGroup
			oks := make([]bool, 5)
			for rep := 0; rep < 5; rep++ {
				cw.Add(1)
				go func(rep int) {
					defer cw.Done()
					out := filepath.Join(scratch, fmt.Sprintf("confirm-h-%d-%d.json", n, rep))
					code, _ := runWorker(o, f.Shard, o.NShards, out, fmt.Sprintf("--upto=%d:%d", f.SubIdx, f.Index))
					wo := readOut(out)
					if code == 0 && wo != nil {
						for _, g := range wo.Findings {
							if g.Key == f.Key {
								oks[rep] = true
							}
						}
					}
				}(rep)
			}
			cw.Wait()
			ok = true
			for _, b := range oks {
				ok = ok && b
			}
			history = ok
		}
		if !ok {
			unreproducible = append(unreproducible, f.Key)
			continue
		}
		os.MkdirAll(replayDir, 0o755)
		rp := filepath.Join(replayDir, keyHash(f.Key)+".json")
		b, _ := json.MarshalIndent(map[string]any{"property": o.ID, "tier": o.Tier, "sub": f.Sub, "sub_idx": f.SubIdx, "index": f.Index, "key": f.Key, "cases": f.Count, "witness": f.Witness,
			"history_dependent": history, "shard": f.Shard, "nshards": o.NShards, "note": map[bool]string{true: "fails only after the cases that precede it in shard " + strconv.Itoa(f.Shard) + " of " + strconv.Itoa(o.NShards) + " (state carried between calls); replay re-executes that history", false: ""}[history]}, "", " ")
		os.WriteFile(rp, b, 0o644)
		violations++
		violLines = append(violLines, fmt.Sprintf("VIOLATION property=%s replay=%s", o.ID, rp))
		fmt.Printf("  violating key: %s (%d cases) witness=%s\n", f.Key, f.Count, Short(mustJSON(f.Witness), 600))
	}
	if len(unreproducible) > 0 && violations == 0 {
		fmt.Fprintf(os.Stderr, "HARNESS-ERROR: %d finding(s) did not reproduce 5/5 in fresh processes (nondeterminism leaked into the harness): %v\n", len(unreproducible), unreproducible)
		return 2
	}
	if len(unreproducible) > 0 {
		// other findings of this run did reproduce 5/5 and carry the verdict; these are listed, not counted
		fmt.Printf("  UNCONFIRMED (seen, but not reproduced 5/5 in fresh processes; not counted): %v\n", unreproducible)
	}
	if len(novel) > maxConfirm {
		fmt.Printf("  (+%d further unlisted finding keys not individually re-executed; first: %s)\n", len(novel)-maxConfirm, novel[maxConfirm].Key)
	}

	// evidence
	done, total := 0, 0
	for _, s := range subs {
		total += s.N
		done += perSub[s.Name].Done
	}
	exhaustive := done == total && !capHit
	var samples []any
	for _, s := range subs {
		for _, v := range merged.Samples[s.Name] {
			samples = append(samples, map[string]any{"sub": s.Name, "case": v})
		}
	}
	if len(samples) == 0 {
		samples = append(samples, map[string]any{"note": "no samples recorded"})
	}
	var novelKeys []string
	for _, f := range novel {
		novelKeys = append(novelKeys, f.Key)
	}
	states := len(merged.States)
	if states == 0 {
		states = 1
	}
	ev := map[string]any{
		"property_id": o.ID,
		"tier":        o.Tier,
		"seed":        o.Seed,
		"level":       "model_checking",
		"coverage": map[string]any{
			"states":                        states,
			"transitions":                   merged.Evals,
			"traces_validated_against_impl": merged.Evals,
			"evaluations":                   merged.Evals,
			"distinct_nontrivial":           nontriv,
			"rule":                          c.Rule,
			"samples":                       samples,
			"exhaustive":                    exhaustive,
			"outer_indices":                 total,
			"outer_indices_done":            done,
			"cap":                           capNote,
			"outcomes_distinct":             len(merged.Outcomes),
			"outcomes_listed":               outcomeList(merged.Outcomes, 60),
			"subspaces":                     perSub,
			"known_findings_hit":            knownHit,
			"unlisted_finding_keys":         novelKeys,
			"explanation":                   "states = distinct abstract input classes reached; transitions = executions of the real code; every execution drives the implementation itself, so traces_validated_against_impl = transitions",
		},
		"assumptions": c.Assumptions,
		"wall_s":      time.Since(start).Seconds(),
		"violations":  violations,
	}
	os.MkdirAll(filepath.Join(outDir, "evidence"), 0o755)
	b, _ := json.MarshalIndent(ev, "", " ")
	if err := os.WriteFile(filepath.Join(outDir, "evidence", o.ID+".json"), b, 0o644); err != nil {
		fmt.Fprintln(os.Stderr, "HARNESS-ERROR: writing evidence:", err)
		return 2
	}
	fmt.Printf("%s %s: subspaces=%d outer=%d/%d executions=%d states=%d outcomes=%d nontrivial=%d known-findings=%d unlisted=%d exhaustive=%v wall=%.1fs\n",
		o.ID, o.Tier, len(subs), done, total, merged.Evals, states, len(merged.Outcomes), nontriv, len(knownHit), len(novel), exhaustive, time.Since(start).Seconds())
	for _, l := range violLines {
		fmt.Println(l)
	}
	if violations > 0 && o.DumpNovel == "" {
		return 1
	}
	return 0
}

// ReplayMain re-executes the case recorded in a replay file.
func ReplayMain(o *Opts) int {
	b, err := os.ReadFile(o.ReplayFile)
	if err != nil {
		fmt.Fprintln(os.Stderr, err)
		return 2
	}
	var rp struct {
		Property string `json:"property"`
		Tier     string `json:"tier"`
		SubIdx   int    `json:"sub_idx"`
		Index    int    `json:"index"`
		Key      string `json:"key"`
		History  bool   `json:"history_dependent"`
		Shard    int    `json:"shard"`
		NShards  int    `json:"nshards"`
	}
	if err := json.Unmarshal(b, &rp); err != nil {
		fmt.Fprintln(os.Stderr, err)
		return 2
	}
	o.ID, o.Tier = rp.Property, rp.Tier
	scratch, _ := os.MkdirTemp("", "vreplay-")
	defer os.RemoveAll(scratch)
	out := filepath.Join(scratch, "out.json")
	var code int
	var stderr string
	if rp.History && rp.NShards > 0 {
		code, stderr = runWorker(o, rp.Shard, rp.NShards, out, fmt.Sprintf("--upto=%d:%d", rp.SubIdx, rp.Index))
	} else {
		code, stderr = runWorker(o, 0, 1, out, fmt.Sprintf("--only=%d:%d", rp.SubIdx, rp.Index))
	}
	wo := readOut(out)
	if wo == nil {
		fmt.Printf("replay: worker exit=%d\n%s\n", code, Short(stderr, 3000))
		if strings.HasPrefix(rp.Key, "fatal|") || strings.HasPrefix(rp.Key, "hang|") {
			fmt.Printf("VIOLATION property=%s replay=%s\n", rp.Property, o.ReplayFile)
			return 1
		}
		return 2
	}
	for _, f := range wo.Findings {
		if f.Key == rp.Key {
			fmt.Printf("reproduced: %s\nwitness: %s\nVIOLATION property=%s replay=%s\n", f.Key, mustJSON(f.Witness), rp.Property, o.ReplayFile)
			return 1
		}
	}
	fmt.Printf("not reproduced on this tree: %s\n", rp.Key)
	return 0
}

type knownGlob struct {
	re *regexp.Regexp
	k  Known
}

// globRegexp: a known-finding key may use '*' inside a field; it matches any
// run of characters that does not cross a field separator '|'.
func globRegexp(key string) *regexp.Regexp {
	parts := strings.Split(key, "*")
	for i := range parts {
		parts[i] = regexp.QuoteMeta(parts[i])
	}
	return regexp.MustCompile("^" + strings.Join(parts, `[^|]*`) + "$")
}

func outcomeList(m map[string]struct{}, max int) []string {
	var out []string
	for k := range m {
		out = append(out, Short(k, 160))
	}
	sort.Strings(out)
	if len(out) > max {
		out = out[:max]
	}
	return out
}

func mustJSON(v any) string { b, _ := json.Marshal(v); return string(b) }

func oneLine(s string) string { return strings.Join(strings.Fields(s), " ") }

func firstLine(s string) string {
	for _, l := range strings.Split(s, "\n") {
		if strings.TrimSpace(l) != "" {
			return l
		}
	}
	return ""
}

func lastLine(path string) string {
	f, err := os.Open(path)
	if err != nil {
		return ""
	}
	defer f.Close()
	last := ""
	sc := bufio.NewScanner(f)
	for sc.Scan() {
		if t := strings.TrimSpace(sc.Text()); t != "" {
			last = t
		}
	}
	return last
}
