// Package core is the explorer shared by all property checks: finite case
// spaces enumerated by index, sharded over worker sub-processes, every case
// executed on the real code, failures reduced to finding keys, classified
// against /verif/known_findings.json, re-executed before being believed, and
// summarised into /verif/evidence/<id>.json.
package core

import (
	"fmt"
	"hash/fnv"
	"regexp"
	"runtime/debug"
	"sort"
	"strings"
	"sync/atomic"
	"time"
)

// Sub is one finite sub-space of a check. Index i in [0,N) denotes one outer
// case; Run may loop over an inner product itself (calling r.Eval per
// execution of the real code).
type Sub struct {
	Name string
	N    int
	Run  func(i int, r *Rec)
	Note string // bound / alphabet description for the evidence
}

// Check is one property's decision procedure.
type Check struct {
	ID          string
	Rule        string
	Assumptions []string
	Subs        func(tier string) []Sub
	// Post is run once by the coordinator after all shards (e.g. cross-shard
	// laws); may be nil.
	Post func(tier string, r *Rec)
}

var registry = map[string]*Check{}

func Register(c *Check) { registry[c.ID] = c }
func Get(id string) *Check {
	return registry[id]
}
func IDs() []string {
	var ids []string
	for k := range registry {
		ids = append(ids, k)
	}
	sort.Strings(ids)
	return ids
}

// W is a witness: the concrete failing case written out.
type W map[string]any

type Finding struct {
	Key     string `json:"key"`
	Count   int64  `json:"count"`
	Sub     string `json:"sub"`
	SubIdx  int    `json:"sub_idx"`
	Index   int    `json:"index"`
	Seq     int64  `json:"seq"`
	Shard   int    `json:"shard"`
	Witness W      `json:"witness"`
}

// Rec records what a worker covered.
type Rec struct {
	Shard    int
	Tier     string
	sub      *Sub
	subIdx   int
	index    int
	seq      int64
	Evals    int64
	States   map[string]struct{}
	Outcomes map[string]struct{}
	nontriv  map[uint64]struct{}
	NontrivN int64
	Findings map[string]*Finding
	Samples  map[string][]any
	PerSub   map[string]*SubStat
	beat     atomic.Int64
	label    atomic.Value
	Cap      bool // set when an internal cap was hit: exhaustive=false
	CapNote  string
}

type SubStat struct {
	N         int   `json:"indices"`
	Done      int   `json:"indices_done"`
	Evals     int64 `json:"evaluations"`
	Findings  int64 `json:"failing_cases"`
	Note      string `json:"note,omitempty"`
}

func NewRec(tier string) *Rec {
	r := &Rec{Tier: tier, States: map[string]struct{}{}, Outcomes: map[string]struct{}{},
		nontriv: map[uint64]struct{}{}, Findings: map[string]*Finding{}, Samples: map[string][]any{},
		PerSub: map[string]*SubStat{}}
	r.beat.Store(time.Now().UnixNano())
	r.label.Store("")
	return r
}

func (r *Rec) begin(s *Sub, subIdx, index int) {
	r.sub, r.subIdx, r.index, r.seq = s, subIdx, index, 0
	r.beat.Store(time.Now().UnixNano())
}

// Eval counts one execution of the real code and feeds the hang watchdog.
func (r *Rec) Eval() {
	r.Evals++
	r.seq++
	if st := r.PerSub[r.sub.Name]; st != nil {
		st.Evals++
	}
	r.beat.Store(time.Now().UnixNano())
}

// AddEvals counts n executions of the real code performed by an external engine.
func (r *Rec) AddEvals(n int64) {
	r.Evals += n
	if st := r.PerSub[r.sub.Name]; st != nil {
		st.Evals += n
	}
	r.beat.Store(time.Now().UnixNano())
}

// Beat feeds the hang watchdog while an external engine is running.
func (r *Rec) Beat() { r.beat.Store(time.Now().UnixNano()) }

// Label names the step in progress (used when a hang or fatal error is attributed).
func (r *Rec) Label(s string) { r.label.Store(s) }

// State records an abstract input class reached.
func (r *Rec) State(s string) { r.States[s] = struct{}{} }

// Outcome records a distinct observed outcome class.
func (r *Rec) Outcome(s string) {
	if len(r.Outcomes) < 200000 {
		r.Outcomes[s] = struct{}{}
	}
}

// Nontrivial records one distinct non-trivial (case, outcome): the hash
// includes sub and index so shards never collide.
func (r *Rec) Nontrivial(parts ...string) {
	h := fnv.New64a()
	fmt.Fprintf(h, "%s|%d|", r.sub.Name, r.index)
	for _, p := range parts {
		h.Write([]byte(p))
		h.Write([]byte{0})
	}
	r.nontriv[h.Sum64()] = struct{}{}
}

// NontrivialByConstruction counts n cases whose distinctness follows from the
// enumeration being a bijection (used for bulk grids).
func (r *Rec) NontrivialByConstruction(n int64) { r.NontrivN += n }

func (r *Rec) NontrivialCount() int64 { return int64(len(r.nontriv)) + r.NontrivN }

// Sample keeps the first few written-out cases per sub-space.
func (r *Rec) Sample(v any) {
	if len(r.Samples[r.sub.Name]) < 2 {
		r.Samples[r.sub.Name] = append(r.Samples[r.sub.Name], v)
	}
}

func (r *Rec) WantSample() bool { return len(r.Samples[r.sub.Name]) < 2 }

// Fail records one failing case under its finding key.
func (r *Rec) Fail(key string, w W) {
	if st := r.PerSub[r.sub.Name]; st != nil {
		st.Findings++
	}
	f := r.Findings[key]
	if f == nil {
		f = &Finding{Key: key, Sub: r.sub.Name, SubIdx: r.subIdx, Index: r.index, Seq: r.seq, Shard: r.Shard, Witness: w}
		r.Findings[key] = f
	}
	f.Count++
}

func (r *Rec) CapHit(note string) { r.Cap = true; r.CapNote = note }

// ---------------------------------------------------------------- panics

type PanicInfo struct {
	Msg   string // normalised message
	Raw   string
	Locus string // top frame inside the repository
	Stack string
}

var digits = regexp.MustCompile(`[0-9]+`)
var hexaddr = regexp.MustCompile(`0x[0-9a-f]+`)

func NormMsg(s string) string {
	s = hexaddr.ReplaceAllString(s, "0xN")
	s = digits.ReplaceAllString(s, "N")
	if len(s) > 120 {
		s = s[:120]
	}
	return s
}

const repoMod = "github.com/verily-src/fhirpath-go/"

// LocusOf returns the innermost frame of stack that belongs to the repository
// under test (not to the harness).
func LocusOf(stack string) string {
	lines := strings.Split(stack, "\n")
	seenPanic := false
	for _, l := range lines {
		if strings.HasPrefix(l, "panic(") {
			seenPanic = true
			continue
		}
		if !seenPanic || strings.HasPrefix(l, "\t") {
			continue
		}
		if strings.HasPrefix(l, repoMod) && !strings.Contains(l, "/verifh/") {
			fn := strings.TrimPrefix(l, repoMod)
			if i := strings.LastIndex(fn, "("); i > 0 {
				fn = fn[:i]
			}
			return fn
		}
	}
	// no repo frame after panic(): e.g. runtime error raised directly in a repo frame
	for _, l := range lines {
		if strings.HasPrefix(l, repoMod) && !strings.Contains(l, "/verifh/") {
			fn := strings.TrimPrefix(l, repoMod)
			if i := strings.LastIndex(fn, "("); i > 0 {
				fn = fn[:i]
			}
			return fn
		}
	}
	return "?"
}

// Try runs f and captures a panic.
func Try(f func()) (pi *PanicInfo) {
	defer func() {
		if x := recover(); x != nil {
			st := string(debug.Stack())
			raw := fmt.Sprint(x)
			pi = &PanicInfo{Msg: NormMsg(raw), Raw: raw, Locus: LocusOf(st), Stack: st}
		}
	}()
	f()
	return nil
}

func (p *PanicInfo) Key() string { return "panic:" + p.Locus + ":" + p.Msg }

// Short truncates s for witnesses.
func Short(s string, n int) string {
	if len(s) <= n {
		return s
	}
	return s[:n] + "…"
}
