#!/usr/bin/env python3
# Source of known_findings.json (dev helper; the JSON is the committed artefact the checks read).
import json
COMMENT = "Genuine defects of verily-src/fhirpath-go that are recorded rather than repaired (see DESIGN.md section 3). Keys are finding keys of the checks; '*' matches inside one '|'-separated field. Never written at run time. 'fixed' entries suppress nothing."
F = []
def k(prop, key, desc, wit=None):
    F.append({"property": prop, "key": key, "description": desc, "witness": wit})
FIXED = [
 "fixed: property=C08 0eb546f 1/0, 1.0/0, 1 div 0, 1 mod 0 panicked (also C01)",
 "fixed: property=C08 1d42bec -MinInt32, MinInt32.abs(), MinInt32 div -1 wrapped; ceiling/floor/truncate of a Decimal beyond int32 returned a garbage Integer",
 "fixed: property=C08 95e954e abs/ceiling/floor/truncate went through float64 (0.9999999999999999999.floor() = 1), round() of a FHIR decimal element returned 0, FHIR numeric elements rejected by abs/ceiling/floor/truncate",
 "fixed: property=C08 d0f8d5f Decimal div rounded the quotient to 16 places before truncating (0.9999999999999999999 div 1 = 1)",
 "fixed: property=C16 f23c7ed log/power registered with arity 0..0, round with 0..0: 8.log(2), 2.power(3), 1.567.round(2) rejected by Compile",
 "fixed: property=C16 3c2541a toQuantity bound to impl.ToInteger (also C13)",
 "fixed: property=C16 9f8af5d convertsToDateTime registered as convertToDateTime (also C13)",
 "fixed: property=C13 ca5c4c3 @2020T.toDate() panicked with slice bounds out of range (also C01)",
 "fixed: property=C13 1dbb7be '5'.toQuantity() / '5'.convertsToQuantity() panicked with index out of range (also C01)",
 "fixed: property=C13 b2426b2 toBoolean/toDecimal/toInteger/toQuantity on a complex element returned an error instead of empty",
 "fixed: property=C11 2027f90 '1 ~ 1' and '1 !~ 1' compiled to a nil node and panicked at Evaluate (also C01)",
 "fixed: property=C14 2466df9 'é'.length() = 2, substring/indexOf byte-based (invalid UTF-8 results), 'abc'.substring(-1) panicked (also C01)",
 "fixed: property=C14 aee3571 'abc'.substring(0, -1) returned the rest of the string",
 "fixed: property=C05 46f656c (nameA, 1) = (nameA, 2) was true: collection equality returned after the first equal complex pair",
 "fixed: property=C06 342af44 Patient.deceased (choice element not named value[x]) came back as the proto wrapper, so Boolean operators treated false as true (also C02, C12)",
 "fixed: property=C01 b1a7a80 1000.exp(), 0.ln(), 10.0.power(400), 2.power({}) panicked; Integer power wrapped",
 "fixed: property=C03 372359e '%e & x' with e an empty collection of spare capacity wrote into the caller's backing array",
 "fixed: property=C05 ea79d24 @2020-01-15T10 = @2020-01-15T10Z (and < <= > >=) gave empty although both have hour precision",
 "fixed: property=C05 bd561f9 a FHIR time element never equalled the Time literal of the same time of day (1970-01-01 vs 0000-01-01 carrier dates)",
 "fixed: property=C15 53ec1f0 fhirconv rendered dateTime/instant elements with time zone Z as +00:00, unlike the google/fhir JSON form",
 "fixed: property=C15 c5f9e1e ToProtoDecimal went through float64 and lost digits",
 "fixed: property=C15 f83d43b '\\u00e9' evaluated to 'u00e9' (no \\uXXXX decoding)",
 "fixed: property=C15 6401cb3 @T10:30:00.25 kept a hidden 250 ms under second precision: string form 10:30:00 did not re-parse to an equal value",
 "fixed: property=C01 780360d %a = %b panicked in Collection.TryEqual when an item of an environment collection is itself a collection (nested collections are accepted by EnvVariable)"
]
k('C13', 'to-errors|Integer|str*|table=1', "toInteger() on a string that is not an integer returns the strconv error instead of empty (the error is asserted by the repository's TestToInteger, so it is recorded, not repaired); receiver class str*", {'src': "'abc'.toInteger()", 'got': 'ERROR: strconv.ParseInt: parsing "abc": invalid syntax', 'want': '{}'})
k('C13', 'to-errors|Integer|fhir.str*|table=1', "toInteger() on a string that is not an integer returns the strconv error instead of empty (the error is asserted by the repository's TestToInteger, so it is recorded, not repaired); receiver class fhir.str*", {'src': "'abc'.toInteger()", 'got': 'ERROR: strconv.ParseInt: parsing "abc": invalid syntax', 'want': '{}'})
k('C13', 'to-errors|Integer|fhir.code*|table=1', "toInteger() on a string that is not an integer returns the strconv error instead of empty (the error is asserted by the repository's TestToInteger, so it is recorded, not repaired); receiver class fhir.code*", {'src': "'abc'.toInteger()", 'got': 'ERROR: strconv.ParseInt: parsing "abc": invalid syntax', 'want': '{}'})
k('C13', 'to-errors|Integer|fhir.id*|table=1', "toInteger() on a string that is not an integer returns the strconv error instead of empty (the error is asserted by the repository's TestToInteger, so it is recorded, not repaired); receiver class fhir.id*", {'src': "'abc'.toInteger()", 'got': 'ERROR: strconv.ParseInt: parsing "abc": invalid syntax', 'want': '{}'})
k('C13', 'to-errors|Integer|fhir.markdown*|table=1', "toInteger() on a string that is not an integer returns the strconv error instead of empty (the error is asserted by the repository's TestToInteger, so it is recorded, not repaired); receiver class fhir.markdown*", {'src': "'abc'.toInteger()", 'got': 'ERROR: strconv.ParseInt: parsing "abc": invalid syntax', 'want': '{}'})
k('C13', 'to-errors|Integer|fhir.uri*|table=1', "toInteger() on a string that is not an integer returns the strconv error instead of empty (the error is asserted by the repository's TestToInteger, so it is recorded, not repaired); receiver class fhir.uri*", {'src': "'abc'.toInteger()", 'got': 'ERROR: strconv.ParseInt: parsing "abc": invalid syntax', 'want': '{}'})
k('C13', 'to-errors|Integer|fhir.url*|table=1', "toInteger() on a string that is not an integer returns the strconv error instead of empty (the error is asserted by the repository's TestToInteger, so it is recorded, not repaired); receiver class fhir.url*", {'src': "'abc'.toInteger()", 'got': 'ERROR: strconv.ParseInt: parsing "abc": invalid syntax', 'want': '{}'})
k('C13', 'to-errors|Integer|fhir.canonical*|table=1', "toInteger() on a string that is not an integer returns the strconv error instead of empty (the error is asserted by the repository's TestToInteger, so it is recorded, not repaired); receiver class fhir.canonical*", {'src': "'abc'.toInteger()", 'got': 'ERROR: strconv.ParseInt: parsing "abc": invalid syntax', 'want': '{}'})
k('C13', 'to-errors|Integer|fhir.oid*|table=1', "toInteger() on a string that is not an integer returns the strconv error instead of empty (the error is asserted by the repository's TestToInteger, so it is recorded, not repaired); receiver class fhir.oid*", {'src': "'abc'.toInteger()", 'got': 'ERROR: strconv.ParseInt: parsing "abc": invalid syntax', 'want': '{}'})
k('C13', 'to-errors|Integer|fhir.uuid*|table=1', "toInteger() on a string that is not an integer returns the strconv error instead of empty (the error is asserted by the repository's TestToInteger, so it is recorded, not repaired); receiver class fhir.uuid*", {'src': "'abc'.toInteger()", 'got': 'ERROR: strconv.ParseInt: parsing "abc": invalid syntax', 'want': '{}'})
k('C13', 'to-errors|Integer|fhir.base64*|table=1', "toInteger() on a string that is not an integer returns the strconv error instead of empty (the error is asserted by the repository's TestToInteger, so it is recorded, not repaired); receiver class fhir.base64*", {'src': "'abc'.toInteger()", 'got': 'ERROR: strconv.ParseInt: parsing "abc": invalid syntax', 'want': '{}'})
k('C13', 'table|Time|*|unconvertible-but-value|shape=9', "toTime()/convertsToTime() accept a bare number of one or more digits as an hour: '1'.toTime() = @T01 (time.Parse is lenient about field widths)", {'src': "'1'.toTime()", 'got': '@T01', 'want': '{}'})
k('C13', 'table|Time|*|unconvertible-but-value|shape=9:9', "same leniency with minutes: '1:30'.toTime() = @T01:30 (one-digit hour)", {'src': "'1:30'.toTime()", 'got': '@T01:30', 'want': '{}'})
k('C13', 'table|Time|*|unconvertible-but-value|shape=@T9:9', "toTime() accepts the literal prefix inside a string: '@T10:30'.toTime() = @T10:30", {'src': "'@T10:30'.toTime()"})
k('C13', 'table|Decimal|*|unconvertible-but-value|shape=*e9', "toDecimal()/convertsToDecimal() accept exponent spellings that FHIRPath does not: '1e3'.toDecimal() = 1000 (also with sign, fraction or bare dot before the exponent)", {'src': "'1e3'.toDecimal()", 'got': '1000', 'want': '{}'})
k('C13', 'table|Decimal|*|unconvertible-but-value|shape=*9.', "toDecimal()/convertsToDecimal() accept a bare trailing dot: '0.'.toDecimal() = 0", {'src': "'0.'.toDecimal()", 'got': '0', 'want': '{}'})
k('C13', 'table|DateTime|*|convertible-but-empty|shape=9', "toDateTime() rejects a year-only date string (no trailing T): '2020'.toDateTime() is empty", {'src': "'2020'.toDateTime()", 'got': '{}', 'want': '@2020T'})
k('C13', 'table|DateTime|*|convertible-but-empty|shape=9-9', "toDateTime() rejects a year-month date string: '2020-01'.toDateTime() is empty", {'src': "'2020-01'.toDateTime()", 'got': '{}', 'want': '@2020-01T'})
k('C13', 'table|DateTime|*|convertible-but-empty|shape=9-9-9', "toDateTime() rejects a full date string without a time: '2020-01-15'.toDateTime() is empty", {'src': "'2020-01-15'.toDateTime()", 'got': '{}', 'want': '@2020-01-15T'})
k('C13', 'table|DateTime|str.g.datetime|unconvertible-but-value|shape=9-9-9T9:9:9+9:9', "toDateTime() accepts an out-of-range offset: '2020-01-15T10:30:15+15:00'", {'src': "'2020-01-15T10:30:15+15:00'.toDateTime()"})
k('C13', 'table|DateTime|str.g.datetime|unconvertible-but-value|shape=9-9-9T9:9', "toDateTime() accepts a one-digit hour: '2020-01-15T1:30'", {'src': "'2020-01-15T1:30'.toDateTime()"})
k('C13', 'table|DateTime|str.g.datetime|unconvertible-but-value|shape=@9-9-9T9:9:9Z', "toDateTime() accepts the literal prefix inside a string: '@2020-01-15T10:30:15Z'", {'src': "'@2020-01-15T10:30:15Z'.toDateTime()"})
k('C13', 'table|Quantity|*|unconvertible-but-value|shape=9T', "toQuantity() accepts any letters after the number as a calendar unit: '2020T'.toQuantity() = 2020 'T'", {'src': "'2020T'.toQuantity()"})
k('C13', 'table|Quantity|*|unconvertible-but-value|shape=9a', "same: '0x'.toQuantity() = 0 'x'", {'src': "'0x'.toQuantity()", 'got': "0 'x'", 'want': '{}'})
k('C13', 'table|Quantity|*|unconvertible-but-value|shape=9 a', "toQuantity() accepts an unquoted non-calendar unit: '5 mg'.toQuantity() = 5 'mg'", {'src': "'5 mg'.toQuantity()"})
k('C13', 'table|Date|str.g.datetime|unconvertible-but-value|shape=@9', "toDate() accepts the literal prefix inside a string: '@2020'.toDate() = @2020", {'src': "'@2020'.toDate()"})
k('C13', 'table|Date|str.g.datetime|unconvertible-but-value|shape=@9-9-9', "same: '@2020-01-15'.toDate() = @2020-01-15", {'src': "'@2020-01-15'.toDate()"})
k('C13', 'string-round-trip|Quantity|qty.1|empty', "a unit-less Quantity prints as '1 1', which toQuantity() does not parse back (unit neither quoted nor a word)", {'src': "(1 '1').toString().toQuantity()", 'got': '{}'})
k('C13', 'convertsTo!=to.exists|String|fhir.complex|convertsTo=false,to=value', "toString() on a complex element returns Boolean false instead of empty (asserted by the repository's TestToString, so recorded, not repaired)", {'src': 'Patient.name.first().toString()', 'got': 'false', 'want': '{}'})
k('C13', 'result-type|String|fhir.complex|got=Boolean', 'same defect: the result of toString() on a complex element is a Boolean', {'src': 'Patient.name.first().toString()'})
k('C13', 'table|String|fhir.complex|unconvertible-but-value', 'same defect: toString() yields a value for an unconvertible (complex) item', {'src': 'Patient.name.first().toString()'})

# ---- additions below

def write():
    json.dump({"comment": COMMENT, "findings": F, "fixed": FIXED}, open('/verif/known_findings.json', 'w'), indent=1, ensure_ascii=False)
k("C10", "exclude|*|*|d-has-items-not-in-c|extra-items|*", "exclude(d) also appends the items of d that are not in c (symmetric difference): (1).exclude(2) = (1, 2). The behaviour is asserted by the repository's TestExclude, so it is recorded, not repaired", {"src": "%c.exclude(%d)", "c": "(1)", "d": "(2)", "got": "[1, 2]", "want": "[1]"})
FIXED.append("fixed: property=C10 " + "e88ae68" + " (cA).intersect(cA) returned [nil], (1).intersect(1.0) returned the argument's 1.0, duplicate Decimals were kept")

FIXED.append('fixed: property=C17 2577201 %`a` and %\'a\' looked up a constant named with its quotes; `div` was looked up as the field "`div`" (also C02)')
FIXED.append('fixed: property=C01 5fcd550 1.power(2147483647) did not terminate (int32 loop counter never exceeds MaxInt32)')
FIXED.append('fixed: property=C09 6c0a978 @T08 + 2 hours stayed @T08; @2020-01-01T10 - 2 hours gave T09 (d / unit instead of truncation)')
FIXED.append('fixed: property=C09 ff35142 x + 5 milliseconds failed: the plural keyword was not a time-valued unit')
FIXED.append('fixed: property=C09 faa31f5 @2020 + 365 days stayed @2020; @2019-01 + (-1 week) gave @2018-12; (x - q) + q != x for partial precisions')
FIXED.append('fixed: property=C09 9c65909 @2020-01-01T00:00:00 - 1 millisecond gave 23:59:59 of the previous day')
FIXED.append("fixed: property=C09 856b35d (@T23 + 2 hours) = @T01 was false: the wrapped Time carried the next day's date")

k("C19", "edit-parse-format-parse|seed=*|parse-format-parse-changes-information|empty-authority", "an absolute reference with an empty authority (http:///Patient/1) is accepted with service base 'http:' (all trailing slashes trimmed); its formatted form http:/Patient/1 parses as a non-REST URI, so parse-format-parse changes the information. Recorded rather than repaired: rejecting it needs the service-base pattern, which is stricter than the resource-URL pattern ('_' in path segments)", {"input": "http:///Patient/1", "formatted": "http:/Patient/1"})
FIXED.append("fixed: property=C19 82422fb LiteralInfoFromURI(\"\") and canonical.IdentityFromReference(\"\" / \"#x\" / nil) panicked with index out of range (also C01)")

FIXED.append("fixed: property=C19 fc65c32 Parameters/1 was rejected and http://h/Parameters/1 parsed as a non-REST URI: the resource-URL pattern listed 145 of the 146 R4 types")

k("C20", "extract|String|label-does-not-resolve-in-json|member-of-the-Reference.reference-oneof", "ExtractAllWithPath[*String] labels the String that holds the fragment of a '#id' reference '<path>.fragment' (the proto field name); the FHIR JSON tree has that text under '<path>.reference'. Recorded, not repaired: the labelling works on proto JSON names and the proto splits Reference.reference into a oneof", {"label": "Account.guarantor[1].party.fragment", "json": {"reference": "#c1"}})

FIXED.append("fixed: property=C02 26a16c9 MedicationKnowledge.kinetics.lethalDose50 (and every element whose name has digits or consecutive capitals) failed with ErrInvalidField (found by the C20 extraction labels)")

FIXED.append("fixed: property=C02 e573670 Device.udiCarrier.carrierAIDC / carrierHRF failed with ErrInvalidField: the snake_case guard rejected names with consecutive capitals")

FIXED.append("fixed: property=C12 e609136 Account.coverage[0] (a nested component) answered is Coverage / is DomainResource with true and is BackboneElement / is Element with false; MarketingStatus, Population, ProdCharacteristic, ProductShelfLife, SubstanceAmount had DomainResource as parent")
FIXED.append("fixed: property=C12 50e9002 x is Population / ProdCharacteristic / SubstanceAmount did not compile: the three data types were missing from the element registry")

FIXED.append("fixed: property=C18 dd0ccee patch.Insert(nil value) and patch.Replace(nil value) panicked; an integer value for a FHIR integer (sint32) or non-integer element panicked in intValueFromInt (also C01)")
FIXED.append("fixed: property=C18 2588b76 Add/Replace of an integer element dropped the id and extensions of the supplied value")

FIXED.append("fixed: property=C01 ea1f070 '5\\n mg'.toQuantity() panicked in MustParseQuantity")
FIXED.append("fixed: property=C01 f252080 any operator on a FHIR Quantity element without value panicked (nil dereference in system.From)")
FIXED.append("fixed: property=C01 1a2fa02 1.5.round(2147483647) did not terminate (10^2147483647)")
FIXED.append("fixed: property=C01 7cd054e patch.Add(res, 'Patient.deceased', 'value', x) panicked (bool field converted to message)")

FIXED.append("fixed: property=C20 7c95d62 the label Patient.text.div.id is not a FHIRPath (div is a keyword); found by the thorough tier (depth 3 reaches Narrative.div.id)")

FIXED.append("fixed: property=C02 82ef365 Bundle.entry.request.method.value read 'post' for the code POST, Quantity.comparator.value 'less-than' for '<', fhirVersion 'v-1-4-0' for '1.4.0' (kebab-cased enum name instead of the FHIR code)")
FIXED.append("fixed: property=C02 a7661ae OperationOutcome.issue.code.value (and the 10 other bound codes generated as <Parent>.CodeType) failed with 'complex type ... CodeType can't be cast to system type'")
FIXED.append("fixed: property=C04 e099019 under TZ=America/St_Johns `@2020-03-08T00:15:00.500-03:30 + 1 day` gave offset -02:30 (time.Parse returns time.Local for an offset the process zone uses, calendar arithmetic then follows its DST rules); same for elements via fhirconv.parseLocation; found by the enumerated time-zone space")
k('C13', 'convertsTo!=to.exists|String|fhir.valueless.*|convertsTo=false,to=value', "same recorded defect as for complex elements: toString() on an element that has no System value (Quantity without value or with unparsable value, Decimal without/with bad text, Age/Duration) returns Boolean false instead of empty (asserted by the repository's TestToString)", {'src': "%x.toString() with %x = Quantity{unit:'mg'}", 'got': '[false]', 'want': '{}'})
k('C13', 'result-type|String|fhir.valueless.*|got=Boolean', 'same defect: the result of toString() on an element without a System value is a Boolean', {'src': "%x.toString() with %x = Quantity{unit:'mg'}"})
k('C13', 'to-errors|Integer|fhir.valueless.*|table=2', "same recorded defect as for strings: toInteger() on a string-like element whose text is not an integer (here the empty text of a value-less string, and the code of an unset enum) returns the strconv error instead of empty (asserted by the repository's TestToInteger)", {'src': "%x.toInteger() with %x = string element holding only an extension"})
FIXED.append("fixed: property=C16 2eaab9e 'abcdef'.substring({}) / .substring(1, {}) / .startsWith({}) / .endsWith({}) / .contains({}) failed at evaluation with 'incorrect function arity: received 0 arguments, expected 1' although the call has the accepted argument count; found by the empty-position variants added for the seeded change C16-m3")
FIXED.append("fixed: property=C18 6f54052 patch.Replace(AuditEvent.action, 'c') / Replace(Questionnaire.item.type, 'date-time') / Replace(Quantity.comparator, 'less-than') succeeded and set the codes C / dateTime / <, which the FHIR JSON tree cannot hold under those spellings (any string normalising to an enum name was accepted), while the real codes were rejected; found by the strict code model added for the seeded change C18-m4")
FIXED.append("fixed: property=C02 9402bc5 with contained resources (or Bundle entries) of different types, `ActivityDefinition.contained.basedOn` failed with 'invalid field: based_on_value not a field on *Patient' instead of yielding the Observation's basedOn elements; found by the thorough tier (variant 4 carries two contained types), the quick tier now carries them in variant 1")
FIXED.append("fixed: property=C15 4b2196b system.Time.ToProtoTime() produced a negative value_us (@T08:30:05.250 -> -55794750000, because fhir.Time takes UnixMicro() % day of a year-0 time), which fhirconv.TimeToString renders as '-15:-29:-54.-750'; found by the render-agreement oracle on produced elements (pointed out by the C15 sub-agent)")
FIXED.append("fixed: property=C01 7f98637 (1 '').abs() panicked (index out of range: a Quantity with the empty unit prints as its number alone); 1e400.sqrt() and 1e400.log(2) panicked (Cannot create a Decimal from +Inf); found after extreme values were added to the C01 pool (pointed out by the C01 sub-agents)")
k('C13', 'result-string-round-trip|Quantity|*|empty|unit=1', "same recorded defect as string-round-trip|Quantity|qty.1: every conversion result with the default unit '1' (true.toQuantity(), 5.toQuantity(), '5'.toQuantity()) prints as '5 1', which toQuantity() does not parse back; seen through the law y.toString().toT() = y applied to conversion results", {'src': "5.toQuantity().toString().toQuantity() = 5.toQuantity()", 'got': '{}', 'want': 'true'})
k('C13', 'result-string-round-trip|Quantity|str.g.num*|empty|unit=', "toQuantity() of a number string with trailing white space ('0 ') yields a Quantity with the empty unit instead of '1'; it prints as the bare number, which reads back with unit '1' and is not comparable with it (lenient-parsing family)", {'src': "'0 '.toQuantity().toString().toQuantity() = '0 '.toQuantity()", 'got': '{}', 'want': 'true'})
k('C13', "result-string-round-trip|Quantity|str.g.quantity|empty|unit= 'mg", "toQuantity() of a quantity string with more than one space before a quoted unit (5, two spaces, 'mg') keeps the extra space and the opening quote in the unit; the result does not read back from its own string. Trimming the white space is what TestToQuantity forbids ('100           km' must keep its spaces), so recorded, not repaired", {'src': "a string holding 5, two spaces and the quoted unit mg, then .toQuantity()", 'got': "unit is [space][quote]mg", 'want': "unit mg"})
FIXED.append("fixed: property=C13 5a2ec44 a microsecond-precision FHIR dateTime or time element converted to a System value that printed milliseconds but kept the microseconds (x.toString().toDateTime() = x was false; instants were unaffected); found after microsecond elements were added to the C13 items (pointed out by the C13 sub-agents)")
FIXED.append("fixed: property=C18 0ecdb41 patch.Delete(res, 'Patient.contained[0].id'), Replace and Add on elements inside a contained resource returned nil and left the resource unchanged (the evaluator hands out a decoded copy of the packed resource); they now fail with ErrNotPatchable; pointed out by the C18 sub-agent, covered by the new contained-targets sub-space")
FIXED.append("fixed: property=C18 540625a patch.Delete(bundle, 'Bundle.entry[0].resource.contained[0].name[0]') returned nil without a change (the contained-copy guard looked at the root resource's own contained list only); pointed out by the C18 sub-agent")
FIXED.append("fixed: property=C01 fcbf6dc a Bundle entry whose ContainedResource wrapper holds no resource made Bundle.entry.resource, Bundle.descendants(), Bundle.entry.children() and every patch operation below it panic (nil dereference in unwrapOneof); pointed out by the C01 sub-agent, covered by the new degenerate-resources sub-space")
FIXED.append("fixed: property=C09 04cc5a2 `@2019-01-01T00Z + 3000000 hours` gave 1776-09-07T01Z and `@T00 + 3000000 hours` gave T01: an amount of hours / minutes / seconds / milliseconds beyond the 292 years a 64-bit duration holds wrapped around; it now yields empty (overflow); found after large amounts were added to the C09 grid")
FIXED.append("fixed: property=C15 ac3e1cd a FHIR date element whose proto carries a time zone (e.g. from an unmarshaller with a default zone) became a System Date that printed 2020-01-01 but was not equal to @2020-01-01 (it kept midnight of that zone and Dates compare as instants); same for year/month/day-precision dateTime elements; found by the value-equals-what-it-prints oracle added for the seeded change C15-m9")
FIXED.append("fixed: property=C02 bc4a80e `Patient.text.div.value` (the xhtml content of a narrative) failed with 'value can't be cast to system type: complex type *Xhtml', and with it children() of a Narrative and descendants() of any resource that has a narrative: Xhtml was missing from system.IsPrimitive and system.From; the C02 primitive-value stage had skipped Xhtml elements, the skip was removed when the contained-resource type tests of C12 ran into descendants()")
k('C13', 'result-string-round-trip|Quantity|*qty.*unit*|empty|unit=', "a Quantity with the empty unit (literal 1 '', or a FHIR Quantity that has only a human-readable unit and no code) prints as the bare number, which reads back with unit '1' and is then not comparable with the original (empty-unit family, see string-round-trip|Quantity|qty.1)", {'src': "(1 '').toString().toQuantity() = (1 '')", 'got': '{}', 'want': 'true'})
k('C13', 'string-round-trip|Quantity|*qty.*unit*|empty', "same defect seen through x.toString().toQuantity() = x for x a Quantity with the empty unit", {'src': "(1 '').toString().toQuantity() = (1 '')", 'got': '{}', 'want': 'true'})
k('C13', 'result-string-round-trip|Quantity|*|empty|unit=*[*', "a Quantity whose UCUM unit needs quotes (brackets: mm[Hg], [in_i]) prints with the unit unquoted ('120 mm[Hg]'), which toQuantity() does not read back: same family as the unit-'1' and empty-unit entries (Quantity.String() never quotes the unit, and other code splits that string at the blank, so quoting is not a local repair)", {'src': "'120 ''mm[Hg]'''.toQuantity().toString().toQuantity()", 'got': '{}', 'want': "120 'mm[Hg]'"})
if __name__ == '__main__':
    write()
