#!/usr/bin/env python3
# dev helper: group novel keys by selected key fields: groupkeys.py C13 0,1,3  [maxlines]
import json,sys,collections
ID=sys.argv[1]; fields=[int(x) for x in sys.argv[2].split(',')]; mx=int(sys.argv[3]) if len(sys.argv)>3 else 80
ks=json.load(open(f'/tmp/novel-{ID}.json')) or []
g=collections.OrderedDict()
for k in ks:
    p=k['key'].split('|'); kk='|'.join(p[i] for i in fields if i<len(p)); g.setdefault(kk,[]).append(k)
print(len(ks),'keys in',len(g),'groups')
for n,(kk,v) in enumerate(g.items()):
    if n>=mx: break
    print(len(v),kk,'  <=',json.dumps(v[0]['witness'],ensure_ascii=False)[:240])
